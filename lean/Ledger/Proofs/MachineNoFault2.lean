import Ledger.Proofs.MachineNoFault

/-! No fault / panic: sources and takes (current variant of the model). -/
namespace Ledger.Machine

theorem NF.error_of {α β : Type} {r : Except Err α} (h : NF r) {e : Err} (heq : r = .error e) :
    NF (Except.error e : Except Err β) := by
  intro w
  have := h w
  rw [heq] at this
  constructor
  · intro h2; cases h2; exact this.1 rfl
  · intro h2; cases h2; exact this.2 rfl

theorem withdrawAll_nf (b : Balances) (acc asset : String) (x : Int) :
    NF (withdrawAll b acc asset (some x)) := by
  unfold withdrawAll
  split
  · exact NF.run _ _
  · split
    · exact NF.ok _
    · exact NF.ok _

theorem checkOverdraft_fixed (asset : String) (od : String × Option Int) :
    NF (checkOverdraft Cfg.fixed asset od) ∧
    ∀ r, checkOverdraft Cfg.fixed asset od = .ok r → ∃ x, r.2 = some x := by
  unfold checkOverdraft
  simp only [Cfg.fixed, if_true]
  split
  · exact ⟨NF.run _ _, fun r h => by cases h⟩
  · exact ⟨NF.ok _, fun r h => by cases h; exact ⟨_, rfl⟩⟩

theorem assemble_nf (fs : List Funding) : NF (assemble fs) := by
  unfold assemble
  split
  · exact NF.run _ _
  · split
    · exact NF.ok _
    · exact NF.run _ _

theorem takeMaxStep_nf {ds : Decls} {env : Env} (henv : EnvTyped ds env) (fb : Option Expr)
    (hfb : ∀ e, fb = some e → typeExpr ds e = .ok .account) (f : Funding) (a : String) (v : Int)
    (b : Balances) : NF (takeMaxStep env fb f (a, some v) b) := by
  unfold takeMaxStep
  simp only [needAmt]
  split
  · exact NF.run _ _
  · split
    · exact NF.run _ _
    · cases fb with
      | none => exact NF.ok _
      | some e =>
        simp only
        have := evalAccount_nf henv (hfb e rfl)
        split
        · rename_i err heq; exact this.error_of heq
        · exact NF.ok _

theorem takeFromSource_nf {ds : Decls} {env : Env} (henv : EnvTyped ds env) (fb : Option Expr)
    (hfb : ∀ e, fb = some e → typeExpr ds e = .ok .account) (f : Funding) (a : String) (v : Int)
    (b : Balances) : NF (takeFromSource env fb f (a, some v) b) := by
  unfold takeFromSource
  split
  · exact takeMaxStep_nf henv _ hfb f a v b
  · split
    · exact NF.run _ _
    · simp only [needAmt]
      split
      · exact NF.run _ _
      · exact NF.ok _

/-! ### What `checkSource` guarantees -/

theorem checkSource_account_inv {ds : Decls} {isAll : Bool} {e : Expr} {od : Overdraft}
    {r : List String × Bool} (h : checkSource ds isAll (.account e od) = .ok r) :
    typeExpr ds e = .ok .account ∧ (∀ x, od = .upTo x → typeExpr ds x = .ok .monetary) := by
  simp only [checkSource] at h
  split at h
  · cases h
  · rename_i t ht
    split at h
    · cases h
    · rename_i hta
      have hta' : t = .account := by simpa using hta
      subst hta'
      refine ⟨ht, ?_⟩
      intro x hx
      subst hx
      simp only at h
      split at h
      · cases h
      · split at h
        · cases h
        · rename_i tx htx
          split at h
          · cases h
          · rename_i hm
            have : tx = .monetary := by simpa using hm
            subst this; exact htx

theorem checkSource_maxed_inv {ds : Decls} {isAll : Bool} {m : Expr} {s : Source}
    {r : List String × Bool} (h : checkSource ds isAll (.maxed m s) = .ok r) :
    (∃ r', checkSource ds false s = .ok r') ∧ typeExpr ds m = .ok .monetary := by
  simp only [checkSource] at h
  split at h
  · cases h
  · rename_i r' hr'
    split at h
    · cases h
    · rename_i t ht
      split at h
      · cases h
      · rename_i hm
        have : t = .monetary := by simpa using hm
        subst this
        exact ⟨⟨r', hr'⟩, ht⟩

theorem checkSources_cons_inv {ds : Decls} {isAll : Bool} {s : Source} {rest : SourceList}
    {em : List String} {r : List String × Bool} (h : checkSources ds isAll (.cons s rest) em = .ok r) :
    ∃ em1 fb, checkSource ds isAll s = .ok (em1, fb) ∧
      (rest = .nil ∨ ∃ r', checkSources ds isAll rest (em ++ em1) = .ok r') := by
  cases rest with
  | nil =>
    simp only [checkSources] at h
    split at h
    · cases h
    · rename_i em1 fb hs
      exact ⟨em1, fb, hs, Or.inl rfl⟩
  | cons s' r' =>
    simp only [checkSources] at h
    split at h
    · cases h
    · rename_i em1 fb hs
      refine ⟨em1, fb, hs, Or.inr ?_⟩
      split at h
      · cases h
      · split at h
        · cases h
        · exact ⟨r, h⟩

mutual
  theorem fallback_typed (ds : Decls) :
      (s : Source) → ∀ isAll r, checkSource ds isAll s = .ok r →
      ∀ e, s.fallback = some e → typeExpr ds e = .ok .account
    | .account e od, isAll, r, h, e', he => by
      have := (checkSource_account_inv h).1
      simp only [Source.fallback] at he
      cases od with
      | none =>
        simp only at he
        split at he
        · cases he; exact this
        · cases he
      | upTo x => simp at he
      | unbounded => simp only at he; cases he; exact this
    | .maxed _ _, _, _, _, e', he => by simp [Source.fallback] at he
    | .inorder ss, isAll, r, h, e', he => by
      simp only [Source.fallback] at he
      simp only [checkSource] at h
      exact fallbacks_typed ds ss isAll [] r h e' he
  theorem fallbacks_typed (ds : Decls) :
      (ss : SourceList) → ∀ isAll em r, checkSources ds isAll ss em = .ok r →
      ∀ e, ss.fallback = some e → typeExpr ds e = .ok .account
    | .nil, _, _, _, _, e', he => by simp [SourceList.fallback] at he
    | .cons s .nil, isAll, em, r, h, e', he => by
      simp only [SourceList.fallback] at he
      obtain ⟨em1, fb, hs, _⟩ := checkSources_cons_inv h
      exact fallback_typed ds s isAll _ hs e' he
    | .cons s0 (.cons s ss), isAll, em, r, h, e', he => by
      simp only [SourceList.fallback] at he
      obtain ⟨em1, fb, hs, hrest⟩ := checkSources_cons_inv h
      rcases hrest with hnil | ⟨r', hr'⟩
      · cases hnil
      · exact fallbacks_typed ds (.cons s ss) isAll _ r' hr' e' he
end

/-! ### Sources -/

mutual
  theorem evalSource_nf {ds : Decls} {env : Env} (henv : EnvTyped ds env) (hok : EnvValsOK env)
      (asset : String) :
      (s : Source) → ∀ isAll r, checkSource ds isAll s = .ok r → ∀ b,
      NF (evalSource Cfg.fixed env asset s b)
    | .account e od, isAll, r, h, b => by
      obtain ⟨he, hod⟩ := checkSource_account_inv h
      have hacc := evalAccount_nf henv he
      simp only [evalSource]
      split
      · rename_i err heq; exact hacc.error_of heq
      · rename_i acc _
        cases od with
        | none =>
          simp only
          split
          · exact NF.ok _
          · have := withdrawAll_nf b acc asset 0
            split
            · rename_i err heq; exact this.error_of heq
            · exact NF.ok _
        | upTo x =>
          simp only
          rcases evalMonetary_typed henv hok (hod x rfl) with ⟨a, v, hm⟩ | ⟨k, hk⟩
          · rw [hm]
            simp only
            obtain ⟨c1, c2⟩ := checkOverdraft_fixed asset (a, some v)
            split
            · rename_i err heq; exact c1.error_of heq
            · rename_i oa ov heq
              obtain ⟨x', hx'⟩ := c2 _ heq
              simp only at hx'
              subst hx'
              have := withdrawAll_nf b acc oa x'
              split
              · rename_i err heq2; exact this.error_of heq2
              · exact NF.ok _
          · rw [hk]; exact NF.run _ _
        | unbounded => simp only; exact NF.ok _
    | .maxed m s, isAll, r, h, b => by
      obtain ⟨⟨r', hr'⟩, hm⟩ := checkSource_maxed_inv h
      have ih := evalSource_nf henv hok asset s false r' hr' b
      simp only [evalSource]
      split
      · rename_i err heq; exact ih.error_of heq
      · rename_i f b1 _
        rcases evalMonetary_typed henv hok hm with ⟨a, v, hmv⟩ | ⟨k, hk⟩
        · rw [hmv]
          simp only
          exact takeMaxStep_nf henv _ (fun e he => fallback_typed ds s false r' hr' e he) f a v b1
        · rw [hk]; exact NF.run _ _
    | .inorder ss, isAll, r, h, b => by
      simp only [checkSource] at h
      have ih := evalSources_nf henv hok asset ss isAll [] r h b
      simp only [evalSource]
      split
      · rename_i err heq; exact ih.error_of heq
      · rename_i fs b1 _
        have := assemble_nf fs
        split
        · rename_i err heq; exact this.error_of heq
        · exact NF.ok _
  theorem evalSources_nf {ds : Decls} {env : Env} (henv : EnvTyped ds env) (hok : EnvValsOK env)
      (asset : String) :
      (ss : SourceList) → ∀ isAll em r, checkSources ds isAll ss em = .ok r → ∀ b,
      NF (evalSources Cfg.fixed env asset ss b)
    | .nil, _, _, _, _, b => by simp only [evalSources]; exact NF.ok _
    | .cons s rest, isAll, em, r, h, b => by
      obtain ⟨em1, fb, hs, hrest⟩ := checkSources_cons_inv h
      have ih := evalSource_nf henv hok asset s isAll _ hs b
      simp only [evalSources]
      split
      · rename_i err heq; exact ih.error_of heq
      · rename_i f b1 _
        have ih2 : NF (evalSources Cfg.fixed env asset rest b1) := by
          rcases hrest with hnil | ⟨r', hr'⟩
          · subst hnil; simp only [evalSources]; exact NF.ok _
          · exact evalSources_nf henv hok asset rest isAll _ r' hr' b1
        split
        · rename_i err heq; exact ih2.error_of heq
        · exact NF.ok _
end

theorem evalAllotSrc_nf {ds : Decls} {env : Env} (henv : EnvTyped ds env) (hok : EnvValsOK env)
    (asset monAsset : String) :
    (items : AllotSrcList) → checkAllotSources ds items = .ok () → ∀ parts b,
    parts.length = items.length → NF (evalAllotSrc Cfg.fixed env asset monAsset items parts b)
  | .nil, _, parts, b, _ => by simp only [evalAllotSrc]; exact NF.ok _
  | .cons _ s rest, h, [], b, hl => by simp [AllotSrcList.length] at hl
  | .cons _ s rest, h, p :: ps, b, hl => by
    simp only [checkAllotSources] at h
    split at h
    · cases h
    · rename_i r' hr'
      have ih := evalSource_nf henv hok asset s false r' hr' b
      simp only [evalAllotSrc]
      split
      · rename_i err heq; exact ih.error_of heq
      · rename_i f b1 _
        have ht := takeFromSource_nf henv s.fallback (fun e he => fallback_typed ds s false r' hr' e he)
          f monAsset p b1
        split
        · rename_i err heq; exact ht.error_of heq
        · rename_i rr b2 _
          have ih2 := evalAllotSrc_nf henv hok asset monAsset rest h ps b2
            (by simpa [AllotSrcList.length] using hl)
          split
          · rename_i err heq; exact ih2.error_of heq
          · exact NF.ok _

end Ledger.Machine
