import Ledger.Proofs.SqlDistinct
import Ledger.Proofs.SqlReadsWindowStmt
import Ledger.Proofs.CoreReads
import Ledger.Proofs.CoreInsPcv

/-!
# The `first_value(post_commit_[effective_]volumes)` dataset of the read path on ANY `moves` table

`SELECT DISTINCT ON (accounts_address, asset) accounts_address, asset,
        first_value(post_commit_effective_volumes) OVER (PARTITION BY (accounts_address, asset) ORDER BY effective_date DESC, seq DESC) AS volumes
 FROM <bucket>.moves WHERE ledger = l AND effective_date <= pit`
(insertion mode: `post_commit_volumes`, `ORDER BY seq DESC`, `insertion_date <= pit`) — the dataset of GetAggregatedBalances(PIT) and of
the volumes expansion of accounts at a point in time — evaluated by LeanPG on ANY table of well-typed rows with distinct sequence
numbers: one row per (account, asset) having a move of the ledger at or before `pit`, sorted by (account, asset), carrying
`Ledger.Spec.effectiveVolumesAt` / `insertionVolumesAt` (`exec_fvQuery`).
-/
open Ledger Ledger.Sql Ledger.Generated Ledger.Core Ledger.Base Ledger.Spec

namespace Ledger.Sql

def fvCol : DateMode → String
  | .effective => "post_commit_effective_volumes"
  | .insertion => "post_commit_volumes"

def seqOrder : List OrderItem := [OrderItem.mk (Expr.col "" "seq") true NullsOrder.dflt]

def fvOrder : DateMode → List OrderItem
  | .effective => prevOrder
  | .insertion => seqOrder

def fvSpec (id : Nat) (mode : DateMode) : WinSpec :=
  { id := id, name := "first_value", args := [Expr.col "" (fvCol mode)],
    partition := [Expr.row [Expr.col "" "accounts_address", Expr.col "" "asset"]], order := fvOrder mode }

def fvWin (id : Nat) (mode : DateMode) : Expr :=
  Expr.win id "first_value" [Expr.col "" (fvCol mode)] [Expr.row [Expr.col "" "accounts_address", Expr.col "" "asset"]] (fvOrder mode)

def fvItems (id : Nat) (mode : DateMode) : List (Expr × String) :=
  [(Expr.col "" "accounts_address", ""), (Expr.col "" "asset", ""), (fvWin id mode, "volumes")]

/-- the dataset -/
def fvQuery (b : String) (wher : Expr) (id : Nat) (mode : DateMode) : Query :=
  Query.mk [] (SetExpr.select (Select.mk false (winGroup.map (Expr.col "")) ((fvItems id mode).map (fun p => SelItem.expr p.1 p.2))
    [FromItem.table b "moves" ""] (some wher) [] none)) [] none none LockMode.none

/-! ### typed pieces -/

/-- the partition key `(accounts_address, asset)` as a row value -/
def kvRow (k : Key) : List Value := [.row [] [.text k.1, .text k.2]]

theorem sameGroupKey_kvRow (a c : Key) : sameGroupKey (kvRow a) (kvRow c) = .ok (decide (a = c)) := by
  obtain ⟨a1, a2⟩ := a
  obtain ⟨c1, c2⟩ := c
  simp only [kvRow, sameGroupKey, compareForSort, compareValues, compareScalarList, compareScalar, bind, Except.bind, pure, Except.pure]
  by_cases h1 : a1 = c1
  · subst h1
    have e1 : cmpStr a1 a1 = Ordering.eq := (cmpStr_eq_iff _ _).mpr rfl
    simp only [e1]
    by_cases h2 : a2 = c2
    · subst h2
      have e2 : cmpStr a2 a2 = Ordering.eq := (cmpStr_eq_iff _ _).mpr rfl
      simp [e2]
    · have e2 : cmpStr a2 c2 ≠ Ordering.eq := fun e => h2 ((cmpStr_eq_iff _ _).mp e)
      cases hc : cmpStr a2 c2 with
      | eq => exact absurd hc e2
      | lt => simp [h2]
      | gt => simp [h2]
  · have e1 : cmpStr a1 c1 ≠ Ordering.eq := fun e => h1 ((cmpStr_eq_iff _ _).mp e)
    cases hc : cmpStr a1 c1 with
    | eq => exact absurd hc e1
    | lt => simp [h1]
    | gt => simp [h1]

/-- the ORDER BY key of a row inside its partition -/
def fvOk (mode : DateMode) (L : List Scope) : List Value :=
  match mode, decL L with
  | .effective, some (_, m) => [.ts m.effectiveDate, .int m.seq]
  | .effective, none => [.ts 0, .int 0]
  | .insertion, some (_, m) => [.int m.seq]
  | .insertion, none => [.int 0]

/-- the post-commit volumes a row carries in the column the mode reads -/
def fvVol (mode : DateMode) (m : MoveRow) : Volumes :=
  match mode with
  | .effective => m.pcev
  | .insertion => m.pcv

def fvArg (mode : DateMode) (L : List Scope) : List Value :=
  match decL L with
  | some (_, m) => [volVal (fvVol mode m)]
  | none => [.null]

def fvProj (L : List Scope) (v : Value) : List Value := [.text (keyL L).1, .text (keyL L).2, v]

def fvDval (L : List Scope) (c : String) : Value := if c == "accounts_address" then .text (keyL L).1 else .text (keyL L).2

/-- the comparison of ORDER BY keys of a mode -/
def fvCmp : DateMode → List Value → List Value → Ordering
  | .effective => mvCmp
  | .insertion => seqCmp

def fvKeyOk : DateMode → List Value → Prop
  | .effective => mvKeyOk
  | .insertion => seqKeyOk

theorem fvCmpOk {β : Type} (mode : DateMode) :
    CmpOk (fun (x y : List Value × β) => cmpOrderKeys x.1 y.1 (orderDescs (fvOrder mode)) (orderNulls (fvOrder mode)))
      (fun x y => fvCmp mode x.1 y.1) (fun x => fvKeyOk mode x.1) := by
  cases mode
  · exact seqCmpOk
  · exact mvCmpOk

theorem fvOk_ok (mode : DateMode) (L : List Scope) : fvKeyOk mode (fvOk mode L) := by
  cases mode <;> cases h : decL L <;> simp only [fvOk, h, fvKeyOk]
  · exact ⟨_, rfl⟩
  · exact ⟨_, rfl⟩
  · exact ⟨_, _, rfl⟩
  · exact ⟨_, _, rfl⟩

theorem fvOk_len (mode : DateMode) (L : List Scope) : (fvOk mode L).length = (orderDescs (fvOrder mode)).length := by
  cases mode <;> cases h : decL L <;> simp only [fvOk, h] <;> rfl

/-! ### the latest move -/

/-- "`y` is sorted strictly before `h`" in the window's order = `h` is older than `y` -/
def olderThan (mode : DateMode) (h y : MoveRow) : Prop :=
  match mode with
  | .effective => h.effectiveDate < y.effectiveDate ∨ (h.effectiveDate = y.effectiveDate ∧ h.seq < y.seq)
  | .insertion => h.seq < y.seq

theorem fvCmp_lt (mode : DateMode) (b : String) (r1 r2 : Nat) (p1 p2 : String × MoveRow) :
    fvCmp mode (fvOk mode [mvScope b r1 p1]) (fvOk mode [mvScope b r2 p2]) = .lt ↔ olderThan mode p2.2 p1.2 := by
  cases mode
  · simp only [fvCmp, fvOk, decL_mvScope, seqCmp_lt, olderThan]
    omega
  · simp only [fvCmp, fvOk, decL_mvScope, mvCmp_lt, olderThan]
    omega

/-- the value the read reports for `k` at `pit` -/
def volumesAtPit (mode : DateMode) (T : List MoveRow) (k : Key) (pit : Int) : Volumes :=
  match mode with
  | .effective => effectiveVolumesAt T k pit
  | .insertion => insertionVolumesAt T k pit

/-- a candidate that no candidate is newer than is the move the Spec picks -/
theorem volumesAtPit_of_max (mode : DateMode) (T : List MoveRow) (hseq : (T.map (·.seq)).Nodup) (k : Key) (pit : Int) (h : MoveRow)
    (hh : h ∈ T) (hk : h.key = k) (hd : h.date mode ≤ pit)
    (hmax : ∀ y ∈ T, y.key = k → y.date mode ≤ pit → ¬ olderThan mode h y) :
    volumesAtPit mode T k pit = fvVol mode h := by
  cases mode
  · -- insertion
    simp only [volumesAtPit, fvVol, insertionVolumesAt]
    cases hl : lastInsertionMove T k pit with
    | none => exact absurd ⟨hk, hd⟩ (lastInsertionMove_none hl h hh)
    | some p =>
      obtain ⟨h1, h2, h3, h4⟩ := lastInsertionMove_some hl
      have a1 := h4 h hh hk hd
      have a2 := hmax p h1 h2 h3
      simp only [olderThan] at a2
      have : h.seq = p.seq := by omega
      have := nodup_map_inj (fun m : MoveRow => m.seq) T hseq h hh p h1 this
      subst this
      rfl
  · -- effective
    simp only [volumesAtPit, fvVol, effectiveVolumesAt]
    cases hl : lastEffectiveMove T k pit with
    | none => exact absurd ⟨hk, hd⟩ (lastEffectiveMove_none hl h hh)
    | some p =>
      obtain ⟨h1, h2, h3, h4⟩ := lastEffectiveMove_some hl
      have a1 := h4 h hh hk hd
      rw [notAfter_iff] at a1
      have a2 := hmax p h1 h2 h3
      simp only [olderThan] at a2
      have : h.seq = p.seq := by omega
      have := nodup_map_inj (fun m : MoveRow => m.seq) T hseq h hh p h1 this
      subst this
      rfl

end Ledger.Sql
