import Ledger.Proofs.MachineBal

/-!
Unit expansion of fundings / sender queues / postings.

A list of parts `[(a, 3), (b, 0), (a, 2)]` is read as the list of its units
`[a, a, a, a, a]`: zero parts vanish and adjacent parts of one account merge.  Both
runtimes only differ in how they chop the same unit list into parts (the machine keeps
zero parts and splits at source boundaries, the interpreter's queue compacts), so every
funding operation of either side is a `take` / `drop` / `++` on unit lists.
-/
namespace Ledger.Interp
open Ledger.Machine

/-- The units of a part list (amounts ≤ 0 contribute nothing). -/
def units : List Part → List String
  | [] => []
  | p :: ps => List.replicate p.amount.toNat p.account ++ units ps

@[simp] theorem units_nil : units [] = [] := rfl

@[simp] theorem units_cons (p : Part) (ps : List Part) :
    units (p :: ps) = List.replicate p.amount.toNat p.account ++ units ps := rfl

theorem units_append (a b : List Part) : units (a ++ b) = units a ++ units b := by
  induction a with
  | nil => simp
  | cons p ps ih => simp [ih]

theorem units_single (a : String) (n : Int) : units [⟨a, n⟩] = List.replicate n.toNat a := by
  simp

theorem total_eq_length (ps : List Part) (h : partsNonneg ps) : total ps = (units ps).length := by
  induction ps with
  | nil => simp [total]
  | cons p ps ih =>
    have hp := partsNonneg_cons.mp h
    simp only [total, units_cons, List.length_append, List.length_replicate, ih hp.2]
    have := hp.1
    omega

theorem acctTotal_eq_count (a : String) (ps : List Part) (h : partsNonneg ps) :
    acctTotal a ps = (units ps).count a := by
  induction ps with
  | nil => simp [acctTotal, totalOf]
  | cons p ps ih =>
    have hp := partsNonneg_cons.mp h
    have ih' := ih hp.2
    simp only [acctTotal] at ih'
    simp only [acctTotal, totalOf, units_cons, List.count_append, List.count_replicate, ih']
    have := hp.1
    by_cases hx : p.account = a
    · simp [hx]; omega
    · have : (p.account == a) = false := by simpa using hx
      simp [this]

/-- Units of a list whose amounts are all ≤ 0. -/
theorem units_eq_nil_of_total_zero (ps : List Part) (h : partsNonneg ps) (ht : total ps = 0) :
    units ps = [] := by
  have := total_eq_length ps h
  rw [ht] at this
  exact List.eq_nil_of_length_eq_zero (by omega)

theorem takeLoop_units (ps : List Part) (h : partsNonneg ps) (r : Int) :
    units (takeLoop ps r).1 = (units ps).take r.toNat ∧
    units (takeLoop ps r).2.1 = (units ps).drop r.toNat := by
  induction ps generalizing r with
  | nil => simp [takeLoop]
  | cons p ps ih =>
    have hp := partsNonneg_cons.mp h
    have h0 := hp.1
    unfold takeLoop
    by_cases hr : 0 < r
    · rw [if_pos hr]
      by_cases hlt : r < p.amount
      · rw [if_pos hlt]
        have hle : r.toNat ≤ (List.replicate p.amount.toNat p.account).length := by
          simp; omega
        constructor
        · simp only [units_cons, units_nil, List.append_nil]
          rw [List.take_append_of_le_length hle, List.take_replicate]
          congr 1; omega
        · simp only [units_cons]
          rw [List.drop_append_of_le_length hle, List.drop_replicate]
          congr 2; omega
      · rw [if_neg hlt]
        obtain ⟨i1, i2⟩ := ih hp.2 (r - p.amount)
        have hn : (r - p.amount).toNat = r.toNat - p.amount.toNat := by omega
        constructor
        · simp only [units_cons, i1]
          rw [List.take_append, List.length_replicate, hn]
          congr 1
          rw [List.take_of_length_le]; simp; omega
        · simp only [i2]
          rw [units_cons, List.drop_append, List.length_replicate, hn]
          rw [List.drop_of_length_le (l := List.replicate p.amount.toNat p.account) (by simp; omega)]; simp
    · rw [if_neg hr]
      have : r.toNat = 0 := by omega
      simp [this]

theorem takeMax_units (ps : List Part) (h : partsNonneg ps) (r : Int) :
    units (takeMax ps r).1 = (units ps).take r.toNat ∧
    units (takeMax ps r).2 = (units ps).drop r.toNat := by
  simpa [takeMax] using takeLoop_units ps h r

theorem zeroHead_units (ps : List Part) (amt : Int) : units (zeroHead ps amt) = [] := by
  unfold zeroHead
  split
  · split <;> simp
  · rfl

/-- `Take` succeeds exactly when the funding holds enough. -/
theorem take_isSome_iff (ps : List Part) (h : partsNonneg ps) (amt : Int) (ha : 0 ≤ amt) :
    (take ps amt).isSome ↔ amt ≤ total ps := by
  have hm := takeLoop_missing ps amt h ha
  unfold take
  constructor
  · intro hs
    by_cases hz : (takeLoop ps amt).2.2 = 0
    · by_cases hlt : total ps < amt
      · have := hm.1 hlt; omega
      · omega
    · rw [if_neg hz] at hs; cases hs
  · intro hle
    rw [if_pos (hm.2 hle)]; rfl

theorem take_units {ps : List Part} {amt : Int} {res rem : List Part} (h : partsNonneg ps)
    (ht : take ps amt = some (res, rem)) :
    units res = (units ps).take amt.toNat ∧ units rem = (units ps).drop amt.toNat := by
  unfold take at ht
  split at ht
  · cases ht
    obtain ⟨i1, i2⟩ := takeLoop_units ps h amt
    simp [units_append, zeroHead_units, i1, i2]
  · cases ht

theorem concatParts_units (a b : List Part) (ha : partsNonneg a) (hb : partsNonneg b) :
    units (concatParts a b) = units a ++ units b := by
  induction a with
  | nil => simp [concatParts]
  | cons x xs ih =>
    cases xs with
    | nil =>
      cases b with
      | nil => simp [concatParts]
      | cons o os =>
        simp only [concatParts]
        split
        · rename_i heq
          have hx := (partsNonneg_cons.mp ha).1
          have ho := (partsNonneg_cons.mp hb).1
          simp only [units_cons, units_nil, List.append_nil, ← heq]
          rw [← List.append_assoc, List.replicate_append_replicate, Int.toNat_add hx ho]
        · simp
    | cons y ys =>
      simp only [concatParts, units_cons]
      have := ih (partsNonneg_cons.mp ha).2
      simp only [units_cons] at this
      rw [this]; simp

end Ledger.Interp
