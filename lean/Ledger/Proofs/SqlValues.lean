import Ledger.Sql.Builtins

/-!
# Pure facts on LeanPG values: `==` is reflexive (needed where the evaluator compares row versions)
-/
namespace Ledger.Sql

mutual
theorem JV.beq_refl : ∀ (j : JV), JV.beq j j = true
  | .null => rfl
  | .bool b => by simp [JV.beq]
  | .num n => by simp [JV.beq]
  | .dec s => by simp [JV.beq]
  | .str s => by simp [JV.beq]
  | .arr xs => by simp [JV.beq, JV.beqList_refl xs]
  | .obj kvs => by simp [JV.beq, JKV.beqList_refl kvs]
theorem JV.beqList_refl : ∀ (l : List JV), JV.beqList l l = true
  | [] => rfl
  | x :: xs => by simp [JV.beqList, JV.beq_refl x, JV.beqList_refl xs]
theorem JKV.beqList_refl : ∀ (l : List JKV), JKV.beqList l l = true
  | [] => rfl
  | (.mk k v) :: xs => by simp [JKV.beqList, JV.beq_refl v, JKV.beqList_refl xs]
end

instance : ReflBEq JV := ⟨fun {a} => JV.beq_refl a⟩

mutual
theorem Value.beq_refl : ∀ (v : Value), Value.beq v v = true
  | .null => rfl
  | .bool b => by simp [Value.beq]
  | .int n => by simp [Value.beq]
  | .text s => by simp [Value.beq]
  | .ts t => by simp [Value.beq]
  | .json j => by simp [Value.beq]
  | .bytes b => by
    show (b.data == b.data) = true
    simp
  | .row _ vs => by simp [Value.beq, Value.beqList_refl vs]
  | .array vs => by simp [Value.beq, Value.beqList_refl vs]
theorem Value.beqList_refl : ∀ (l : List Value), Value.beqList l l = true
  | [] => rfl
  | x :: xs => by simp [Value.beqList, Value.beq_refl x, Value.beqList_refl xs]
end

instance : ReflBEq Value := ⟨fun {a} => Value.beq_refl a⟩

/-! ### comparisons and operators on typed values -/

theorem cmpStr_eq (x y : String) : (cmpStr x y == Ordering.eq) = (x == y) := by
  unfold cmpStr
  by_cases h : x < y
  · have : x ≠ y := by intro e; subst e; exact String.lt_irrefl _ h
    simp [h, this]
  · by_cases e : x = y <;> simp [h, e]

theorem compareForSort_text (x y : String) : compareForSort (.text x) (.text y) = .ok (cmpStr x y) := by
  simp [compareForSort, compareValues, compareScalar]
  rfl

theorem cmpInt_lt (x y : Int) : (cmpInt x y == Ordering.lt) = decide (x < y) := by
  unfold cmpInt
  by_cases h : x < y
  · simp [h]
  · by_cases e : x = y <;> simp [h, e]

theorem cmpInt_eq (x y : Int) : (cmpInt x y == Ordering.eq) = decide (x = y) := by
  unfold cmpInt
  by_cases h : x < y
  · have : x ≠ y := by omega
    simp [h, this]
  · by_cases e : x = y <;> simp [h, e]

theorem cmpInt_gt (x y : Int) : (cmpInt x y == Ordering.gt) = decide (y < x) := by
  unfold cmpInt
  by_cases h : x < y
  · have : ¬ y < x := by omega
    simp [h, this]
  · by_cases e : x = y
    · subst e; simp
    · have : y < x := by omega
      simp [h, e, this]

theorem cmpStr_eq' (x y : String) : (cmpStr x y == Ordering.eq) = decide (x = y) := by
  unfold cmpStr
  by_cases h : x < y
  · have : x ≠ y := by intro e; subst e; exact String.lt_irrefl _ h
    simp [h, this]
  · by_cases e : x = y <;> simp [h, e]

theorem evalBinop_eq_text (a b : String) : evalBinop .eq (.text a) (.text b) = .ok (.bool (decide (a = b))) := by
  simp [evalBinop, compareValues, compareScalar, ofTruth, cmpStr_eq']
  rfl
theorem evalBinop_eq_ts (a b : Int) : evalBinop .eq (.ts a) (.ts b) = .ok (.bool (decide (a = b))) := by
  simp [evalBinop, compareValues, compareScalar, ofTruth, cmpInt_eq]
  rfl
theorem evalBinop_lt_ts (a b : Int) : evalBinop .lt (.ts a) (.ts b) = .ok (.bool (decide (a < b))) := by
  simp [evalBinop, compareValues, compareScalar, ofTruth, cmpInt_lt]
  rfl
theorem evalBinop_gt_ts (a b : Int) : evalBinop .gt (.ts a) (.ts b) = .ok (.bool (decide (b < a))) := by
  simp [evalBinop, compareValues, compareScalar, ofTruth, cmpInt_gt]
  rfl
theorem evalBinop_lt_int (a b : Int) : evalBinop .lt (.int a) (.int b) = .ok (.bool (decide (a < b))) := by
  simp [evalBinop, compareValues, compareScalar, ofTruth, cmpInt_lt]
  rfl
theorem evalBinop_eq_int (a b : Int) : evalBinop .eq (.int a) (.int b) = .ok (.bool (decide (a = b))) := by
  simp [evalBinop, compareValues, compareScalar, ofTruth, cmpInt_eq]
  rfl
theorem truth_bool (b : Bool) : (Value.bool b).truth = .ok (some b) := rfl


theorem evalBinop_add_int (a b : Int) : evalBinop .add (.int a) (.int b) = .ok (.int (a + b)) := by
  simp [evalBinop, Value.isNull]
  rfl

theorem compareForSort_int (a b : Int) : compareForSort (.int a) (.int b) = .ok (cmpInt a b) := by
  simp [compareForSort, compareValues, compareScalar]; rfl

theorem cmpStr_ne' (a b : String) : (cmpStr a b != Ordering.eq) = (a != b) := by
  show (!(cmpStr a b == Ordering.eq)) = !(a == b)
  rw [cmpStr_eq']
  by_cases h : a = b <;> simp [h]

theorem compareForSort_text' (x y : String) : compareForSort (.text x) (.text y) = .ok (cmpStr x y) := by
  simp [compareForSort, compareValues, compareScalar]
  rfl

theorem evalBinop_ne_text (a b : String) : evalBinop .ne (.text a) (.text b) = .ok (.bool (a != b)) := by
  simp [evalBinop, compareValues, compareScalar, ofTruth, cmpStr_ne']
  rfl

theorem compareForSort_null_text (q : String) : compareForSort .null (.text q) = .ok Ordering.gt := rfl

theorem cmpInt_lt_iff (a b : Int) : cmpInt a b = Ordering.lt ↔ a < b := by
  unfold cmpInt
  by_cases h : a < b
  · simp [h]
  · by_cases e : a = b <;> simp [h, e]

end Ledger.Sql
