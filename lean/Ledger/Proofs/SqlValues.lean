import Ledger.Sql.Value

/-!
# Pure facts on LeanPG values: `==` is reflexive (needed where the evaluator compares row versions)
-/
namespace Ledger.Sql

mutual
theorem JV.beq_refl : ∀ (j : JV), JV.beq j j = true
  | .null => rfl
  | .bool b => by simp [JV.beq]
  | .num n => by simp [JV.beq]
  | .dec s => by simp [JV.beq]
  | .str s => by simp [JV.beq]
  | .arr xs => by simp [JV.beq, JV.beqList_refl xs]
  | .obj kvs => by simp [JV.beq, JKV.beqList_refl kvs]
theorem JV.beqList_refl : ∀ (l : List JV), JV.beqList l l = true
  | [] => rfl
  | x :: xs => by simp [JV.beqList, JV.beq_refl x, JV.beqList_refl xs]
theorem JKV.beqList_refl : ∀ (l : List JKV), JKV.beqList l l = true
  | [] => rfl
  | (.mk k v) :: xs => by simp [JKV.beqList, JV.beq_refl v, JKV.beqList_refl xs]
end

instance : ReflBEq JV := ⟨fun {a} => JV.beq_refl a⟩

mutual
theorem Value.beq_refl : ∀ (v : Value), Value.beq v v = true
  | .null => rfl
  | .bool b => by simp [Value.beq]
  | .int n => by simp [Value.beq]
  | .text s => by simp [Value.beq]
  | .ts t => by simp [Value.beq]
  | .json j => by simp [Value.beq]
  | .bytes b => by
    show (b.data == b.data) = true
    simp
  | .row _ vs => by simp [Value.beq, Value.beqList_refl vs]
  | .array vs => by simp [Value.beq, Value.beqList_refl vs]
theorem Value.beqList_refl : ∀ (l : List Value), Value.beqList l l = true
  | [] => rfl
  | x :: xs => by simp [Value.beqList, Value.beq_refl x, Value.beqList_refl xs]
end

instance : ReflBEq Value := ⟨fun {a} => Value.beq_refl a⟩

end Ledger.Sql
