import Ledger.Proofs.SqlAccountsCte

/-!
# `UpsertAccounts`: the CTE `updated_rows` (UPDATE accounts a … FROM data_batch d … RETURNING …)
-/
open Ledger Ledger.Sql Ledger.Generated Ledger.Core
open Ledger.Generated.WriteSql.P (AccountRow)
namespace Ledger.Sql

/-- does the batch row `d` update the account row `a` of ledger `l`? -/
def updCond (l : String) (a : AcR) (d : DbR) : Bool :=
  decide (a.address = d.address ∧ a.ledger = l) && (decide (d.fu < a.fu) || !jsonContains a.md d.md)

/-- the account row after the update by `d` -/
def updRow (a : AcR) (d : DbR) : AcR :=
  { a with md := jsonConcat a.md d.md, fu := leastOpt (some d.fu) a.fu, upd := d.upd }

/-- the meaning of the pieces of `updated_rows`, on ANY account row and ANY batch row (all dates given) -/
structure UpsertUpdSem (l : String) (eMd eFu eUp wher : Expr) : Prop where
  hwher : ∀ (cb : Callbacks) (te : TypeEnv) (env : Env) (a : AcR) (d : DbR) (src : Option (String × Nat)) (s : St),
    (evalExpr cb te (upEnv env a.vals d.vals src) wher >>= fun v => liftR v.truth).exec s = (.ok (some (updCond l a d)), s)
  hMd : ∀ (cb : Callbacks) (te : TypeEnv) (env : Env) (a : AcR) (d : DbR) (src : Option (String × Nat)) (s : St),
    (evalExpr cb te (upEnv env a.vals d.vals src) eMd).exec s = (.ok (.json (jsonConcat a.md d.md)), s)
  hFu : ∀ (cb : Callbacks) (te : TypeEnv) (env : Env) (a : AcR) (d : DbR) (src : Option (String × Nat)) (s : St),
    (evalExpr cb te (upEnv env a.vals d.vals src) eFu).exec s = (.ok (.ts (leastOpt (some d.fu) a.fu)), s)
  hUp : ∀ (cb : Callbacks) (te : TypeEnv) (env : Env) (a : AcR) (d : DbR) (src : Option (String × Nat)) (s : St),
    (evalExpr cb te (upEnv env a.vals d.vals src) eUp).exec s = (.ok (.ts d.upd), s)
  ndMd : eMd ≠ Expr.dflt
  ndFu : eFu ≠ Expr.dflt
  ndUp : eUp ≠ Expr.dflt

def updReturning : List SelItem :=
  [(SelItem.expr (Expr.col "a" "address") ""), (SelItem.expr (Expr.col "a" "metadata") ""), (SelItem.expr (Expr.col "a" "first_usage") ""),
   (SelItem.expr (Expr.col "a" "updated_at") ""), (SelItem.expr (Expr.col "a" "insertion_date") ""), (SelItem.expr (Expr.col "d" "batch_index") "")]

open Ledger.Generated.WriteSql in
/-- the shape of `UpsertAccounts` and the meaning of its UPDATE branch -/
theorem upsertAccounts_shape (b l : String) (id : Nat) :
    ∃ (c4 : Cte) (body : SetExpr) (eMd eFu eUp wher : Expr),
      (∀ rows, P.upsertAccounts b l id rows =
        [Stmt.query (Query.mk [Cte.mk "data_batch" dbCols (dataBatchStmt rows), Cte.mk "existing_accounts" [] (existingStmt b l),
            Cte.mk "updated_rows" [] (Stmt.update [] b "accounts" "a"
              [SetItem.mk "metadata" eMd, SetItem.mk "first_usage" eFu, SetItem.mk "updated_at" eUp]
              [FromItem.table "" "data_batch" "d"] (some wher) updReturning), c4] body [] none none LockMode.none)]) ∧
      UpsertUpdSem l eMd eFu eUp wher := by
  refine ⟨_, _, _, _, _, _, fun rows => rfl, ⟨?_, ?_, ?_, ?_, (by intro h; cases h), (by intro h; cases h), (by intro h; cases h)⟩⟩
  · intro cb te env a d src s
    have a1 := lookup_a env a.vals d.vals src "address" (.text a.address) rfl
    have a2 := lookup_a env a.vals d.vals src "first_usage" (.ts a.fu) rfl
    have a3 := lookup_a env a.vals d.vals src "metadata" (.json a.md) rfl
    have a4 := lookup_unq_a env a.vals d.vals src "ledger" (.text a.ledger) rfl
    have d1 := lookup_d env a.vals d.vals src "address" (.text d.address) rfl
    have d2 := lookup_d env a.vals d.vals src "first_usage" (.ts d.fu) rfl
    have d3 := lookup_d env a.vals d.vals src "metadata" (.json d.md) rfl
    have hc : evalBinop .contains (.json a.md) (.json d.md) = .ok (.bool (jsonContains a.md d.md)) := by
      simp [evalBinop, jsonOfValue]; rfl
    simp only [evalExpr, exec_bind, a1, a2, a3, a4, d1, d2, d3, exec_liftR_ok, evalBinop_eq_text, truth_bool, hc, updCond]
    by_cases h1 : a.address = d.address <;> by_cases h2 : a.ledger = l <;> cases hc' : jsonContains a.md d.md <;>
      by_cases h3 : d.fu < a.fu <;>
      simp [h1, h2, h3, hc, hc', ofTruth, and3, or3, not3, truth_bool, exec_bind, evalBinop_eq_text, evalBinop_lt_ts]
  · intro cb te env a d src s
    have a1 := lookup_a env a.vals d.vals src "metadata" (.json a.md) rfl
    have d1 := lookup_d env a.vals d.vals src "metadata" (.json d.md) rfl
    simp only [evalExpr, exec_bind, a1, d1, exec_liftR_ok]
    simp [evalBinop, Value.isNull]
  · intro cb te env a d src s
    have a1 := lookup_a env a.vals d.vals src "first_usage" (.ts a.fu) rfl
    have d1 := lookup_d env a.vals d.vals src "first_usage" (.ts d.fu) rfl
    rw [evalExpr_call _ _ _ _ _ _ (by decide)]
    simp only [evalExpr, evalExprs, exec_bind, a1, d1, exec_liftR_ok, exec_pure]
    simp [evalPureFn, Value.isNull, leastOpt, compareForSort, compareValues, compareScalar, cmpInt_lt_iff]
    repeat' split
    all_goals first | rfl | omega | (have e : d.fu = a.fu := (by omega); rw [e]; try rfl)
  · intro cb te env a d src s
    have d1 := lookup_d env a.vals d.vals src "updated_at" (.ts d.upd) rfl
    have hco : ((("" : String).isEmpty || "" == "pg_catalog") && "coalesce" == "coalesce") = true := by decide
    simp only [evalExpr, evalCoalesce, hco, if_true, exec_bind, d1, exec_liftR_ok, Value.isNull, Bool.false_eq_true, if_false, exec_pure]

end Ledger.Sql

namespace Ledger.Sql

/-- `firstJoinMatch` over join rows indexed by `ds`: the first row on which WHERE holds -/
theorem exec_firstJoinMatch_find {δ : Type} (n : Nat) (env : Env) (wher : Option Expr) (tsc : Scope) (G : δ → List Scope) (c : δ → Bool) (s : St) :
    ∀ (ds : List δ), (∀ d ∈ ds, (whereHolds n env wher ([tsc] ++ G d)).exec s = (.ok (c d), s)) →
    (firstJoinMatch (n + 1) env wher tsc (ds.map G)).exec s = (.ok ((ds.find? c).map G), s) := by
  intro ds h
  rw [firstJoinMatch]
  have : ∀ (ds : List δ) (hit : Option (List Scope)), (∀ d ∈ ds, (whereHolds n env wher ([tsc] ++ G d)).exec s = (.ok (c d), s)) →
      ((ds.map G).foldlM (fun (hit : Option (List Scope)) F =>
        if hit.isSome then pure hit
        else do
          if ← whereHolds n env wher ([tsc] ++ F) then pure (some F) else pure none) hit).exec s =
      (.ok (match hit with | some x => some x | none => (ds.find? c).map G), s) := by
    intro ds
    induction ds with
    | nil => intro hit _; cases hit <;> simp
    | cons d rest ih =>
      intro hit hd
      cases hit with
      | some x =>
        simp only [List.map_cons, exec_foldlM_cons, Option.isSome_some, if_true, exec_pure]
        exact ih (some x) (fun y hy => hd y (by simp [hy]))
      | none =>
        simp only [List.map_cons, exec_foldlM_cons, Option.isSome_none, Bool.false_eq_true, if_false, exec_bind, hd d (by simp)]
        cases hc : c d with
        | true =>
          simp only [if_true, exec_pure]
          rw [ih (some (G d)) (fun y hy => hd y (by simp [hy]))]
          simp [List.find?_cons, hc]
        | false =>
          simp only [Bool.false_eq_true, if_false, exec_pure]
          rw [ih none (fun y hy => hd y (by simp [hy]))]
          simp [List.find?_cons, hc]
  exact this ds none h

/-- the batch row that updates an account row (raw values) -/
def acMatch (l : String) (ds : List DbR) (vals : List Value) : Option (List Scope) :=
  match acDec vals with
  | some a => (ds.find? (updCond l a)).map (fun d => [cteScope "d" dbCols d.vals])
  | none => none

def acMatchD (l : String) (ds : List DbR) (vals : List Value) : Option DbR :=
  match acDec vals with
  | some a => ds.find? (updCond l a)
  | none => none

def acUpdF (l : String) (ds : List DbR) (vals : List Value) : List Value :=
  match acDec vals, acMatchD l ds vals with
  | some a, some d => (updRow a d).vals
  | _, _ => vals

theorem acMatch_vals (l : String) (ds : List DbR) (a : AcR) :
    acMatch l ds a.vals = (ds.find? (updCond l a)).map (fun d => [cteScope "d" dbCols d.vals]) := by
  simp [acMatch, acDec_vals]

theorem acUpdF_vals (l : String) (ds : List DbR) (a : AcR) (d : DbR) (h : ds.find? (updCond l a) = some d) :
    acUpdF l ds a.vals = (updRow a d).vals := by
  simp [acUpdF, acMatchD, acDec_vals, h]

end Ledger.Sql

namespace Ledger.Sql

def acIdx : UniqueIdx := { name := "accounts_ledger", cols := ["ledger", "address"], pred := none, primary := true }

theorem acT_uniques (b : String) (trigs : List TriggerDef) (nr : Nat) (rows : List Ver) :
    ((acT b trigs nr).withRows rows).uniques = [acIdx] := rfl

theorem sameGroupKey_text_text (a b a' b' : String) :
    sameGroupKey [.text a, .text b] [.text a', .text b'] = .ok (decide (a = a') && decide (b = b')) := by
  simp only [sameGroupKey, compareForSort_text', bind, Except.bind, cmpStr_eq']
  by_cases h1 : a = a' <;> by_cases h2 : b = b' <;> simp [h1, h2] <;> rfl

/-- the key of an account row -/
def acKeyOf (vals : List Value) : String × String :=
  match acDec vals with
  | some a => (a.ledger, a.address)
  | none => ("", "")

@[simp] theorem acKeyOf_vals (a : AcR) : acKeyOf a.vals = (a.ledger, a.address) := by simp [acKeyOf, acDec_vals]

theorem exec_keyMatches_ac (b : String) (trigs : List TriggerDef) (nr : Nat) (rows : List Ver) (x a' : AcR) (r : Ver) (hr : r.vals = a'.vals) (s : St) :
    (keyMatches ((acT b trigs nr).withRows rows) acIdx [.text x.ledger, .text x.address] r).exec s =
      (.ok (decide (a'.ledger = x.ledger) && decide (a'.address = x.address)), s) := by
  have hk : keyOf ((acT b trigs nr).withRows rows) acIdx.cols r.vals = [.text a'.ledger, .text a'.address] := by rw [hr]; rfl
  simp only [keyMatches, hk, exec_bind, sameGroupKey_text_text, exec_liftR_ok]
  cases (decide (a'.ledger = x.ledger) && decide (a'.address = x.address)) <;> simp [predHolds, acIdx]

/-- no primary-key violation when no other visible row has the key -/
theorem exec_findConflict_ac (b : String) (trigs : List TriggerDef) (nr : Nat) (rows : List Ver) (x : AcR) (ex : Option Nat) (s : St)
    (hsolo : ∀ y ∈ s.w.active, y = s.xid) (htyped : AcTyped rows)
    (hno : ∀ q ∈ rows, q.visible (latestView s.w s.xid) = true → (some q.rid == ex) = false → acKeyOf q.vals ≠ (x.ledger, x.address)) :
    (findConflict ((acT b trigs nr).withRows rows) [acIdx] x.vals ex).exec s = (.ok none, s) := by
  have hk : keyOf ((acT b trigs nr).withRows rows) acIdx.cols x.vals = [.text x.ledger, .text x.address] := rfl
  have hs1 : (scanConflict ((acT b trigs nr).withRows rows) acIdx [.text x.ledger, .text x.address] ex (latestView s.w s.xid) s.xid s.w.active rows).exec s =
      (.ok none, s) := by
    rw [exec_scanConflict_gen _ acIdx _ ex _ s.xid s.w.active hsolo s (fun _ => false) rows (by
        intro r hr hv he
        obtain ⟨a', hvv⟩ := htyped r hr
        rw [exec_keyMatches_ac b trigs nr rows x a' r hvv s]
        have := hno r hr hv he
        rw [hvv, acKeyOf_vals] at this
        by_cases h1 : a'.ledger = x.ledger <;> by_cases h2 : a'.address = x.address <;> simp [h1, h2]
        exact this (by rw [h1, h2]))]
    simp
  have hp1 : (predHolds ((acT b trigs nr).withRows rows) acIdx.pred x.vals).exec s = (.ok true, s) := by
    simp [predHolds, acIdx]
  have hrows : ((acT b trigs nr).withRows rows).rows = rows := rfl
  rw [findConflict]
  simp only [exec_bind, hp1, Bool.not_true, Bool.false_eq_true, if_false, hk, List.any, Value.isNull, Bool.or_false,
    exec_get, hrows, hs1]
  simp [findConflict]

/-- the storage invariant of `accounts` as the transaction sees it -/
structure AcInv (lv : View) (nr : Nat) (rows : List Ver) : Prop where
  typed : AcTyped rows
  ridLt : ∀ r ∈ rows, r.rid < nr
  ridNodup : ((rows.filter (fun r => r.visible lv)).map (·.rid)).Nodup
  keyNodup : ((rows.filter (fun r => r.visible lv)).map (fun r => acKeyOf r.vals)).Nodup

theorem exec_checkConstraints_ac (b : String) (trigs : List TriggerDef) (nr : Nat) (rows : List Ver) (a : AcR) (s : St) :
    (checkConstraints ((acT b trigs nr).withRows rows) a.vals).exec s = (.ok (), s) := by
  simp [checkConstraints, acT, Table.withRows, Schema.tbl_accounts, notNullViolation, Value.isNull, checkChecks, AcR.vals, acVals]

theorem exec_checkForeignKeys_ac (b : String) (trigs : List TriggerDef) (nr : Nat) (rows : List Ver) (vals : List Value) (s : St) :
    (checkForeignKeys ((acT b trigs nr).withRows rows) vals).exec s = (.ok (), s) := by
  simp [checkForeignKeys, acT, Table.withRows, Schema.tbl_accounts, checkForeignKeysOf]

end Ledger.Sql

namespace Ledger.Sql

theorem acUpdF_key (l : String) (ds : List DbR) (a : AcR) : acKeyOf (acUpdF l ds a.vals) = (a.ledger, a.address) := by
  unfold acUpdF acMatchD
  simp only [acDec_vals]
  cases ds.find? (updCond l a) with
  | none => simp
  | some d => simp [updRow]

theorem acUpdF_typed (l : String) (ds : List DbR) (a : AcR) : ∃ a' : AcR, acUpdF l ds a.vals = a'.vals := by
  unfold acUpdF acMatchD
  simp only [acDec_vals]
  cases ds.find? (updCond l a) with
  | none => exact ⟨a, rfl⟩
  | some d => exact ⟨updRow a d, rfl⟩

theorem acUpdInv (b : String) (trigs : List TriggerDef) (nr : Nat) (w : World) (xid cid : Nat) (hx : xid ≠ 0) (hc : cid < 1000000000)
    (l : String) (ds : List DbR) :
    UpdInv (acT b trigs nr) (fun v => (acMatch l ds v).isSome) (acUpdF l ds) (latestView w xid) xid cid (fun r => ∃ a : AcR, r.vals = a.vals)
      (AcInv (latestView w xid) nr) where
  step := by
    intro rows r hinv hr hv ⟨a, hvals⟩ hg
    have hfil := filter_vis_updStep w xid cid hx hc (fun v => (acMatch l ds v).isSome) (acUpdF l ds) rows r hg
    have hff : rows.filter (fun q => q.visible (latestView w xid) && (q.rid != r.rid)) =
        (rows.filter (fun q => q.visible (latestView w xid))).filter (fun q => q.rid != r.rid) := by
      rw [List.filter_filter]
      apply List.filter_congr
      intro q _
      exact Bool.and_comm _ _
    rw [hff] at hfil
    have hrl : r ∈ rows.filter (fun q => q.visible (latestView w xid)) := List.mem_filter.mpr ⟨hr, hv⟩
    refine ⟨?_, ?_, ?_, ?_⟩
    · intro q hq
      unfold updStep at hq
      rw [if_pos hg] at hq
      simp only [List.mem_cons, List.mem_map] at hq
      rcases hq with rfl | ⟨q0, hq0, rfl⟩
      · obtain ⟨a', ha'⟩ := acUpdF_typed l ds a
        exact ⟨a', by simp [newVer, hvals, ha']⟩
      · simpa using hinv.typed q0 hq0
    · intro q hq
      unfold updStep at hq
      rw [if_pos hg] at hq
      simp only [List.mem_cons, List.mem_map] at hq
      rcases hq with rfl | ⟨q0, hq0, rfl⟩
      · simpa [newVer] using hinv.ridLt r hr
      · simpa using hinv.ridLt q0 hq0
    · rw [hfil]
      simp only [List.map_cons, List.nodup_cons]
      refine ⟨?_, (List.filter_sublist.map _).nodup hinv.ridNodup⟩
      intro hmem
      obtain ⟨q, hq, he⟩ := List.mem_map.mp hmem
      have := (List.mem_filter.mp hq).2
      simp only [bne_iff_ne, ne_eq] at this
      exact this he
    · rw [hfil]
      simp only [List.map_cons, List.nodup_cons]
      refine ⟨?_, (List.filter_sublist.map _).nodup hinv.keyNodup⟩
      intro hmem
      obtain ⟨q, hq, he⟩ := List.mem_map.mp hmem
      have hqm := List.mem_filter.mp hq
      have hne := hqm.2
      simp only [bne_iff_ne, ne_eq] at hne
      have hsr : acKeyOf (newVer xid cid r.rid (acUpdF l ds r.vals)).vals = acKeyOf r.vals := by
        simp [newVer, hvals, acUpdF_key]
      rw [hsr] at he
      have := nodup_map_inj (fun x : Ver => acKeyOf x.vals) _ hinv.keyNodup q hqm.1 r hrl he
      exact hne (by rw [this])
  noConflict := by
    intro rows r hinv hr hv ⟨a, hvals⟩ hg s hs hlv hxid
    obtain ⟨a', ha'⟩ := acUpdF_typed l ds a
    have hk := acUpdF_key l ds a
    rw [ha', acKeyOf_vals] at hk
    rw [hvals, ha']
    apply exec_findConflict_ac b trigs nr rows a' (some r.rid) s hs.solo hinv.typed
    intro q hq hvq hex
    rw [hlv] at hvq
    have hne : q.rid ≠ r.rid := by
      intro e; rw [e] at hex; simp at hex
    intro he
    have hrl : r ∈ rows.filter (fun q => q.visible (latestView w xid)) := List.mem_filter.mpr ⟨hr, hv⟩
    have hql : q ∈ rows.filter (fun q => q.visible (latestView w xid)) := List.mem_filter.mpr ⟨hq, hvq⟩
    have : acKeyOf q.vals = acKeyOf r.vals := by rw [he, hvals, acKeyOf_vals, hk]
    have := nodup_map_inj (fun x : Ver => acKeyOf x.vals) _ hinv.keyNodup q hql r hrl this
    exact hne (by rw [this])

end Ledger.Sql

namespace Ledger.Sql

def updRetCols : List String := ["address", "metadata", "first_usage", "updated_at", "insertion_date", "batch_index"]

/-- the RETURNING row of an updated account -/
def updRetRow (a : AcR) (d : DbR) : List Value :=
  [.text a.address, .json (updRow a d).md, .ts (updRow a d).fu, .ts d.upd, .ts a.ins, .json d.bi]

def acAccStep (l : String) (ds : List DbR) (acc : DmlAcc) (r : Ver) : DmlAcc :=
  match acDec r.vals, acMatchD l ds r.vals with
  | some a, some d => { retCols := updRetCols, retRows := acc.retRows ++ [updRetRow a d], affected := acc.affected + 1 }
  | _, _ => acc

theorem castTo_jsonb_json' (te : TypeEnv) (j : JV) : castTo te tyJsonb (.json j) = .ok (.json j) := by
  simp [castTo, tyJsonb, castNonArray, castScalar, isIntType]
  rfl

theorem castTo_ts_ts' (te : TypeEnv) (d : Int) : castTo te tyTimestamp (.ts d) = .ok (.ts d) := by
  simp [castTo, tyTimestamp, castNonArray, castScalar, isIntType]
  rfl

theorem exec_whereHolds_of (n : Nat) (env : Env) (wher : Expr) (scopes : List Scope) (s : St) (c : Bool)
    (h : (evalExpr (cbs n) s.w.types { env with locals := scopes } wher >>= fun v => liftR v.truth).exec s = (.ok (some c), s)) :
    (whereHolds (n + 1) env (some wher) scopes).exec s = (.ok c, s) := by
  rw [whereHolds]
  have e : (do
      let te ← typeEnv
      let v ← evalExpr (cbs n) te { env with locals := scopes } wher
      pure ((← liftR v.truth) == some true) : M Bool) =
      (do
        let te ← typeEnv
        let t ← (evalExpr (cbs n) te { env with locals := scopes } wher >>= fun v => liftR v.truth)
        pure (t == some true)) := by
    simp only [bind_assoc]
  rw [e]
  simp only [exec_bind, exec_typeEnv, h, exec_pure]
  cases c <;> rfl

theorem acUpdSem (env : Env) (b l : String) (trigs : List TriggerDef) (nr : Nat) (ds : List DbR) (eMd eFu eUp wher : Expr)
    (hsem : UpsertUpdSem l eMd eFu eUp wher)
    (hnb : trigs.filter (fun tr => tr.timing == .before && tr.event == .update) = [])
    (QU : Ver → List PendingTrig)
    (hqaU : ∀ (r : Ver) (a : AcR), r.vals = a.vals → (acMatch l ds r.vals).isSome = true → ∀ (m : Nat) (rows : List Ver) (s : St),
      (queueAfter (m + 3) ((acT b trigs nr).withRows rows) .update ["metadata", "first_usage", "updated_at"]
        (some (acUpdF l ds r.vals)) (some r.vals)).exec s = (.ok (), s.addQ (QU r))) :
    UpdSemJ env (acT b trigs nr) "a" "a" [SetItem.mk "metadata" eMd, SetItem.mk "first_usage" eFu, SetItem.mk "updated_at" eUp] (some wher)
      updReturning (ds.map (fun d => [cteScope "d" dbCols d.vals])) (acMatch l ds) (acUpdF l ds) (acAccStep l ds) QU
      (fun r => ∃ a : AcR, r.vals = a.vals) where
  hmatch := by
    intro r ⟨a, hv⟩ m s _
    have := exec_firstJoinMatch_find (m + 2) env (some wher) (rowScopeOf (acT b trigs nr) "a" r) (fun d : DbR => [cteScope "d" dbCols d.vals])
      (updCond l a) s ds (by
        intro d _
        apply exec_whereHolds_of
        have := hsem.hwher (cbs (m + 1)) s.w.types env a d (some ((acT b trigs nr).name, r.rid)) s
        simp only [upEnv] at this
        simp only [rowScopeOf, hv, acT_colNames, cteScope, List.cons_append, List.nil_append]
        exact this)
    rw [this, hv, acMatch_vals]
  hwhere := by
    intro r ⟨a, hv⟩ F hF m s _
    rw [hv, acMatch_vals] at hF
    cases hfd : ds.find? (updCond l a) with
    | none => rw [hfd] at hF; cases hF
    | some d =>
      rw [hfd] at hF
      simp only [Option.map_some, Option.some.injEq] at hF
      subst hF
      have hc := List.find?_some hfd
      have := exec_whereHolds_of (m + 1) env wher ([rowScopeOf (acT b trigs nr) "a" r] ++ [cteScope "d" dbCols d.vals]) s (updCond l a d) (by
        have := hsem.hwher (cbs (m + 1)) s.w.types env a d (some ((acT b trigs nr).name, r.rid)) s
        simp only [upEnv] at this
        simp only [rowScopeOf, hv, acT_colNames, cteScope, List.cons_append, List.nil_append]
        exact this)
      rw [hc] at this
      exact this
  hsets := by
    intro r ⟨a, hv⟩ F hF m rows s _
    rw [hv, acMatch_vals] at hF
    cases hfd : ds.find? (updCond l a) with
    | none => rw [hfd] at hF; cases hF
    | some d =>
      rw [hfd] at hF
      simp only [Option.map_some, Option.some.injEq] at hF
      subst hF
      rw [applySets]
      have h1 := hsem.hMd (cbs (m + 2)) s.w.types env a d (some ((acT b trigs nr).name, r.rid)) s
      have h2 := hsem.hFu (cbs (m + 2)) s.w.types env a d (some ((acT b trigs nr).name, r.rid)) s
      have h3 := hsem.hUp (cbs (m + 2)) s.w.types env a d (some ((acT b trigs nr).name, r.rid)) s
      simp only [upEnv] at h1 h2 h3
      have n1 := hsem.ndMd
      have n2 := hsem.ndFu
      have n3 := hsem.ndUp
      have f1 : ((acT b trigs nr).withRows rows).cols.find? (fun c => c.name == "metadata") =
          some { name := "metadata", ty := tyJsonb, notNull := true, dflt := some (Expr.cast (Expr.str "{}") tyJsonb) } := rfl
      have f2 : ((acT b trigs nr).withRows rows).cols.find? (fun c => c.name == "first_usage") =
          some { name := "first_usage", ty := tyTimestamp, notNull := false, dflt := some (Expr.call "" "transaction_date" []) } := rfl
      have f3 : ((acT b trigs nr).withRows rows).cols.find? (fun c => c.name == "updated_at") =
          some { name := "updated_at", ty := tyTimestamp, notNull := true, dflt := some (Expr.call "" "transaction_date" []) } := rfl
      rw [hv, acUpdF_vals l ds a d hfd]
      simp only [rowScopeOf, hv, acT_colNames, cteScope, List.cons_append, List.nil_append, exec_bind, exec_typeEnv, exec_foldlM_cons,
        List.foldlM_nil, f1, f2, f3]
      simp only [exec_bind, h1, h2, h3, castTo_jsonb_json', castTo_ts_ts', exec_liftR_ok, exec_pure]
      rfl
  hchecks := by
    intro r ⟨a, hv⟩ _ rows s _
    obtain ⟨a', ha'⟩ := acUpdF_typed l ds a
    rw [hv, ha']
    exact exec_checkConstraints_ac b trigs nr rows a' s
  hfks := by
    intro r _ _ rows s _
    exact exec_checkForeignKeys_ac b trigs nr rows _ s
  hbefore := hnb
  hafter := by
    intro r ⟨a, hv⟩ hm k rows s _
    exact hqaU r a hv hm k rows s
  hacc := by
    intro r ⟨a, hv⟩ F hF m rows s acc _
    rw [hv, acMatch_vals] at hF
    cases hfd : ds.find? (updCond l a) with
    | none => rw [hfd] at hF; cases hF
    | some d =>
      rw [hfd] at hF
      simp only [Option.map_some, Option.some.injEq] at hF
      subst hF
      rw [hv, acUpdF_vals l ds a d hfd]
      have q1 := lookup_a env (updRow a d).vals d.vals none "address" (.text a.address) rfl
      have q2 := lookup_a env (updRow a d).vals d.vals none "metadata" (.json (updRow a d).md) rfl
      have q3 := lookup_a env (updRow a d).vals d.vals none "first_usage" (.ts (updRow a d).fu) rfl
      have q4 := lookup_a env (updRow a d).vals d.vals none "updated_at" (.ts d.upd) rfl
      have q5 := lookup_a env (updRow a d).vals d.vals none "insertion_date" (.ts a.ins) rfl
      have q6 := lookup_d env (updRow a d).vals d.vals none "batch_index" (.json d.bi) rfl
      simp only [upEnv] at q1 q2 q3 q4 q5 q6
      rw [accReturning]
      simp only [updReturning, List.isEmpty_cons, Bool.false_eq_true, if_false, exec_bind]
      rw [evalReturning]
      simp only [exec_bind, exec_typeEnv, show ("a" : String).isEmpty = false from by decide, Bool.false_eq_true, if_false, exec_foldlM_cons,
        List.foldlM_nil, evalExpr, acT_colNames, withRows_colNames, cteScope, List.cons_append, List.nil_append, q1, q2, q3, q4, q5, q6,
        exec_liftR_ok, exec_pure, exprOutName]
      simp [acAccStep, hv, acDec_vals, acMatchD, hfd, updRetCols, updRetRow]

end Ledger.Sql

namespace Ledger.Sql

/-- FROM a CTE -/
theorem exec_evalPrimary_cte (n : Nat) (env : Env) (ctx : List Scope) (cte alias : String) (rel : Rel) (s : St)
    (hcte : env.ctes.lookup cte = some rel) :
    (evalPrimary (n + 1) env ctx (FromItem.table "" cte alias)).exec s =
      (.ok (if alias.isEmpty then cte else alias, rel.cols, rel.rows.map (cteScope (if alias.isEmpty then cte else alias) rel.cols)), s) := by
  rw [evalPrimary]
  · simp only [show ("" : String).isEmpty = true from by decide, if_true, hcte, exec_pure]
    rfl
  all_goals (intros; rename_i h; cases h)

theorem exec_evalFromList_cte (n : Nat) (env : Env) (cte alias : String) (rel : Rel) (s : St) (hcte : env.ctes.lookup cte = some rel) :
    (evalFromList (n + 3) env [FromItem.table "" cte alias] [[]]).exec s =
      (.ok (rel.rows.map (fun v => [cteScope (if alias.isEmpty then cte else alias) rel.cols v])), s) := by
  rw [evalFromList]
  simp only [FromItem.isLateral, Bool.false_eq_true, if_false, exec_bind]
  rw [evalFrom]
  · simp only [exec_bind, exec_evalPrimary_cte n env [] cte alias rel s hcte, exec_pure]
    rw [evalFromList]
    · simp [List.map_map, Function.comp]
    · intro h; omega
  · intro kind l r on h; cases h

theorem exec_protoScopes_cte (n : Nat) (env : Env) (cte alias : String) (rel : Rel) (s : St) (hcte : env.ctes.lookup cte = some rel) :
    (protoScopes (n + 3) env [FromItem.table "" cte alias]).exec s =
      (.ok [nullScope (if alias.isEmpty then cte else alias) rel.cols], s) := by
  rw [protoScopes]
  · simp only [exec_bind]
    rw [protoItem]
    · simp only [FromItem.isLateral, Bool.false_eq_true, if_false, exec_bind, exec_evalPrimary_cte n env [] cte alias rel s hcte, exec_pure]
      rw [protoScopes]
      · simp
      · intro h; omega
    all_goals (intros; rename_i h; cases h)
  all_goals (intro h; omega)

end Ledger.Sql

namespace Ledger.Sql

/-- the hypotheses on `accounts` in the state in which `UpsertAccounts` runs -/
structure AcTblState (s : St) (b : String) (trigs : List TriggerDef) (nr : Nat) (rows : List Ver) : Prop where
  tx : TxState s
  bne : b.isEmpty = false
  table : s.w.table? (acFull b) = some ((acT b trigs nr).withRows rows)
  fresh : Fresh s.xid s.cid rows
  inv : AcInv (latestView s.w s.xid) nr rows
  noUpdB : trigs.filter (fun tr => tr.timing == .before && tr.event == .update) = []

theorem updAcc_ac_retCols (l : String) (ds : List DbR) (g : List Value → Bool) : ∀ (ts : List Ver) (acc : DmlAcc),
    (acc.retCols = [] ∨ acc.retCols = updRetCols) →
    ((updAcc g (acAccStep l ds) acc ts).retCols = [] ∨ (updAcc g (acAccStep l ds) acc ts).retCols = updRetCols) := by
  intro ts
  induction ts with
  | nil => intro acc h; exact h
  | cons r rest ih =>
    intro acc h
    simp only [updAcc, List.foldl_cons]
    apply ih
    split
    · unfold acAccStep
      split
      · right; rfl
      · exact h
    · exact h

/-- the rows of `accounts` after the UPDATE of `updated_rows` -/
def acUpdRows (lv : View) (xid cid : Nat) (l : String) (ds : List DbR) (rows : List Ver) : List Ver :=
  updRun lv xid cid (fun v => (acMatch l ds v).isSome) (acUpdF l ds) rows (rows.filter (fun r => r.visible lv)).reverse

/-- what `updated_rows` returns -/
def acUpdAcc (lv : View) (l : String) (ds : List DbR) (rows : List Ver) : DmlAcc :=
  updAcc (fun v => (acMatch l ds v).isSome) (acAccStep l ds) {} (rows.filter (fun r => r.visible lv)).reverse

theorem exec_protoRet_upd (m : Nat) (env : Env) (b : String) (trigs : List TriggerDef) (nr : Nat) (rows : List Ver) (s : St) :
    (evalReturning (m + 1) env ((acT b trigs nr).withRows rows) "a" ((acT b trigs nr).cols.map (fun _ => Value.null))
      [nullScope "d" dbCols] (protoReturning updReturning)).exec s =
      (.ok (updRetCols, [.null, .null, .null, .null, .null, .null]), s) := by
  have q : ∀ c, lookupIn acCols [Value.null, .null, .null, .null, .null, .null, .null] c = some .null →
      lookupColumn { env with locals := [({ alias := "a", cols := acCols, vals := [Value.null, .null, .null, .null, .null, .null, .null] } : Scope),
        nullScope "d" dbCols] } "a" c = .ok .null := by
    intro c h
    simp [lookupColumn, Env.scopes, findScope, lastComponent_a, h]
    rfl
  have q1 := q "address" rfl
  have q2 := q "metadata" rfl
  have q3 := q "first_usage" rfl
  have q4 := q "updated_at" rfl
  have q5 := q "insertion_date" rfl
  have q6 : lookupColumn { env with locals := [({ alias := "a", cols := acCols, vals := [Value.null, .null, .null, .null, .null, .null, .null] } : Scope),
      nullScope "d" dbCols] } "d" "batch_index" = .ok .null := by
    have e : ("a" == "d") = false := by decide
    simp [lookupColumn, Env.scopes, findScope, lastComponent_d, e, nullScope, dbCols, lookupIn]
    rfl
  rw [evalReturning]
  simp only [protoReturning, updReturning, List.map_cons, List.map_nil, show ("" : String).isEmpty = true from by decide, if_true,
    show ("a" : String).isEmpty = false from by decide, Bool.false_eq_true, if_false, exec_bind, exec_typeEnv, exec_foldlM_cons, List.foldlM_nil,
    evalExpr, acT_colNames, withRows_colNames, List.cons_append, List.nil_append, exec_liftR_ok, exec_pure, exprOutName]
  have hc : (acT b trigs nr).cols.map (fun _ => Value.null) = [Value.null, .null, .null, .null, .null, .null, .null] := rfl
  simp only [hc, q1, q2, q3, q4, q5, q6, exec_liftR_ok, exec_bind, exec_pure, List.nil_append, List.cons_append]
  rfl

theorem exec_updatedRows (n : Nat) (env : Env) (b l : String) (trigs : List TriggerDef) (nr : Nat) (rows : List Ver) (ds : List DbR)
    (eMd eFu eUp wher : Expr) (hsem : UpsertUpdSem l eMd eFu eUp wher) (s : St) (hst : AcTblState s b trigs nr rows)
    (QU : Ver → List PendingTrig)
    (hqaU : ∀ (r : Ver) (a : AcR), r.vals = a.vals → (acMatch l ds r.vals).isSome = true → ∀ (m : Nat) (rows : List Ver) (s : St),
      (queueAfter (m + 3) ((acT b trigs nr).withRows rows) .update ["metadata", "first_usage", "updated_at"]
        (some (acUpdF l ds r.vals)) (some r.vals)).exec s = (.ok (), s.addQ (QU r)))
    (hcte : env.ctes.lookup "data_batch" = some (dbRel ds)) :
    (execStmt (n + 7) env (Stmt.update [] b "accounts" "a"
        [SetItem.mk "metadata" eMd, SetItem.mk "first_usage" eFu, SetItem.mk "updated_at" eUp]
        [FromItem.table "" "data_batch" "d"] (some wher) updReturning)).exec s =
      (.ok { rel := { cols := updRetCols, rows := (acUpdAcc (latestView s.w s.xid) l ds rows).retRows },
             affected := (acUpdAcc (latestView s.w s.xid) l ds rows).affected },
       (s.withTable ((acT b trigs nr).withRows (acUpdRows (latestView s.w s.xid) s.xid s.cid l ds rows))).addQ
         (updQ (fun v => (acMatch l ds v).isSome) QU ((rows.filter (fun r => r.visible (latestView s.w s.xid))).reverse))) := by
  have hq : (qualify b "accounts").exec s = (.ok (acFull b), s) := by simp [qualify, hst.bne, acFull]
  have hfrom := exec_evalFromList_cte (n + 1) env "data_batch" "d" (dbRel ds) s hcte
  have hJ : (dbRel ds).rows.map (fun v => [cteScope (if ("d" : String).isEmpty then "data_batch" else "d") (dbRel ds).cols v]) =
      ds.map (fun d => [cteScope "d" dbCols d.vals]) := by
    simp [dbRel, List.map_map, Function.comp]
  rw [hJ] at hfrom
  have hI := acUpdInv b trigs nr s.w s.xid s.cid hst.tx.xid hst.tx.cid l ds
  have hupd := exec_execUpdate_J (n + 1) env b "accounts" (acFull b) "a" "a" _ [FromItem.table "" "data_batch" "d"] _ _ (acT b trigs nr) _ _ _ _ _ _
    (fun _ => True) (fun _ _ h => h) (fun _ _ h => h) (acUpdSem env b l trigs nr ds eMd eFu eUp wher hsem hst.noUpdB QU hqaU)
    s hst.tx trivial rows hst.table rfl hq rfl hfrom hst.fresh hst.inv.ridNodup
    (fun r hr _ => hst.inv.typed r hr) (AcInv (latestView s.w s.xid) nr) hI hst.inv updRetCols
    (by
      intro _ s'
      have hp := exec_protoScopes_cte (n + 2) env "data_batch" "d" (dbRel ds) s' hcte
      refine ⟨[.null, .null, .null, .null, .null, .null], ?_⟩
      simp only [exec_bind, hp, show ("d" : String).isEmpty = false from by decide, Bool.false_eq_true, if_false, dbRel]
      exact exec_protoRet_upd (n + 4) env b trigs nr _ s')
  have hcols : (if ((acUpdAcc (latestView s.w s.xid) l ds rows).retCols.isEmpty && !updReturning.isEmpty) = true then updRetCols
      else (acUpdAcc (latestView s.w s.xid) l ds rows).retCols) = updRetCols := by
    rcases updAcc_ac_retCols l ds (fun v => (acMatch l ds v).isSome) ((rows.filter (fun r => r.visible (latestView s.w s.xid))).reverse) {}
      (Or.inl rfl) with h | h
    · have : (acUpdAcc (latestView s.w s.xid) l ds rows).retCols = [] := h
      rw [this]; rfl
    · have : (acUpdAcc (latestView s.w s.xid) l ds rows).retCols = updRetCols := h
      rw [this]; rfl
  rw [execStmt, evalCtes]
  · simp only [exec_bind, exec_pure, hupd]
    simp only [acUpdAcc, acUpdRows] at hcols ⊢
    congr 3
    exact congrArg (fun c => ({ cols := c, rows := _ } : Rel)) hcols
  · intro h; omega

end Ledger.Sql
