import Ledger.Proofs.MachineBC7

/-! Stage (f), part 8: `TakeFromSource`, the account destination, and the account source. -/
namespace Ledger.Machine

abbrev T : Stack → Prop := fun _ => True

/-- Sequencing when no stack-shape side conditions are tracked. -/
theorem Sim.seq {ds : Decls} {env : Env} {C : CS → Prop} (hC : Stable C) {a : Act} {as : List Act}
    {f g : Kl} (h1 : Sim ds env C a T f) (h2 : Sim ds env C (seqA as) T g) :
    Sim ds env C (seqA (a :: as)) T (f.comp g) :=
  Sim.cons hC h1 h2 (fun _ _ _ _ _ _ => trivial)

theorem sim_bump1 (ds : Decls) (env : Env) (C : CS → Prop) (hC : Stable C) :
    Sim ds env C (bump 1) T (bumpK 1) := by
  simpa using sim_bump ds env C hC 1

theorem sim_bump2 (ds : Decls) (env : Env) (C : CS → Prop) (hC : Stable C) :
    Sim ds env C (bump 2) T (bumpK 2) := by
  simpa using sim_bump ds env C hC 2

/-! ### `TakeFromSource` -/

/-- Stack effect of `TakeFromSource`: `[monetary, funding, …] ↦ [funding', …]`. -/
def takeK (env : Env) (fb : Option Expr) : Kl := fun stk st =>
  match stk with
  | .val (.monetary a v) :: .funding F :: rest =>
    match takeFromSource env fb F (a, v) st.bal with
    | .error e => .error e
    | .ok (r, b) => .ok (.funding r :: rest, { st with bal := b })
  | _ => .error (.fault "stack")

def MonFunding : Stack → Prop := fun stk => ∃ a v F rest, stk = .val (.monetary a v) :: .funding F :: rest

theorem sim_take_none (ds : Decls) (env : Env) (C : CS → Prop) (hC : Stable C) :
    Sim ds env C (cTakeFromSource none) MonFunding (takeK env none) := by
  have h := Sim.seq hC (sim_emitOp ds env C OP_TAKE)
    (Sim.seq hC (sim_bump1 ds env C hC) (Sim.single hC (sim_emitOp ds env C OP_REPAY)))
  refine (h.weaken (fun _ _ => trivial)).congr ?_
  rintro stk st ⟨a, v, F, rest, rfl⟩
  simp only [Kl.comp, opK_TAKE, takeK, takeFromSource]
  by_cases hfa : F.asset = a
  · simp only [hfa, ne_eq, not_true_eq_false, if_false]
    cases needAmt v with
    | error e => rfl
    | ok amt =>
      simp only
      cases take F.parts amt with
      | none => rfl
      | some r =>
        obtain ⟨res, rem⟩ := r
        simp [bumpK, opK_REPAY]
  · simp [hfa]

theorem sim_take_some (ds : Decls) (env : Env) {a : Nat} {e : Expr} {acc : String}
    (hacc : evalAccount env e = .ok acc) :
    Sim ds env (AddrVal env a (.account acc)) (cTakeFromSource (some a)) MonFunding (takeK env (some e)) := by
  have hC := AddrVal.stable env a (.account acc)
  have h := Sim.seq hC (sim_emitOp ds env _ OP_TAKE_MAX)
    (Sim.seq hC (sim_bump1 ds env _ hC)
    (Sim.seq hC (sim_emitOp ds env _ OP_REPAY)
    (Sim.seq hC (sim_emitPush ds env a (.account acc))
    (Sim.seq hC (sim_bump2 ds env _ hC)
    (Sim.seq hC (sim_emitOp ds env _ OP_TAKE_ALWAYS)
    (Sim.seq hC (sim_pushInteger ds env _ 2)
    (Sim.single hC (sim_emitOp ds env _ OP_FUNDING_ASSEMBLE))))))))
  refine (h.weaken (fun _ _ => trivial)).congr ?_
  rintro stk st ⟨c, v, F, rest, rfl⟩
  simp only [Kl.comp, opK_TAKE_MAX, takeK, takeFromSource, takeMaxStep, hacc]
  cases needAmt v with
  | error e => rfl
  | ok amt =>
    simp only
    by_cases hneg : amt < 0
    · simp [hneg]
    · by_cases hfa : F.asset = c
      · simp [hneg, hfa, bumpK, opK_REPAY, pushK, opK_TAKE_ALWAYS, needAmt, opK_ASSEMBLE2]
      · simp [hneg, hfa]

/-! ### Account destination and `VisitDestination` -/

def FundingTop : Stack → Prop := fun stk => ∃ F rest, stk = .funding F :: rest

/-- Stack effect of a destination: `[funding, …] ↦ [remainder, …]`. -/
def destK (env : Env) (d : Dest) : Kl := fun stk st =>
  match stk with
  | .funding F :: rest =>
    match evalDest env F.asset d F.parts st with
    | .error e => .error e
    | .ok (rem, st1) => .ok (.funding ⟨F.asset, rem⟩ :: rest, st1)
  | _ => .error (.fault "stack")

theorem evalAccount_of_typed {ds : Decls} {env : Env} (henv : EnvTyped ds env) {e : Expr}
    (ht : typeExpr ds e = .ok .account) : ∃ a, evalExpr env e = .ok (.account a) ∧ evalAccount env e = .ok a := by
  obtain ⟨a, h1, _⟩ := account_typed_eval henv e ht
  exact ⟨a, h1, by simp [evalAccount, h1]⟩

theorem sim_dest_account {ds : Decls} {env : Env} (henv : EnvTyped ds env) (C : CS → Prop) (hC : Stable C)
    {e : Expr} (ht : typeExpr ds e = .ok .account) :
    Sim ds env C (cDest (.account e)) FundingTop (destK env (.account e)) := by
  have h := Sim.seq hC (sim_emitOp ds env C OP_FUNDING_SUM)
    (Sim.seq hC (sim_emitOp ds env C OP_TAKE)
    (Sim.seq hC (sim_pushExpr henv C ht)
    (Sim.single hC (sim_emitOp ds env C OP_SEND))))
  have hd : cDest (.account e) = seqA [emitOp OP_FUNDING_SUM, emitOp OP_TAKE, pushExpr e, emitOp OP_SEND] := by
    simp [cDest]
  rw [hd]
  refine (h.weaken (fun _ _ => trivial)).congr ?_
  rintro stk st ⟨F, rest, rfl⟩
  obtain ⟨acc, hev, hacc⟩ := evalAccount_of_typed henv ht
  simp only [Kl.comp, opK_FUNDING_SUM, opK_TAKE, destK, evalDest, hacc, needAmt, ne_eq, not_true_eq_false,
    if_false]
  cases take F.parts (total F.parts) with
  | none => rfl
  | some r =>
    obtain ⟨res, rem⟩ := r
    simp [exprK, hev, opK_SEND]

/-- `VisitDestination`: destination, then OP_REPAY of what is left. -/
def finishK (env : Env) (d : Dest) : Kl := fun stk st =>
  match stk with
  | .funding F :: rest =>
    match finishSend env d F st with
    | .error e => .error e
    | .ok st1 => .ok (rest, st1)
  | _ => .error (.fault "stack")

theorem sim_destination {ds : Decls} {env : Env} (C : CS → Prop) (hC : Stable C) {d : Dest}
    (hd : Sim ds env C (cDest d) FundingTop (destK env d)) :
    Sim ds env C (cDestination d) FundingTop (finishK env d) := by
  have h := Sim.cons hC hd (Sim.single hC (sim_emitOp ds env C OP_REPAY)) (Q := T) (fun _ _ _ _ _ _ => trivial)
  refine h.congr ?_
  rintro stk st ⟨F, rest, rfl⟩
  simp only [Kl.comp, destK, finishK, finishSend]
  cases evalDest env F.asset d F.parts st with
  | error e => rfl
  | ok r =>
    obtain ⟨rem, st1⟩ := r
    simp [opK_REPAY]

end Ledger.Machine
