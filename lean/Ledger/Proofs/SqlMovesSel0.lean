import Ledger.Proofs.SqlNested
import Ledger.Proofs.SqlLock
import Ledger.Proofs.SqlMovesExpr
import Ledger.Proofs.CorePcev

/-!
# The SELECT of `set_effective_volumes`: the latest earlier move
-/
open Ledger Ledger.Sql Ledger.Generated Ledger.Core

namespace Ledger.Sql

theorem compareForSort_ts (a b : Int) : compareForSort (.ts a) (.ts b) = .ok (cmpInt a b) := by
  simp [compareForSort, compareValues, compareScalar]; rfl

/-- sort keys of the trigger's query: (effective_date, seq) -/
def mvKeyOk (k : List Value) : Prop := ∃ (e q : Int), k = [.ts e, .int q]

/-- ORDER BY effective_date DESC, seq DESC -/
def mvCmp (k1 k2 : List Value) : Ordering :=
  match k1, k2 with
  | [.ts e1, .int q1], [.ts e2, .int q2] =>
    if e2 < e1 then .lt else if e1 < e2 then .gt else if q2 < q1 then .lt else if q1 < q2 then .gt else .eq
  | _, _ => .eq

theorem mvCmp_lt (e1 q1 e2 q2 : Int) : mvCmp [.ts e1, .int q1] [.ts e2, .int q2] = .lt ↔ (e2 < e1 ∨ (e1 = e2 ∧ q2 < q1)) := by
  simp only [mvCmp]
  repeat' split
  all_goals simp
  all_goals omega

theorem flip_cmpInt (a b : Int) : flipOrd (cmpInt a b) = if b < a then .lt else if a < b then .gt else .eq := by
  unfold cmpInt
  by_cases h1 : a < b
  · have : ¬ b < a := by omega
    simp [h1, this, flipOrd]
  · by_cases h2 : a = b
    · subst h2; simp [flipOrd]
    · have : b < a := by omega
      simp [h1, h2, this, flipOrd]

theorem mvCmpOk {β : Type} :
    CmpOk (fun (x y : List Value × β) => cmpOrderKeys x.1 y.1 [true, true] [NullsOrder.dflt, NullsOrder.dflt])
      (fun x y => mvCmp x.1 y.1) (fun x => mvKeyOk x.1) where
  ok := by
    intro x y ⟨e1, q1, hx⟩ ⟨e2, q2, hy⟩
    rw [hx, hy]
    simp only [cmpOrderKeys, compareForSort_ts, compareForSort_int, bind, Except.bind, pure, Except.pure, mvCmp, if_true, flip_cmpInt]
    by_cases h1 : e2 < e1
    · simp [h1]
    · by_cases h2 : e1 < e2
      · simp [h1, h2]
      · simp only [h1, h2, if_false]
        by_cases h3 : q2 < q1
        · simp [h3]
        · by_cases h4 : q1 < q2 <;> simp [h3, h4]
  asymm := by
    intro x y ⟨e1, q1, hx⟩ ⟨e2, q2, hy⟩ h
    rw [hx, hy] at h ⊢
    rw [mvCmp_lt] at h
    intro h'
    rw [mvCmp_lt] at h'
    omega
  negTrans := by
    intro x y z ⟨e1, q1, hx⟩ ⟨e2, q2, hy⟩ ⟨e3, q3, hz⟩ h1 h2
    rw [hx, hy] at h1
    rw [hy, hz] at h2
    rw [hx, hz]
    intro h3
    rw [mvCmp_lt] at h3
    have e1' : ¬ (e1 < e2 ∨ (e2 = e1 ∧ q1 < q2)) := fun h => h1 ((mvCmp_lt _ _ _ _).mpr h)
    have e2' : ¬ (e2 < e3 ∨ (e3 = e2 ∧ q2 < q3)) := fun h => h2 ((mvCmp_lt _ _ _ _).mpr h)
    omega

/-- ORDER BY seq DESC -/
def seqKeyOk (k : List Value) : Prop := ∃ (q : Int), k = [.int q]

def seqCmp (k1 k2 : List Value) : Ordering :=
  match k1, k2 with
  | [.int q1], [.int q2] => if q2 < q1 then .lt else if q1 < q2 then .gt else .eq
  | _, _ => .eq

theorem seqCmp_lt (q1 q2 : Int) : seqCmp [.int q1] [.int q2] = .lt ↔ q2 < q1 := by
  simp only [seqCmp]
  repeat' split
  all_goals simp
  all_goals omega

theorem seqCmpOk {β : Type} :
    CmpOk (fun (x y : List Value × β) => cmpOrderKeys x.1 y.1 [true] [NullsOrder.dflt]) (fun x y => seqCmp x.1 y.1) (fun x => seqKeyOk x.1) where
  ok := by
    intro x y ⟨q1, hx⟩ ⟨q2, hy⟩
    rw [hx, hy]
    simp only [cmpOrderKeys, compareForSort_int, bind, Except.bind, pure, Except.pure, seqCmp, if_true, flip_cmpInt]
    by_cases h3 : q2 < q1
    · simp [h3]
    · by_cases h4 : q1 < q2 <;> simp [h3, h4]
  asymm := by
    intro x y ⟨q1, hx⟩ ⟨q2, hy⟩ h
    rw [hx, hy] at h ⊢
    rw [seqCmp_lt] at h
    intro h'
    rw [seqCmp_lt] at h'
    omega
  negTrans := by
    intro x y z ⟨q1, hx⟩ ⟨q2, hy⟩ ⟨q3, hz⟩ h1 h2
    rw [hx, hy] at h1
    rw [hy, hz] at h2
    rw [hx, hz]
    intro h3
    rw [seqCmp_lt] at h3
    have e1 : ¬ q1 < q2 := fun h => h1 ((seqCmp_lt _ _).mpr h)
    have e2 : ¬ q2 < q3 := fun h => h2 ((seqCmp_lt _ _).mpr h)
    omega


end Ledger.Sql
