import Ledger.Proofs.CtrlIk

/-!
Accounts only ever move one way: a row is never removed, its insertion date
never changes, its first usage never rises — for every store call, hence for
every program, write operation and history (import path included).
-/
namespace Ledger.Ctrl
open Ledger.Base Ledger.Core

theorem get?_insert_self {ν : Type} (k : String) (v : ν) (m : Map String ν) : (m.insert k v).get? k = some v := by
  induction m with
  | nil => simp [Map.insert, Map.insertWith, Map.get?]
  | cons e r ih =>
    obtain ⟨k', v'⟩ := e
    simp only [Map.insert, Map.insertWith] at ih ⊢
    by_cases h1 : k' = k
    · simp [h1, Map.get?]
    · simp only [h1, ↓reduceIte]
      by_cases h2 : KeyOrd.lt k k' = true
      · simp [h2, Map.get?]
      · simp only [h2, Bool.false_eq_true, ↓reduceIte, Map.get?, h1]
        exact ih

theorem get?_insert_ne {ν : Type} (k k2 : String) (v : ν) (m : Map String ν) (hne : k2 ≠ k) :
    (m.insert k v).get? k2 = m.get? k2 := by
  induction m with
  | nil => simp [Map.insert, Map.insertWith, Map.get?, Ne.symm hne]
  | cons e r ih =>
    obtain ⟨k', v'⟩ := e
    simp only [Map.insert, Map.insertWith] at ih ⊢
    by_cases h1 : k' = k
    · subst h1; simp [Map.get?, Ne.symm hne]
    · simp only [h1, ↓reduceIte]
      by_cases h2 : KeyOrd.lt k k' = true
      · simp [h2, Map.get?, Ne.symm hne]
      · simp only [h2, Bool.false_eq_true, ↓reduceIte, Map.get?]
        by_cases h3 : k' = k2
        · simp [h3]
        · simp only [h3, ↓reduceIte]; exact ih

/-- The one-way relation on the accounts table. -/
def AccLe (a b : Map String Account) : Prop :=
  ∀ k acc, a.get? k = some acc →
    ∃ acc', b.get? k = some acc' ∧ acc'.insertionDate = acc.insertionDate ∧ acc'.firstUsage ≤ acc.firstUsage

theorem AccLe.refl (a : Map String Account) : AccLe a a := fun _ acc h => ⟨acc, h, rfl, Int.le_refl _⟩

theorem AccLe.trans {a b c : Map String Account} (h1 : AccLe a b) (h2 : AccLe b c) : AccLe a c := by
  intro k acc h
  obtain ⟨x, hx, hi, hf⟩ := h1 k acc h
  obtain ⟨y, hy, hi2, hf2⟩ := h2 k x hx
  exact ⟨y, hy, hi2.trans hi, Int.le_trans hf2 hf⟩

/-- Rewriting one row keeps the relation when the new row keeps the insertion date
    and does not raise the first usage. -/
theorem AccLe.insert_existing (m : Map String Account) (k : String) (old new : Account)
    (hold : m.get? k = some old) (hi : new.insertionDate = old.insertionDate) (hf : new.firstUsage ≤ old.firstUsage) :
    AccLe m (m.insert k new) := by
  intro k2 acc h
  by_cases hk : k2 = k
  · subst hk
    rw [hold] at h; cases h
    exact ⟨new, get?_insert_self _ _ _, hi, hf⟩
  · exact ⟨acc, by rw [get?_insert_ne _ _ _ _ hk]; exact h, rfl, Int.le_refl _⟩

theorem AccLe.insert_new (m : Map String Account) (k : String) (new : Account) (hnew : m.get? k = none) :
    AccLe m (m.insert k new) := by
  intro k2 acc h
  by_cases hk : k2 = k
  · subst hk; rw [hnew] at h; cases h
  · exact ⟨acc, by rw [get?_insert_ne _ _ _ _ hk]; exact h, rfl, Int.le_refl _⟩

theorem upsertAccount_le (now : Time) (m : Map String Account) (r : AccIn) : AccLe m (upsertAccount now m r) := by
  unfold upsertAccount
  cases h : m.get? r.address with
  | none => exact AccLe.insert_new _ _ _ h
  | some a =>
    simp only
    cases r.firstUsage with
    | none =>
      simp only
      split
      · exact AccLe.insert_existing _ _ a _ h rfl (Int.le_refl _)
      · exact AccLe.refl _
    | some f =>
      simp only
      split
      · refine AccLe.insert_existing _ _ a _ h rfl ?_
        simp only
        split
        · rename_i hlt; exact Int.le_of_lt hlt
        · exact Int.le_refl _
      · exact AccLe.refl _

theorem updateAccountMeta_le (w : Time) (m : Map String Account) (e : String × Meta) :
    AccLe m (updateAccountMeta w m e) := by
  unfold updateAccountMeta
  cases h : m.get? e.1 with
  | none => exact AccLe.insert_new _ _ _ h
  | some a =>
    simp only
    split
    · exact AccLe.refl _
    · refine AccLe.insert_existing _ _ a _ h rfl ?_
      simp only
      split
      · rename_i hlt; exact Int.le_of_lt hlt
      · exact Int.le_refl _

theorem foldl_le {β : Type} (f : Map String Account → β → Map String Account)
    (hf : ∀ m b, AccLe m (f m b)) (l : List β) (m : Map String Account) : AccLe m (l.foldl f m) := by
  induction l generalizing m with
  | nil => exact AccLe.refl _
  | cons b r ih => exact AccLe.trans (hf m b) (ih _)

/-- Every store call respects the relation. -/
theorem exec_accLe (now : Time) (c : Call) (d : Db) (sq : Seqs) :
    ∀ sq' r d', exec now c d sq = (sq', .ok (r, d')) → AccLe d.accounts d'.accounts := by
  intro sq' r d' he
  cases c with
  | insertLog l =>
    simp only [exec] at he
    have : ∀ x : Log × Db, (insertLog now l d sq).2 = .ok x → x.2.accounts = d.accounts := by
      intro x hx
      unfold insertLog at hx
      cases hid : l.id <;> simp only [hid] at hx <;> split at hx <;> (try split at hx) <;>
        first | (cases hx; rfl) | cases hx
    rw [this (r, d') (by rw [he])]; exact AccLe.refl _
  | commitTransaction t =>
    simp only [exec] at he
    have : ∀ x : Tx × Db, (commitTransaction now t d sq).2 = .ok x → x.2.accounts = d.accounts := by
      intro x hx
      unfold commitTransaction at hx
      cases hid : t.id <;> simp only [hid] at hx <;> split at hx <;> (try split at hx) <;>
        first | (cases hx; rfl) | cases hx
    rw [this (r, d') (by rw [he])]; exact AccLe.refl _
  | revertTransaction id w =>
    simp only [exec, revertTransaction, Prod.mk.injEq] at he
    obtain ⟨_, he⟩ := he
    split at he
    · cases he
    · split at he <;> (cases he; exact AccLe.refl _)
  | updateTxMeta id m w =>
    simp only [exec, updateTxMeta, Prod.mk.injEq] at he
    obtain ⟨_, he⟩ := he
    split at he
    · cases he
    · split at he <;> (cases he; exact AccLe.refl _)
  | deleteTxMeta id k w =>
    simp only [exec, deleteTxMeta, Prod.mk.injEq] at he
    obtain ⟨_, he⟩ := he
    split at he
    · cases he
    · split at he <;> (cases he; exact AccLe.refl _)
  | readLogIK ik => simp only [exec] at he; cases he; exact AccLe.refl _
  | findSchema v => simp only [exec] at he; cases he; exact AccLe.refl _
  | findLatestSchemaVersion => simp only [exec] at he; cases he; exact AccLe.refl _
  | getAccount a => simp only [exec] at he; cases he; exact AccLe.refl _
  | getBalances q => simp only [exec, getBalances] at he; cases he; exact AccLe.refl _
  | upsertAccounts rows =>
    simp only [exec, upsertAccounts] at he; cases he
    exact foldl_le _ (upsertAccount_le now) rows _
  | updateAccountsMeta m w =>
    simp only [exec, updateAccountsMeta] at he; cases he
    exact foldl_le _ (updateAccountMeta_le _) m _
  | deleteAccountMeta a k =>
    simp only [exec, deleteAccountMeta] at he
    cases he
    cases h : d.accounts.get? a with
    | none => exact AccLe.refl _
    | some x => exact AccLe.insert_existing _ _ x _ h rfl (Int.le_refl _)
  | insertSchema s =>
    simp only [exec, insertSchema] at he
    split at he <;> (cases he; exact AccLe.refl _)

/-- Every program respects it. -/
theorem run_accLe {α : Type} (now : Time) (hn : String) (f : Faults) (p : Prog α) (st : RunSt) :
    AccLe st.db.accounts (run now hn f p st).2.db.accounts := by
  have hall : p.All (fun _ => True) := by
    induction p with
    | pure a => exact .pure a
    | fail e => exact .fail e
    | call c k ih => exact .call c k trivial ih
  exact run_rel now hn f (fun _ => True) (fun x y => AccLe x.1.accounts y.1.accounts) (fun _ => AccLe.refl _)
    (fun _ _ _ h1 h2 => AccLe.trans h1 h2)
    (fun c d sq _ => ⟨fun _ _ _ => AccLe.refl _, fun sq' r d' he => exec_accLe now c d sq sq' r d' he⟩) p hall st

/-- Every write operation respects it, with or without faults. -/
theorem forgeLog_accLe (strict : Bool) (op : Op) (f : Faults) (cf : Bool) (s : State) :
    AccLe s.db.accounts (forgeLog strict op f cf s).state.db.accounts := by
  rcases forgeLog_ending strict op f cf s with ⟨hu, _, _⟩ | ⟨st0, st, log, hn, f', n, _, h0, _, hrun, hc⟩
  · rw [hu]; exact AccLe.refl _
  · have := run_accLe op.now hn f' (runLog strict op.kind op.ik op.ihash op.sv n) st0
    rw [hrun, h0] at this
    rw [hc.1]; exact this

end Ledger.Ctrl
