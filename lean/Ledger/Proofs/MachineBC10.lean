import Ledger.Proofs.MachineBC9

/-! Stage (f), part 10: addresses of leftmost atoms; the tail of a `send` (amount, `TakeFromSource`,
    `VisitDestination`). -/
namespace Ledger.Machine

/-! ### The value at the address of the leftmost atom -/

theorem leftmost_not_arith : (e : Expr) →
    (∀ l r, e.leftmost ≠ .add l r) ∧ (∀ l r, e.leftmost ≠ .sub l r)
  | .add l _ => by simpa [Expr.leftmost] using leftmost_not_arith l
  | .sub l _ => by simpa [Expr.leftmost] using leftmost_not_arith l
  | .acct _ => by simp [Expr.leftmost]
  | .asset _ => by simp [Expr.leftmost]
  | .num _ => by simp [Expr.leftmost]
  | .str _ => by simp [Expr.leftmost]
  | .portion _ => by simp [Expr.leftmost]
  | .mon _ _ => by simp [Expr.leftmost]
  | .var _ => by simp [Expr.leftmost]

theorem atom_monetary_eval {ds : Decls} {env : Env} (henv : EnvTyped ds env) :
    (e : Expr) → typeExpr ds e = .ok .monetary → (∀ l r, e ≠ .add l r) → (∀ l r, e ≠ .sub l r) →
    ∃ a v, evalExpr env e = .ok (.monetary a v)
  | .mon ae n, h, _, _ => by
    simp only [typeExpr] at h
    split at h
    · cases h
    · rename_i t ht
      split at h
      · rename_i hta; subst hta
        obtain ⟨s, hs⟩ := asset_typed_eval henv ae ht
        exact ⟨s, some n, by simp [evalExpr, hs]⟩
      · cases h
  | .var x, h, _, _ => by
    simp only [typeExpr] at h
    split at h
    · rename_i t hl
      cases h
      obtain ⟨w, hw, hty⟩ := henv x _ hl
      obtain ⟨a, v, rfl⟩ := val_monetary hty
      exact ⟨a, v, by simp [evalExpr, hw]⟩
    · cases h
  | .add l r, _, h1, _ => absurd rfl (h1 l r)
  | .sub l r, _, _, h2 => absurd rfl (h2 l r)
  | .acct _, h, _, _ => by simp [typeExpr] at h
  | .num _, h, _, _ => by simp [typeExpr] at h
  | .str _, h, _, _ => by simp [typeExpr] at h
  | .asset _, h, _, _ => by simp only [typeExpr] at h; split at h <;> cases h
  | .portion _, h, _, _ => by simp only [typeExpr] at h; split at h <;> cases h

theorem leftmost_monetary_eval {ds : Decls} {env : Env} (henv : EnvTyped ds env) {e : Expr}
    (h : typeExpr ds e = .ok .monetary) : ∃ a v, evalExpr env e.leftmost = .ok (.monetary a v) :=
  atom_monetary_eval henv e.leftmost (leftmost_typed e h) (leftmost_not_arith e).1 (leftmost_not_arith e).2

/-- `cExprAddr`: no code, and the address holds the value of the leftmost atom. -/
theorem cExprAddr_val {ds : Decls} {env : Env} (henv : EnvTyped ds env) {e : Expr} {ty : Ty}
    (ht : typeExpr ds e = .ok ty) {cs cs1 : CS} {a : Nat} (hg : Good ds cs)
    (h : cExprAddr e cs = .ok (a, cs1)) :
    Ext cs cs1 [] ∧ Good ds cs1 ∧ ∀ v, evalExpr env e.leftmost = .ok v → AddrVal env a v cs1 := by
  simp only [cExprAddr] at h
  split at h
  · cases h
  · rename_i t0 a0 cs0 hc
    cases h
    obtain ⟨seg, e0, _, _, c0⟩ := cExpr_ok ds env henv e false cs _ _ _ _ hc ht hg.1
    have r0 := cExpr_res ds e false cs _ _ _ _ hc ht hg.1 hg.2
    have hs : seg = [] := c0.nopush rfl
    subst hs
    refine ⟨e0, hg.ext e0 r0.inv, ?_⟩
    intro v hv R resv hf hr
    obtain ⟨w, hw1, hw2⟩ := c0.addr R resv hf hr _ rfl
    rw [hv] at hw2; cases hw2; exact hw1
  · cases h

/-! ### Pieces of the statement -/

theorem FbOK.stable (env : Env) (fb : Option Nat) (fbE : Option Expr) : Stable (FbOK env fb fbE) := by
  intro cs cs' seg h he
  cases fb <;> cases fbE <;> simp only [FbOK] at h ⊢
  obtain ⟨acc, h1, h2⟩ := h
  exact ⟨acc, h1, AddrVal.stable env _ _ cs cs' seg h2 he⟩

theorem sim_take (ds : Decls) (env : Env) (fb : Option Nat) (fbE : Option Expr) :
    Sim ds env (FbOK env fb fbE) (cTakeFromSource fb) MonFunding (takeK env fbE) := by
  cases fb with
  | none =>
    cases fbE with
    | none => exact sim_take_none ds env _ (FbOK.stable env none none)
    | some e => exact ⟨fun cs cs' _ hc _ => by simp [FbOK] at hc⟩
  | some a =>
    cases fbE with
    | none => exact ⟨fun cs cs' _ hc _ => by simp [FbOK] at hc⟩
    | some e =>
      refine ⟨fun cs cs' hg hc ha => ?_⟩
      obtain ⟨acc, hacc, hav⟩ := hc
      exact (sim_take_some ds env hacc).ok cs cs' hg hav ha

theorem sim_setNeeded (ds : Decls) (env : Env) (C : CS → Prop) (hC : Stable C) (accs : List Nat) (addr : Nat) :
    Sim ds env C (setNeeded accs addr) T Kl.id :=
  ⟨fun cs cs' hg _ ha => by
    simp only [setNeeded] at ha; cases ha
    have he : Ext cs { cs with needed := accs.foldl (addNeeded addr) cs.needed } [] :=
      ⟨by simp, ⟨[], by simp⟩, rfl⟩
    exact ⟨[], he, hg.ext he hg.2, fun _ _ _ _ _ _ _ => rfl⟩⟩

theorem takeK_post {env : Env} {fbE : Option Expr} {stk s1 : Stack} {st t1 : State}
    (h : takeK env fbE stk st = .ok (s1, t1)) : FundingTop s1 := by
  unfold takeK at h
  split at h
  · split at h
    · cases h
    · cases h; exact ⟨_, _, rfl⟩
  · cases h

/-- After the source: `setNeeded`, the amount, `TakeFromSource`, `VisitDestination`. -/
theorem sim_send_tail {ds : Decls} {env : Env} (henv : EnvTyped ds env) {mon : Expr}
    (htm : typeExpr ds mon = .ok .monetary) (fb : Option Nat) (fbE : Option Expr) (accs : List Nat) (addr : Nat)
    {dst : Dest} (hd : Sim ds env (FbOK env fb fbE) (cDest dst) FundingTop (destK env dst)) :
    Sim ds env (FbOK env fb fbE)
      (seqA [setNeeded accs addr, pushExpr mon, cTakeFromSource fb, cDestination dst]) FundingTop
      (Kl.id.comp ((exprK env mon).comp ((takeK env fbE).comp (finishK env dst)))) := by
  have hC := FbOK.stable env fb fbE
  have hD := Sim.single hC (sim_destination _ hC hd)
  have hT := Sim.cons hC (sim_take ds env fb fbE) hD (fun _ _ _ _ _ h => takeK_post h)
  have hM := Sim.cons hC ((sim_pushExpr henv _ htm).weaken (Q := FundingTop) (fun _ _ => trivial)) hT
    (by
      rintro stk st s1 t1 ⟨F, rest, rfl⟩ h
      rw [exprK_monetary henv htm] at h
      split at h
      · cases h; exact ⟨_, _, _, _, rfl⟩
      · cases h)
  exact Sim.cons hC ((sim_setNeeded ds env _ hC accs addr).weaken (Q := FundingTop) (fun _ _ => trivial)) hM
    (by
      intro stk st s1 t1 hp h
      simp only [Kl.id] at h; cases h; exact hp)

end Ledger.Machine
