import Ledger.Proofs.CoreMoves

/-! Invariants of the abstract store under any sequence of operations (C01, C02, C03). -/
set_option linter.unusedSectionVars false
namespace Ledger.Spec
open Ledger.Base Ledger.Core

/-! ### small facts on folds -/

theorem Volumes.zero_add (v : Volumes) : Volumes.zero.add v = v := by
  apply Volumes.ext' <;> simp [Volumes.add, Volumes.zero]
theorem Volumes.add_zero (v : Volumes) : v.add Volumes.zero = v := by
  apply Volumes.ext' <;> simp [Volumes.add, Volumes.zero]

theorem inSum_append (k : Key) (a b : List Posting) : inSum k (a ++ b) = inSum k a + inSum k b := by
  induction a with
  | nil => simp [inSum]
  | cons p a ih => simp only [List.cons_append, inSum, ih]; omega

theorem outSum_append (k : Key) (a b : List Posting) : outSum k (a ++ b) = outSum k a + outSum k b := by
  induction a with
  | nil => simp [outSum]
  | cons p a ih => simp only [List.cons_append, outSum, ih]; omega

theorem foldVolumes_append (k : Key) (a b : List Posting) :
    foldVolumes k (a ++ b) = (foldVolumes k a).add (foldVolumes k b) := by
  simp [foldVolumes, Volumes.add, inSum_append, outSum_append]

theorem touches_append (k : Key) (a b : List Posting) : touches k (a ++ b) = (touches k a || touches k b) := by
  simp [touches, List.any_append]

theorem foldVolumes_untouched {k : Key} {ps : List Posting} (h : touches k ps = false) :
    foldVolumes k ps = Volumes.zero := by
  induction ps with
  | nil => rfl
  | cons p ps ih =>
    simp only [touches, List.any_cons, Bool.or_eq_false_iff, decide_eq_false_iff_not] at h
    obtain ⟨⟨h1, h2⟩, h3⟩ := h
    have := ih (by simpa [touches] using h3)
    simp only [foldVolumes, Volumes.zero, Volumes.mk.injEq] at this ⊢
    simp [inSum, outSum, h1, h2, this.1, this.2]

theorem allPostings_append (a b : List TxRec) : allPostings (a ++ b) = allPostings a ++ allPostings b := by
  induction a with
  | nil => rfl
  | cons t a ih => simp [allPostings, ih]

theorem allPostings_map_congr (f : TxRec → TxRec) (hf : ∀ t, (f t).postings = t.postings) (l : List TxRec) :
    allPostings (l.map f) = allPostings l := by
  induction l with
  | nil => rfl
  | cons t l ih => simp [allPostings, ih, hf]

/-! ### the volumes upsert -/

def upsertAll (av vu : PCV) : PCV := vu.foldl (fun m e => m.insertWith Volumes.add e.1 e.2) av

theorem upsertVolumes_fst (av vu : PCV) : (upsertVolumes av vu).1 = upsertAll av vu := rfl
theorem upsertVolumes_snd (av vu : PCV) : (upsertVolumes av vu).2 = vu.mapVal (fun k v => upsertRow av k v) := rfl

theorem netIn_eq (s : String) (m : PCV) : netIn s m = inputsIn s m - outputsIn s m := by
  unfold netIn inputsIn outputsIn
  rw [← Map.sumBy_sub]
  apply Map.sumBy_congr
  intro k v; split <;> simp

theorem netIn_volumeUpdates (s : String) (ps : List Posting) : netIn s (volumeUpdates ps) = 0 := by
  rw [netIn_eq, inputsIn_volumeUpdates, outputsIn_volumeUpdates]; omega

theorem netIn_upsertAll (s : String) (av vu : PCV) : netIn s (upsertAll av vu) = netIn s av + netIn s vu := by
  induction vu generalizing av with
  | nil => simp [upsertAll, netIn, Map.sumBy]
  | cons e r ih =>
    obtain ⟨k, v⟩ := e
    have : upsertAll av ((k, v) :: r) = upsertAll (av.insertWith Volumes.add k v) r := rfl
    rw [this, ih]
    unfold netIn
    rw [Map.sumBy_insertWith]
    · simp only [Map.sumBy]; omega
    · intro o; split <;> simp [Volumes.add]; omega

theorem WF_upsertAll {av : PCV} (h : Map.WF av) (vu : PCV) : Map.WF (upsertAll av vu) := by
  induction vu generalizing av with
  | nil => exact h
  | cons e r ih => exact ih (Map.WF_insertWith _ _ _ h)

theorem get?_tail_none {κ ν : Type} [DecidableEq κ] [KeyOrd κ] [LawfulKeyOrd κ] {k : κ} {v : ν} {r : Map κ ν}
    (h : Map.WF ((k, v) :: r)) : Map.get? r k = none := by
  apply Map.get?_eq_none_of_not_mem_keys
  intro hm
  simp only [Map.keys, List.mem_map] at hm
  obtain ⟨x, hx, hx1⟩ := hm
  have := (Map.WF_cons.mp h).1 x hx
  simp only at this
  rw [hx1, LawfulKeyOrd.irrefl] at this
  exact absurd this (by simp)

theorem get?_upsertAll {av vu : PCV} (hav : Map.WF av) (hvu : Map.WF vu) (k : Key) :
    (upsertAll av vu).get? k =
      match vu.get? k with
      | some v => some (upsertRow av k v)
      | none => av.get? k := by
  induction vu generalizing av with
  | nil => rfl
  | cons e r ih =>
    obtain ⟨k0, v0⟩ := e
    have e1 : upsertAll av ((k0, v0) :: r) = upsertAll (av.insertWith Volumes.add k0 v0) r := rfl
    rw [e1, ih (Map.WF_insertWith _ _ _ hav) (Map.WF_tail hvu), Map.get?_cons]
    by_cases hk : k0 = k
    · subst hk
      rw [get?_tail_none hvu, if_pos rfl]
      simp only [Map.get?_insertWith _ _ _ hav, if_true, upsertRow]
      cases av.get? k0 <;> rfl
    · have hk' : ¬ k = k0 := fun e => hk e.symm
      rw [if_neg hk]
      cases hr : Map.get? r k with
      | none => simp only [Map.get?_insertWith _ _ _ hav, if_neg hk']
      | some v => simp only [upsertRow, Map.get?_insertWith _ _ _ hav, if_neg hk']

/-! ### the returned rows are the forward application to the pre-volumes -/

theorem contains_preVolumes (av : PCV) (ps : List Posting) (k : Key) :
    (preVolumes av (volumeUpdates ps)).contains k = touches k ps := by
  unfold Map.contains preVolumes
  rw [Map.get?_mapVal, get?_volumeUpdates]
  by_cases h : touches k ps = true
  · simp [h]
  · simp [h]

theorem touches_srcKey {p : Posting} {ps : List Posting} (h : p ∈ ps) : touches p.srcKey ps = true := by
  simp only [touches, List.any_eq_true, Bool.or_eq_true, decide_eq_true_eq]
  exact ⟨p, h, Or.inl rfl⟩

theorem touches_dstKey {p : Posting} {ps : List Posting} (h : p ∈ ps) : touches p.dstKey ps = true := by
  simp only [touches, List.any_eq_true, Bool.or_eq_true, decide_eq_true_eq]
  exact ⟨p, h, Or.inr rfl⟩

theorem hasKeys_preVolumes (av : PCV) (ps : List Posting) : HasKeys (preVolumes av (volumeUpdates ps)) ps := by
  intro p hp
  rw [contains_preVolumes, contains_preVolumes]
  exact ⟨touches_srcKey hp, touches_dstKey hp⟩

theorem returned_eq_applyFwd (av : PCV) (ps : List Posting) :
    (upsertVolumes av (volumeUpdates ps)).2 = applyFwd (preVolumes av (volumeUpdates ps)) ps := by
  apply Map.ext_of_WF
  · rw [upsertVolumes_snd]; exact Map.WF_mapVal _ (WF_volumeUpdates ps)
  · exact WF_applyFwd (Map.WF_mapVal _ (WF_volumeUpdates ps)) ps
  · intro k
    rw [upsertVolumes_snd, Map.get?_mapVal, get?_applyFwd]
    unfold preVolumes
    rw [Map.get?_mapVal, get?_volumeUpdates]
    by_cases h : touches k ps = true
    · simp only [h, if_true, Option.map_some, upsertRow]
      cases av.get? k <;> simp [Volumes.zero_add]
    · simp [h]

/-- `movesOf` on the rows the upsert returned never fails and equals the running moves. -/
theorem movesOf_returned (av : PCV) (ps : List Posting) :
    movesOf (upsertVolumes av (volumeUpdates ps)).2 ps = .ok (fwdMoves (preVolumes av (volumeUpdates ps)) ps) := by
  rw [returned_eq_applyFwd]
  exact movesOf_applyFwd _ _ (hasKeys_preVolumes av ps)

/-! ### the store invariant -/

structure StoreInv (st : Store) : Prop where
  wf : Map.WF st.accountsVolumes
  /-- C02: a row holds the fold; no row ⇒ nothing touched the pair -/
  av : ∀ k, st.accountsVolumes.get? k = some (volumesOf st.txRecs k) ∨
            (st.accountsVolumes.get? k = none ∧ touches k (allPostings st.txRecs) = false)
  /-- C03: the stored post-commit volumes of transaction `i` are the fold of transactions `0..i` -/
  pcv : ∀ (i : Nat) (h : i < st.txs.length) (k : Key),
      (st.txs[i]).pcv.get? k =
        if touches k (st.txs[i]).tx.postings then some (volumesOf (st.txRecs.take (i + 1)) k) else none
  /-- C01: balances sum to zero per asset -/
  net : ∀ s, netIn s st.accountsVolumes = 0

theorem StoreInv_empty : StoreInv {} where
  wf := Map.WF_nil
  av := by intro k; right; simp [Store.txRecs, allPostings, touches]
  pcv := by intro i h; simp at h
  net := by intro s; simp [netIn, Map.sumBy]

theorem volumesOf_snoc (recs : List TxRec) (t : TxRec) (k : Key) :
    volumesOf (recs ++ [t]) k = (volumesOf recs k).add (foldVolumes k t.postings) := by
  simp [volumesOf, allPostings_append, allPostings, foldVolumes_append]

/-- value of the upserted row in terms of folds -/
theorem upsertRow_fold {st : Store} (inv : StoreInv st) (k : Key) (ps : List Posting) :
    upsertRow st.accountsVolumes k (foldVolumes k ps) = (volumesOf st.txRecs k).add (foldVolumes k ps) := by
  unfold upsertRow
  rcases inv.av k with h | ⟨h, hn⟩
  · rw [h]
  · rw [h]
    have : volumesOf st.txRecs k = Volumes.zero := foldVolumes_untouched hn
    rw [this, Volumes.zero_add]

/-- shape of a successful commit -/
theorem applyTx_ok {st : Store} (t : TxIn) :
    ∃ moves' accounts', applyTx st t = .ok
      { accountsVolumes := upsertAll st.accountsVolumes (volumeUpdates t.postings)
        txs := st.txs ++ [{ tx := { id := st.nextTxId, postings := t.postings, timestamp := t.timestamp,
                                    insertedAt := t.insertedAt, reference := t.reference,
                                    metadata := t.metadata },
                            pcv := (upsertVolumes st.accountsVolumes (volumeUpdates t.postings)).2 }]
        moves := moves', accounts := accounts', nextTxId := st.nextTxId + 1,
        nextSeq := st.nextSeq + (fwdMoves (preVolumes st.accountsVolumes (volumeUpdates t.postings)) t.postings).length } := by
  unfold applyTx
  simp only [movesOf_returned]
  exact ⟨_, _, rfl⟩

theorem StoreInv_applyTx {st st' : Store} (inv : StoreInv st) (t : TxIn) (h : applyTx st t = .ok st') :
    StoreInv st' := by
  obtain ⟨mv, ac, hok⟩ := applyTx_ok (st := st) t
  rw [hok] at h
  cases h
  have hvu := WF_volumeUpdates t.postings
  refine ⟨WF_upsertAll inv.wf _, ?_, ?_, ?_⟩
  · intro k
    simp only [Store.txRecs, List.map_append, List.map_cons, List.map_nil]
    rw [get?_upsertAll inv.wf hvu, get?_volumeUpdates]
    show _ ∨ _
    rw [volumesOf_snoc, allPostings_append, touches_append]
    by_cases ht : touches k t.postings = true
    · left
      simp only [ht, if_true]
      exact congrArg some (upsertRow_fold inv k _)
    · simp only [ht]
      have hz : foldVolumes k t.postings = Volumes.zero := foldVolumes_untouched (by simpa using ht)
      rcases inv.av k with h1 | ⟨h1, h2⟩
      · left; rw [h1, hz, Volumes.add_zero]; rfl
      · right
        refine ⟨h1, ?_⟩
        simp only [allPostings, List.append_nil]
        have h2' : touches k (allPostings (st.txs.map (·.tx))) = false := h2
        simp [h2', ht]
  · intro i hi k
    simp only [List.length_append, List.length_cons, List.length_nil] at hi
    by_cases hlt : i < st.txs.length
    · simp only [Store.txRecs, List.map_append] at *
      rw [List.getElem_append_left hlt]
      rw [List.take_append_of_le_length (by simp; omega)]
      exact inv.pcv i hlt k
    · have hi' : i = st.txs.length := by omega
      subst hi'
      simp only [Store.txRecs, List.map_append, List.map_cons, List.map_nil]
      rw [List.getElem_append_right (Nat.le_refl _)]
      simp only [Nat.sub_self, List.getElem_cons_zero]
      rw [List.take_of_length_le (by simp)]
      rw [upsertVolumes_snd, Map.get?_mapVal, get?_volumeUpdates, volumesOf_snoc]
      by_cases ht : touches k t.postings = true
      · simp only [ht, if_true, Option.map_some]
        exact congrArg some (upsertRow_fold inv k _)
      · simp [ht]
  · intro s
    show netIn s (upsertAll st.accountsVolumes (volumeUpdates t.postings)) = 0
    rw [netIn_upsertAll, inv.net s, netIn_volumeUpdates]; rfl

/-! ### lock / markReverted -/

def lockAll (av : PCV) (keys : List Key) : PCV :=
  keys.foldl (fun m k => m.insertWith (fun old _ => old) k Volumes.zero) av

theorem WF_lockAll {av : PCV} (h : Map.WF av) (keys : List Key) : Map.WF (lockAll av keys) := by
  induction keys generalizing av with
  | nil => exact h
  | cons k ks ih => exact ih (Map.WF_insertWith _ _ _ h)

theorem netIn_lockAll (s : String) (av : PCV) (keys : List Key) : netIn s (lockAll av keys) = netIn s av := by
  induction keys generalizing av with
  | nil => rfl
  | cons k ks ih =>
    have : lockAll av (k :: ks) = lockAll (av.insertWith (fun old _ => old) k Volumes.zero) ks := rfl
    rw [this, ih]
    unfold netIn
    rw [Map.sumBy_insertWith]
    · simp [Volumes.zero]
    · intro o; simp [Volumes.zero]

/-- a locked pair gets a zero row only when it had none -/
theorem get?_lockAll {av : PCV} (hav : Map.WF av) (keys : List Key) (k : Key) :
    (lockAll av keys).get? k = av.get? k ∨ (av.get? k = none ∧ (lockAll av keys).get? k = some Volumes.zero) := by
  induction keys generalizing av with
  | nil => left; rfl
  | cons k0 ks ih =>
    have e : lockAll av (k0 :: ks) = lockAll (av.insertWith (fun old _ => old) k0 Volumes.zero) ks := rfl
    rw [e]
    have hw := Map.WF_insertWith (fun old _ => old) k0 Volumes.zero hav
    have hg := Map.get?_insertWith (fun old _ => old) k0 Volumes.zero hav k
    rcases ih hw with h | ⟨h1, h2⟩
    · rw [h, hg]
      by_cases hk : k = k0
      · subst hk
        cases hav' : av.get? k with
        | none =>
          right
          refine ⟨rfl, ?_⟩
          simp
        | some v => left; simp
      · left; simp [hk]
    · rw [hg] at h1
      by_cases hk : k = k0
      · simp [hk] at h1
      · simp only [if_neg hk] at h1
        right; exact ⟨h1, h2⟩

theorem StoreInv_lock {st : Store} (inv : StoreInv st) (keys : List Key) : StoreInv (lockBalances st keys) := by
  refine ⟨WF_lockAll inv.wf keys, ?_, inv.pcv, ?_⟩
  · intro k
    have hav : (lockBalances st keys).accountsVolumes = lockAll st.accountsVolumes keys := rfl
    have hrec : (lockBalances st keys).txRecs = st.txRecs := rfl
    rw [hav, hrec]
    rcases get?_lockAll inv.wf keys k with h | ⟨h1, h2⟩
    · rw [h]; exact inv.av k
    · left
      rcases inv.av k with h3 | ⟨_, h4⟩
      · rw [h1] at h3; simp at h3
      · rw [h2]
        have : volumesOf st.txRecs k = Volumes.zero := foldVolumes_untouched h4
        rw [this]
  · intro s
    show netIn s (lockAll st.accountsVolumes keys) = 0
    rw [netIn_lockAll]; exact inv.net s

def setReverted (id : Nat) (a : Int) (r : TxRow) : TxRow :=
  if r.tx.id = id ∧ r.tx.revertedAt = none then { r with tx := { r.tx with revertedAt := some a } } else r

theorem setReverted_postings (id : Nat) (a : Int) (r : TxRow) : (setReverted id a r).tx.postings = r.tx.postings := by
  unfold setReverted; split <;> rfl
theorem setReverted_pcv (id : Nat) (a : Int) (r : TxRow) : (setReverted id a r).pcv = r.pcv := by
  unfold setReverted; split <;> rfl

theorem markReverted_txs (st : Store) (id : Nat) (a : Int) :
    (markReverted st id a).txs = st.txs.map (setReverted id a) := rfl

theorem txRecs_markReverted (st : Store) (id : Nat) (a : Int) :
    (markReverted st id a).txRecs = st.txRecs.map (fun t => (setReverted id a ⟨t, []⟩).tx) := by
  simp only [Store.txRecs, markReverted_txs, List.map_map]
  apply List.map_congr_left
  intro r _
  simp only [Function.comp, setReverted]
  split <;> rfl

theorem StoreInv_markReverted {st : Store} (inv : StoreInv st) (id : Nat) (a : Int) :
    StoreInv (markReverted st id a) := by
  have hp : ∀ t : TxRec, ((setReverted id a ⟨t, []⟩).tx).postings = t.postings := by
    intro t; exact setReverted_postings id a ⟨t, []⟩
  refine ⟨inv.wf, ?_, ?_, inv.net⟩
  · intro k
    rw [txRecs_markReverted]
    unfold volumesOf
    rw [allPostings_map_congr _ hp]
    exact inv.av k
  · intro i hi k
    rw [txRecs_markReverted]
    have hi' : i < st.txs.length := by simpa [markReverted_txs] using hi
    simp only [markReverted_txs, List.getElem_map, setReverted_postings, setReverted_pcv]
    unfold volumesOf
    rw [← List.map_take, allPostings_map_congr _ hp]
    exact inv.pcv i hi' k

theorem StoreInv_applyOp {st st' : Store} (inv : StoreInv st) (o : StoreOp) (h : applyOp st o = .ok st') :
    StoreInv st' := by
  cases o with
  | commit t => exact StoreInv_applyTx inv t h
  | lock keys => simp only [applyOp] at h; cases h; exact StoreInv_lock inv keys
  | markReverted id a => simp only [applyOp] at h; cases h; exact StoreInv_markReverted inv id a
  | saveAccountMeta a at_ md => simp only [applyOp] at h; cases h; exact ⟨inv.wf, inv.av, inv.pcv, inv.net⟩

theorem applyOp_total (st : Store) (o : StoreOp) : ∃ st', applyOp st o = .ok st' := by
  cases o with
  | commit t => obtain ⟨m, a, h⟩ := applyTx_ok (st := st) t; exact ⟨_, h⟩
  | lock keys => exact ⟨_, rfl⟩
  | markReverted id a => exact ⟨_, rfl⟩
  | saveAccountMeta a at_ md => exact ⟨_, rfl⟩

theorem runOpsFrom_total (ops : List StoreOp) (st : Store) : ∃ st', runOpsFrom st ops = .ok st' := by
  induction ops generalizing st with
  | nil => exact ⟨st, rfl⟩
  | cons o os ih =>
    obtain ⟨s1, h1⟩ := applyOp_total st o
    obtain ⟨s2, h2⟩ := ih s1
    exact ⟨s2, by simp [runOpsFrom, h1, h2]⟩

theorem StoreInv_runOpsFrom (ops : List StoreOp) {st st' : Store} (inv : StoreInv st)
    (h : runOpsFrom st ops = .ok st') : StoreInv st' := by
  induction ops generalizing st with
  | nil => simp only [runOpsFrom] at h; cases h; exact inv
  | cons o os ih =>
    simp only [runOpsFrom] at h
    cases h1 : applyOp st o with
    | error e => rw [h1] at h; simp at h
    | ok s1 => rw [h1] at h; exact ih (StoreInv_applyOp inv o h1) h

theorem StoreInv_runOps {ops : List StoreOp} {st : Store} (h : runOps ops = .ok st) : StoreInv st :=
  StoreInv_runOpsFrom ops StoreInv_empty h

end Ledger.Spec
