import Ledger.Proofs.CoreVolumes

/-! C03 algebra: the reverse-unwinding loop of `CommitTransaction` equals the forward
running fold; `SubtractPostings` undoes the transaction's own postings. -/
set_option linter.unusedSectionVars false
namespace Ledger.Core
open Ledger.Base Ledger.Spec

/-! ### pure forward application (proof device; keys assumed present) -/

def stepFwd (m : PCV) (p : Posting) : PCV :=
  (m.adjust p.srcKey (Volumes.addOut p.amount)).adjust p.dstKey (Volumes.addIn p.amount)

def applyFwd (m : PCV) (ps : List Posting) : PCV := ps.foldl stepFwd m

/-- every side of every posting has an entry -/
def HasKeys (m : PCV) (ps : List Posting) : Prop :=
  ∀ p ∈ ps, m.contains p.srcKey = true ∧ m.contains p.dstKey = true

/-- value at a key known to be present (proof device; never used on absent keys) -/
def vAt (m : PCV) (k : Key) : Volumes :=
  match m.get? k with
  | some v => v
  | none => Volumes.zero

def srcMove (p : Posting) (v : Volumes) : Move :=
  { account := p.source, asset := p.asset, amount := p.amount, isSource := true, pcv := v }
def dstMove (p : Posting) (v : Volumes) : Move :=
  { account := p.destination, asset := p.asset, amount := p.amount, isSource := false, pcv := v }

def fwdMoves : PCV → List Posting → List Move
  | _, [] => []
  | m, p :: ps =>
    srcMove p (vAt (m.adjust p.srcKey (Volumes.addOut p.amount)) p.srcKey) ::
    dstMove p (vAt (stepFwd m p) p.dstKey) :: fwdMoves (stepFwd m p) ps

theorem get?_of_contains {m : PCV} {k : Key} (h : m.contains k = true) : m.get? k = some (vAt m k) := by
  unfold Map.contains at h
  unfold vAt
  cases hg : m.get? k with
  | none => rw [hg] at h; simp at h
  | some v => rfl

@[simp] theorem contains_stepFwd (m : PCV) (p : Posting) (k : Key) :
    (stepFwd m p).contains k = m.contains k := by simp [stepFwd]

@[simp] theorem contains_applyFwd (m : PCV) (ps : List Posting) (k : Key) :
    (applyFwd m ps).contains k = m.contains k := by
  induction ps generalizing m with
  | nil => rfl
  | cons p ps ih => simp [applyFwd, List.foldl_cons] at *; rw [ih]; simp

theorem HasKeys_stepFwd {m : PCV} {ps : List Posting} (q : Posting) (h : HasKeys m ps) :
    HasKeys (stepFwd m q) ps := by
  intro p hp; simpa using h p hp

theorem HasKeys_cons {m : PCV} {p : Posting} {ps : List Posting} :
    HasKeys m (p :: ps) ↔ (m.contains p.srcKey = true ∧ m.contains p.dstKey = true) ∧ HasKeys m ps := by
  simp [HasKeys]

theorem HasKeys_append {m : PCV} {ps qs : List Posting} :
    HasKeys m (ps ++ qs) ↔ HasKeys m ps ∧ HasKeys m qs := by
  simp only [HasKeys, List.mem_append]
  constructor
  · intro h; exact ⟨fun p hp => h p (Or.inl hp), fun p hp => h p (Or.inr hp)⟩
  · rintro ⟨h1, h2⟩ p (hp | hp)
    · exact h1 p hp
    · exact h2 p hp

theorem applyFwd_append (m : PCV) (ps qs : List Posting) :
    applyFwd m (ps ++ qs) = applyFwd (applyFwd m ps) qs := by simp [applyFwd, List.foldl_append]

theorem fwdMoves_append (m : PCV) (ps : List Posting) (q : Posting) :
    fwdMoves m (ps ++ [q]) = fwdMoves m ps ++
      [srcMove q (vAt ((applyFwd m ps).adjust q.srcKey (Volumes.addOut q.amount)) q.srcKey),
       dstMove q (vAt (stepFwd (applyFwd m ps) q) q.dstKey)] := by
  induction ps generalizing m with
  | nil => simp [fwdMoves, applyFwd]
  | cons p ps ih =>
    simp only [List.cons_append, fwdMoves, ih, applyFwd, List.foldl_cons]

/-! ### the Except-valued functions agree with the pure ones when keys are present -/

theorem addOutput_ok {m : PCV} {a s : String} (x : Int) (h : m.contains (a, s) = true) :
    PCV.addOutput m a s x = .ok (m.adjust (a, s) (Volumes.addOut x)) := by simp [PCV.addOutput, h]

theorem addInput_ok {m : PCV} {a s : String} (x : Int) (h : m.contains (a, s) = true) :
    PCV.addInput m a s x = .ok (m.adjust (a, s) (Volumes.addIn x)) := by simp [PCV.addInput, h]

theorem runningMoves_eq {m : PCV} {ps : List Posting} (h : HasKeys m ps) :
    runningMoves m ps = .ok (fwdMoves m ps) := by
  induction ps generalizing m with
  | nil => rfl
  | cons p ps ih =>
    obtain ⟨⟨hs, hd⟩, hr⟩ := HasKeys_cons.mp h
    have hs' : m.contains (p.source, p.asset) = true := hs
    have hd1 : (m.adjust p.srcKey (Volumes.addOut p.amount)).contains (p.destination, p.asset) = true := by
      rw [Map.contains_adjust]; exact hd
    have hs2 : (m.adjust p.srcKey (Volumes.addOut p.amount)).contains p.srcKey = true := by simpa using hs
    have hd2 : (stepFwd m p).contains p.dstKey = true := by simpa using hd
    unfold runningMoves
    rw [addOutput_ok _ hs']
    simp only []
    rw [show ((p.source, p.asset) : Key) = p.srcKey from rfl, get?_of_contains hs2]
    simp only []
    rw [addInput_ok _ hd1]
    simp only []
    rw [show ((p.destination, p.asset) : Key) = p.dstKey from rfl]
    rw [show Map.adjust p.dstKey (Volumes.addIn p.amount) (Map.adjust p.srcKey (Volumes.addOut p.amount) m) = stepFwd m p from rfl]
    rw [get?_of_contains hd2]
    simp only []
    rw [ih (HasKeys_stepFwd p hr)]
    rfl

theorem applyPostings_eq {m : PCV} {ps : List Posting} (h : HasKeys m ps) :
    applyPostings m ps = .ok (applyFwd m ps) := by
  induction ps generalizing m with
  | nil => rfl
  | cons p ps ih =>
    obtain ⟨⟨hs, hd⟩, hr⟩ := HasKeys_cons.mp h
    have hs' : m.contains (p.source, p.asset) = true := hs
    have hd1 : (m.adjust p.srcKey (Volumes.addOut p.amount)).contains (p.destination, p.asset) = true := by
      rw [Map.contains_adjust]; exact hd
    unfold applyPostings
    rw [addOutput_ok _ hs']
    simp only []
    rw [show ((p.source, p.asset) : Key) = p.srcKey from rfl, addInput_ok _ hd1]
    simp only []
    rw [show ((p.destination, p.asset) : Key) = p.dstKey from rfl]
    rw [show Map.adjust p.dstKey (Volumes.addIn p.amount) (Map.adjust p.srcKey (Volumes.addOut p.amount) m) = stepFwd m p from rfl]
    rw [ih (HasKeys_stepFwd p hr)]
    rfl

/-! ### unwinding -/

theorem addIn_cancel (x : Int) (v : Volumes) : Volumes.addIn (-x) (Volumes.addIn x v) = v := by
  apply Volumes.ext' <;> simp only [Volumes.addIn] <;> omega
theorem addOut_cancel (x : Int) (v : Volumes) : Volumes.addOut (-x) (Volumes.addOut x v) = v := by
  apply Volumes.ext' <;> simp only [Volumes.addOut] <;> omega
theorem addIn_addOut_comm (x y : Int) (v : Volumes) :
    Volumes.addIn x (Volumes.addOut y v) = Volumes.addOut y (Volumes.addIn x v) := rfl
theorem addIn_addIn_comm (x y : Int) (v : Volumes) :
    Volumes.addIn x (Volumes.addIn y v) = Volumes.addIn y (Volumes.addIn x v) := by
  apply Volumes.ext' <;> simp only [Volumes.addIn] <;> omega
theorem addOut_addOut_comm (x y : Int) (v : Volumes) :
    Volumes.addOut x (Volumes.addOut y v) = Volumes.addOut y (Volumes.addOut x v) := by
  apply Volumes.ext' <;> simp only [Volumes.addOut] <;> omega

/-- One unwinding step undoes one forward step and yields the two moves of the posting. -/
theorem unwind_step {M : PCV} (q : Posting) (rest : List Posting)
    (hs : M.contains q.srcKey = true) (hd : M.contains q.dstKey = true) :
    unwind (stepFwd M q) (q :: rest) =
      match unwind M rest with
      | .error e => .error e
      | .ok r => .ok (dstMove q (vAt (stepFwd M q) q.dstKey) ::
                      srcMove q (vAt (M.adjust q.srcKey (Volumes.addOut q.amount)) q.srcKey) :: r) := by
  have hd2 : (stepFwd M q).contains q.dstKey = true := by simpa using hd
  have hs2 : (M.adjust q.srcKey (Volumes.addOut q.amount)).contains q.srcKey = true := by simpa using hs
  have e1 : Map.adjust q.dstKey (Volumes.addIn (-q.amount)) (stepFwd M q) =
      M.adjust q.srcKey (Volumes.addOut q.amount) := by
    unfold stepFwd
    exact Map.adjust_cancel _ _ _ (addIn_cancel _) _
  have e2 : Map.adjust q.srcKey (Volumes.addOut (-q.amount)) (M.adjust q.srcKey (Volumes.addOut q.amount)) = M :=
    Map.adjust_cancel _ _ _ (addOut_cancel _) _
  rw [unwind]
  rw [get?_of_contains hd2]
  simp only []
  rw [addInput_ok (m := stepFwd M q) (a := q.destination) (s := q.asset) _ hd2]
  simp only []
  rw [show ((q.destination, q.asset) : Key) = q.dstKey from rfl, e1, get?_of_contains hs2]
  simp only []
  rw [addOutput_ok (a := q.source) (s := q.asset) _ hs2]
  simp only []
  rw [show ((q.source, q.asset) : Key) = q.srcKey from rfl, e2]
  cases unwind M rest <;> rfl

theorem unwind_applyFwd (qs : List Posting) (m : PCV) (h : HasKeys m qs.reverse) :
    unwind (applyFwd m qs.reverse) qs = .ok (fwdMoves m qs.reverse).reverse := by
  induction qs with
  | nil => rfl
  | cons q qs ih =>
    rw [List.reverse_cons] at h ⊢
    obtain ⟨h1, h2⟩ := HasKeys_append.mp h
    obtain ⟨⟨hs, hd⟩, _⟩ := HasKeys_cons.mp h2
    rw [applyFwd_append]
    show unwind (stepFwd (applyFwd m qs.reverse) q) (q :: qs) = _
    rw [unwind_step q qs (by simpa using hs) (by simpa using hd), ih h1, fwdMoves_append]
    simp

/-- The reverse-unwinding loop equals the forward running fold. -/
theorem movesOf_applyFwd (m : PCV) (ps : List Posting) (h : HasKeys m ps) :
    movesOf (applyFwd m ps) ps = .ok (fwdMoves m ps) := by
  unfold movesOf
  have := unwind_applyFwd ps.reverse m (by simpa using h)
  rw [List.reverse_reverse] at this
  rw [this]
  simp

/-! ### SubtractPostings -/

theorem adjust_stepFwd_comm (k : Key) (f : Volumes → Volumes)
    (hin : ∀ x v, f (Volumes.addIn x v) = Volumes.addIn x (f v))
    (hout : ∀ x v, f (Volumes.addOut x v) = Volumes.addOut x (f v))
    (m : PCV) (p : Posting) :
    Map.adjust k f (stepFwd m p) = stepFwd (Map.adjust k f m) p := by
  unfold stepFwd
  rw [Map.adjust_comm k p.dstKey f _ (hin _), Map.adjust_comm k p.srcKey f _ (hout _)]

theorem adjust_applyFwd_comm (k : Key) (f : Volumes → Volumes)
    (hin : ∀ x v, f (Volumes.addIn x v) = Volumes.addIn x (f v))
    (hout : ∀ x v, f (Volumes.addOut x v) = Volumes.addOut x (f v))
    (m : PCV) (ps : List Posting) :
    Map.adjust k f (applyFwd m ps) = applyFwd (Map.adjust k f m) ps := by
  induction ps generalizing m with
  | nil => rfl
  | cons p ps ih =>
    simp only [applyFwd, List.foldl_cons] at *
    rw [ih, adjust_stepFwd_comm k f hin hout]

theorem unstep_stepFwd (m : PCV) (p : Posting) :
    Map.adjust p.dstKey (Volumes.addIn (-p.amount))
      (Map.adjust p.srcKey (Volumes.addOut (-p.amount)) (stepFwd m p)) = m := by
  unfold stepFwd
  rw [Map.adjust_comm p.srcKey p.dstKey (Volumes.addOut (-p.amount)) (Volumes.addIn p.amount)
    (fun v => (addIn_addOut_comm _ _ v).symm)]
  rw [Map.adjust_cancel _ _ _ (addOut_cancel _), Map.adjust_cancel _ _ _ (addIn_cancel _)]

theorem subtractLoop_applyFwd (m : PCV) (ps : List Posting) (h : HasKeys m ps) :
    PCV.subtractLoop (applyFwd m ps) ps = .ok m := by
  induction ps generalizing m with
  | nil => rfl
  | cons p ps ih =>
    obtain ⟨⟨hs, hd⟩, hr⟩ := HasKeys_cons.mp h
    have hA : (applyFwd m (p :: ps)).contains (p.source, p.asset) = true := by
      rw [contains_applyFwd]; exact hs
    unfold PCV.subtractLoop
    rw [addOutput_ok _ hA]
    simp only [bind, Except.bind]
    have hB : (Map.adjust (p.source, p.asset) (Volumes.addOut (-p.amount)) (applyFwd m (p :: ps))).contains
        (p.destination, p.asset) = true := by
      rw [Map.contains_adjust, contains_applyFwd]; exact hd
    rw [addInput_ok _ hB]
    simp only []
    have e : Map.adjust (p.destination, p.asset) (Volumes.addIn (-p.amount))
        (Map.adjust (p.source, p.asset) (Volumes.addOut (-p.amount)) (applyFwd m (p :: ps))) = applyFwd m ps := by
      show Map.adjust p.dstKey _ (Map.adjust p.srcKey _ (applyFwd (stepFwd m p) ps)) = _
      rw [adjust_applyFwd_comm p.srcKey _ (fun x v => (addIn_addOut_comm x _ v).symm) (fun x v => addOut_addOut_comm _ x v),
          adjust_applyFwd_comm p.dstKey _ (fun x v => addIn_addIn_comm _ x v) (fun x v => addIn_addOut_comm _ x v),
          unstep_stepFwd]
    rw [e]
    exact ih m hr

/-- `SubtractPostings` of the forward-applied volumes gives back the starting volumes. -/
theorem subtractPostings_applyFwd (m : PCV) (ps : List Posting) (h : HasKeys m ps) :
    PCV.subtractPostings (applyFwd m ps) ps = .ok m := by
  unfold PCV.subtractPostings
  by_cases he : (applyFwd m ps).isEmpty = true
  · rw [if_pos he]
    have hm : m = [] := by
      cases m with
      | nil => rfl
      | cons e r =>
        exfalso
        have hc : (applyFwd (e :: r) ps).contains e.1 = true := by
          rw [contains_applyFwd]; simp [Map.contains, Map.get?]
        cases hx : applyFwd (e :: r) ps with
        | nil => rw [hx] at hc; simp [Map.contains] at hc
        | cons a b => rw [hx] at he; simp at he
    rw [hm]
  · rw [if_neg he]
    exact subtractLoop_applyFwd m ps h

/-! ### pointwise value of the forward application -/

theorem get?_stepFwd (m : PCV) (p : Posting) (k : Key) :
    (stepFwd m p).get? k = (m.get? k).map (fun v => v.add (foldVolumes k [p])) := by
  unfold stepFwd
  rw [Map.get?_adjust, Map.get?_adjust]
  cases hg : m.get? k with
  | none => by_cases h1 : k = p.dstKey <;> by_cases h2 : k = p.srcKey <;> simp [h1, h2]
  | some v =>
    by_cases h1 : k = p.dstKey
    · have h1' : p.dstKey = k := h1.symm
      by_cases h2 : k = p.srcKey
      · have h2' : p.srcKey = k := h2.symm
        simp only [if_pos h1, if_pos h2, Option.map_some, foldVolumes, inSum, outSum, if_pos h1', if_pos h2']
        congr 1
        apply Volumes.ext' <;> simp [Volumes.add, Volumes.addIn, Volumes.addOut]
      · have h2' : ¬ p.srcKey = k := fun e => h2 e.symm
        simp only [if_pos h1, if_neg h2, Option.map_some, foldVolumes, inSum, outSum, if_pos h1', if_neg h2']
        congr 1
        apply Volumes.ext' <;> simp [Volumes.add, Volumes.addIn]
    · have h1' : ¬ p.dstKey = k := fun e => h1 e.symm
      by_cases h2 : k = p.srcKey
      · have h2' : p.srcKey = k := h2.symm
        simp only [if_neg h1, if_pos h2, Option.map_some, foldVolumes, inSum, outSum, if_neg h1', if_pos h2']
        congr 1
        apply Volumes.ext' <;> simp [Volumes.add, Volumes.addOut]
      · have h2' : ¬ p.srcKey = k := fun e => h2 e.symm
        simp only [if_neg h1, if_neg h2, Option.map_some, foldVolumes, inSum, outSum, if_neg h1', if_neg h2']
        congr 1
        apply Volumes.ext' <;> simp [Volumes.add]

theorem foldVolumes_cons (k : Key) (p : Posting) (ps : List Posting) :
    foldVolumes k (p :: ps) = (foldVolumes k [p]).add (foldVolumes k ps) := by
  simp [foldVolumes, inSum, outSum, Volumes.add]

theorem Volumes.add_assoc (a b c : Volumes) : (a.add b).add c = a.add (b.add c) := by
  cases a; cases b; cases c; simp [Volumes.add]; omega

theorem get?_applyFwd (m : PCV) (ps : List Posting) (k : Key) :
    (applyFwd m ps).get? k = (m.get? k).map (fun v => v.add (foldVolumes k ps)) := by
  induction ps generalizing m with
  | nil =>
    simp [applyFwd, foldVolumes, inSum, outSum, Volumes.add]
  | cons p ps ih =>
    simp only [applyFwd, List.foldl_cons] at *
    rw [ih, get?_stepFwd, foldVolumes_cons k p ps]
    cases m.get? k <;> simp [Volumes.add_assoc]

theorem WF_applyFwd {m : PCV} (hw : Map.WF m) (ps : List Posting) : Map.WF (applyFwd m ps) := by
  induction ps generalizing m with
  | nil => exact hw
  | cons p ps ih =>
    simp only [applyFwd, List.foldl_cons] at *
    exact ih (Map.WF_adjust _ _ (Map.WF_adjust _ _ hw))

end Ledger.Core
