import Ledger.Proofs.QueryPaginateWalk
namespace Ledger.Query

/-- `BuildCursor` on a reverse page (`R` = the rows before the pagination id, nearest
    first). -/
theorem buildCursorCol_rev {φ : Type} (q : ColQuery φ) (o : Order) (R : List Row) (b : Int)
    (hrev : q.reverse = true) (hb : q.bottom = some b) :
    ∃ p, buildCursorCol q o (R.take (effPageSize q.pageSize + 1)) = .ok p ∧
      p.data = (R.take (effPageSize q.pageSize)).reverse ∧
      p.next = some { q with reverse := false } ∧
      (R.length ≤ effPageSize q.pageSize → p.previous = none) ∧
      (effPageSize q.pageSize < R.length →
        ∃ z, (R.take (effPageSize q.pageSize)).getLast? = some z ∧
          p.previous = some { q with paginationID := some z.key }) := by
  have hpos := effPageSize_pos q.pageSize
  by_cases hlen : R.length ≤ effPageSize q.pageSize
  · have htake : R.take (effPageSize q.pageSize + 1) = R := List.take_of_length_le (by omega)
    have htake' : R.take (effPageSize q.pageSize) = R := List.take_of_length_le hlen
    have hn : ¬ (R.length > effPageSize q.pageSize) := by omega
    unfold buildCursorCol
    simp only [htake, htake', hrev, hn, decide_false, Bool.false_eq_true, ↓reduceIte, hb, firstBottom]
    refine ⟨_, rfl, rfl, ?_, fun _ => rfl, fun h => by first | exact h.elim | omega⟩
    obtain ⟨ps, ord, bot, pid, rev, rest⟩ := q
    simp only at hb; subst hb; rfl
  · have hlt : effPageSize q.pageSize < R.length := by omega
    obtain ⟨y, B, hsplit, htake, _⟩ := take_succ_split R (effPageSize q.pageSize) hlt
    have hAlen : (R.take (effPageSize q.pageSize)).length = effPageSize q.pageSize := by
      rw [List.length_take]; omega
    have hAne : R.take (effPageSize q.pageSize) ≠ [] := by
      intro h; rw [h] at hAlen; simp at hAlen; omega
    obtain ⟨z, hz⟩ : ∃ z, (R.take (effPageSize q.pageSize)).getLast? = some z := by
      cases h : (R.take (effPageSize q.pageSize)).getLast? with
      | none => exact absurd (List.getLast?_eq_none_iff.mp h) hAne
      | some z => exact ⟨z, rfl⟩
    unfold buildCursorCol
    rw [htake]
    have hmore : (R.take (effPageSize q.pageSize) ++ [y]).length > effPageSize q.pageSize := by
      simp [hAlen]
    have hidx : ((R.take (effPageSize q.pageSize) ++ [y]).map (·.key))[((R.take (effPageSize q.pageSize) ++ [y]).map (·.key)).length - 2]? = some z.key := by
      simp only [List.map_append, List.map_cons, List.map_nil, List.length_append, List.length_map,
        List.length_cons, List.length_nil, hAlen]
      have h1 : effPageSize q.pageSize + (0 + 1) - 2 = effPageSize q.pageSize - 1 := by omega
      rw [h1, List.getElem?_append_left (by simp [hAlen]; omega)]
      rw [List.getLast?_eq_getElem?] at hz
      simp only [List.getElem?_map, hAlen] at *
      rw [hz]; rfl
    simp only [hrev, hmore, decide_true, ↓reduceIte, hidx, hb, firstBottom, List.dropLast_concat]
    refine ⟨_, rfl, rfl, ?_, fun h => by omega, fun _ => ⟨z, hz, ?_⟩⟩
    · obtain ⟨ps, ord, bot, pid, rev, rest⟩ := q
      simp only at hb; subst hb; rfl
    · obtain ⟨ps, ord, bot, pid, rev, rest⟩ := q
      simp only at hb; subst hb; rfl


/-- The `previous` cursor of a forward page. -/
theorem buildCursorCol_fwd_prev {φ : Type} (q : ColQuery φ) (o : Order) (ret : List Row) (pid b : Int)
    (hrev : q.reverse = false) (hpid : q.paginationID = some pid) (hb : q.bottom = some b) :
    ∃ p, buildCursorCol q o ret = .ok p ∧
      p.previous = if o.lt b pid then some { q with reverse := true } else none := by
  unfold buildCursorCol
  simp only [hrev, hpid, hb, firstBottom, Bool.false_eq_true, ↓reduceIte]
  refine ⟨_, rfl, ?_⟩
  obtain ⟨ps, ord, bot, pid', rev, rest⟩ := q
  simp only at hb hpid hrev; subst hb; subst hpid; subst hrev
  cases o <;> simp [Order.lt, gt_iff_lt]

/-- **The previous cursor of a forward page leads to the page before.**
    `pre` are the rows before the current page (in the requested order), `x` its first
    row, `b` the first key of the whole listing (`bottom`, fixed on the first page). -/
theorem page_previous {φ : Type} (o : Order) (T : List Row) (hT : KeysDistinct T)
    (q : ColQuery φ) (pre suf : List Row) (x : Row) (b : Int)
    (hS : orderBy o T = pre ++ x :: suf) (ho : q.order = some o) (hrev : q.reverse = false)
    (hpid : q.paginationID = some x.key) (hb : q.bottom = some b)
    (hbot : ∀ y ∈ (pre ++ [x]).head?, b = y.key) :
    ∃ p, paginateCol q T = .ok p ∧
      (pre = [] → p.previous = none) ∧
      (pre ≠ [] → ∃ qp pp, p.previous = some qp ∧ paginateCol qp T = .ok pp ∧
        pp.data = pre.drop (pre.length - effPageSize q.pageSize) ∧ pp.next = some q ∧
        (pre.length ≤ effPageSize q.pageSize → pp.previous = none) ∧
        (effPageSize q.pageSize < pre.length →
          ∃ z, (pre.drop (pre.length - effPageSize q.pageSize)).head? = some z ∧
            pp.previous = some { qp with paginationID := some z.key })) := by
  obtain ⟨p, hp, hprev⟩ := buildCursorCol_fwd_prev q o
    (fetchCol o q.reverse q.paginationID q.pageSize T) x.key b hrev hpid hb
  refine ⟨p, by simp [paginateCol, ho, hp], ?_, ?_⟩
  · intro hpre
    subst hpre
    have : b = x.key := hbot x (by simp)
    rw [hprev, this]; simp [o.lt_irrefl]
  · intro hpre
    obtain ⟨y, pre', rfl⟩ := List.exists_cons_of_ne_nil hpre
    have hby : b = y.key := hbot y (by simp)
    have hstrict := strictSorted_orderBy o T hT
    rw [hS] at hstrict
    have hlt : o.lt b x.key := by
      unfold StrictSorted at hstrict
      rw [List.pairwise_append] at hstrict
      rw [hby]
      exact hstrict.2.2 y (List.mem_cons_self) x (List.mem_cons_self)
    rw [if_pos hlt] at hprev
    let qp : ColQuery φ := { q with reverse := true }
    obtain ⟨pp, hpp, hdata, hnext, hnone, hsome⟩ :=
      buildCursorCol_rev qp o (y :: pre').reverse b rfl hb
    refine ⟨qp, pp, hprev, ?_, ?_, ?_, ?_, ?_⟩
    · have h1 : paginateCol qp T = buildCursorCol qp o (fetchCol o true (some x.key) q.pageSize T) := by
        simp [paginateCol, qp, ho, hpid]
      rw [h1, fetchCol_rev o T hT q.pageSize (y :: pre') suf x hS]
      exact hpp
    · rw [hdata]
      simp only [qp]
      rw [List.take_reverse, List.reverse_reverse]
    · rw [hnext]
      simp only [qp]
      obtain ⟨ps, ord, bot, pid', rev, rest⟩ := q
      simp only at hrev; subst hrev; rfl
    · intro h
      exact hnone (by simpa using h)
    · intro h
      obtain ⟨z, hz, hzp⟩ := hsome (by simpa using h)
      refine ⟨z, ?_, hzp⟩
      simp only [qp] at hz
      rw [List.take_reverse, List.getLast?_reverse] at hz
      simpa using hz

end Ledger.Query
