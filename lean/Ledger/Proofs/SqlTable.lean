import Ledger.Proofs.SqlStore

/-!
# Generic facts on tables, views and row versions (any table)
-/
namespace Ledger.Sql

/-- the view of the running (sub-)statement -/
def cv (s : St) : View := { xid := s.xid, cid := s.cid, snap := s.snap }

/-- Hypotheses on the state in which a statement runs, independent of any table: inside a
    transaction, alone (no other transaction in progress), with the READ COMMITTED snapshot of the
    current world, no EvalPlanQual re-check pending. -/
structure TxState (s : St) : Prop where
  solo : ∀ x ∈ s.w.active, x = s.xid
  xid : s.xid ≠ 0
  cid : s.cid < 1000000000
  snap : s.snap = { xip := s.w.active.filter (· != s.xid), xmax := s.w.nextXid }
  noEpq : s.epq = none
  /-- table names are unique in the catalogue -/
  names : (s.w.tables.map (·.name)).Nodup

/-- nothing has been written under the running command id yet -/
def Fresh (xid cid : Nat) (rows : List Ver) : Prop :=
  ∀ r ∈ rows, (r.xmin = xid → r.cmin < cid) ∧ (r.xmax = xid → r.cmax < cid)

theorem xidVisible_cv_latest (s : St) (hs : TxState s) (x c : Nat) (h : x = s.xid → c < s.cid) :
    xidVisible (cv s) x c = xidVisible (latestView s.w s.xid) x c := by
  unfold xidVisible cv latestView
  simp only [hs.snap]
  by_cases h0 : x = 0
  · simp [h0]
  · by_cases h1 : x = s.xid
    · have := h h1
      have hc := hs.cid
      simp [h0, h1, this]
      omega
    · simp [h0, h1]

/-- at the start of a command, the statement's view and the "latest" view agree on every version -/
theorem visible_cv_latest (s : St) (hs : TxState s) (rows : List Ver) (hf : Fresh s.xid s.cid rows) (r : Ver) (hr : r ∈ rows) :
    r.visible (cv s) = r.visible (latestView s.w s.xid) := by
  unfold Ver.visible
  rw [xidVisible_cv_latest s hs r.xmin r.cmin (hf r hr).1, xidVisible_cv_latest s hs r.xmax r.cmax (hf r hr).2]

theorem scan_eq (t : Table) (v : View) : t.scan v = (t.rows.filter (fun r => r.visible v)).reverse := by
  unfold Table.scan
  have : ∀ (rows acc : List Ver), rows.foldl (fun acc r => if r.visible v then r :: acc else acc) acc =
      (rows.filter (fun r => r.visible v)).reverse ++ acc := by
    intro rows
    induction rows with
    | nil => intro acc; rfl
    | cons r rs ih =>
      intro acc
      simp only [List.foldl_cons, List.filter_cons]
      cases r.visible v <;> simp [ih]
  simpa using this t.rows []

/-- the scope a target row of UPDATE / DELETE is evaluated in -/
def rowScopeOf (t : Table) (alias : String) (r : Ver) : Scope :=
  { alias := alias, cols := t.colNames, vals := r.vals, src := some (t.name, r.rid) }

theorem exec_scanTable (s : St) (hs : TxState s) (t : Table) (a : String) :
    (scanTable t a).exec s = (.ok ((t.scan (cv s)).map (rowScopeOf t a)), s) := by
  simp [scanTable, exec_bind, hs.noEpq, cv, rowScopeOf]

theorem exec_heldByOther (s : St) (hs : TxState s) (r : Ver) : (heldByOther r).exec s = (.ok none, s) :=
  exec_heldByOther_solo s hs.solo r

/-- among the versions visible to the transaction now, a row id identifies the version -/
def RidInj (lv : View) (rows : List Ver) : Prop :=
  ∀ r1 ∈ rows, ∀ r2 ∈ rows, r1.visible lv = true → r2.visible lv = true → r1.rid = r2.rid → r1 = r2

theorem exec_latestVersion (s : St) (t : Table) (r : Ver) (hr : r ∈ t.rows) (hv : r.visible (latestView s.w s.xid) = true)
    (hinj : RidInj (latestView s.w s.xid) t.rows) :
    (latestVersion t r.rid).exec s = (.ok (some r), s) := by
  simp only [latestVersion, exec_bind, exec_get, exec_pure]
  have : t.rows.find? (fun x => x.rid == r.rid && x.visible (latestView s.w s.xid)) = some r := by
    cases hf : t.rows.find? (fun x => x.rid == r.rid && x.visible (latestView s.w s.xid)) with
    | none =>
      have := List.find?_eq_none.mp hf r hr
      simp [hv] at this
    | some x =>
      have hx := List.find?_some hf
      have hmem := List.mem_of_find?_eq_some hf
      simp only [Bool.and_eq_true, beq_iff_eq] at hx
      rw [hinj x hmem r hr hx.2 hv hx.1]
  rw [this]


/-! ### unique-index scans, for any table -/

theorem inProgressOther_solo' (xid : Nat) (active : List Nat) (hsolo : ∀ x ∈ active, x = xid) (x : Nat) :
    inProgressOther xid active x = false := by
  unfold inProgressOther
  by_cases h : active.contains x = true
  · have : x = xid := hsolo x (by simpa using h)
    simp [this]
  · simp at h; simp [h]

/-- `scanConflict` when the outcome of `keyMatches` is known for every scanned row -/
theorem exec_scanConflict_gen (t : Table) (idx : UniqueIdx) (key : List Value) (ex : Option Nat) (lv : View) (xid : Nat)
    (active : List Nat) (hsolo : ∀ x ∈ active, x = xid) (s : St) (km : Ver → Bool) (rows : List Ver)
    (hkm : ∀ r ∈ rows, r.visible lv = true → (some r.rid == ex) = false → (keyMatches t idx key r).exec s = (.ok (km r), s)) :
    (scanConflict t idx key ex lv xid active rows).exec s =
      (.ok (rows.find? (fun r => !(some r.rid == ex) && (r.visible lv && km r))), s) := by
  induction rows with
  | nil => simp [scanConflict]
  | cons r rest ih =>
    have ih' := ih (fun x hx => hkm x (by simp [hx]))
    rw [scanConflict]
    simp only [inProgressOther_solo' xid active hsolo, Bool.false_and, Bool.or_false, List.find?_cons]
    by_cases h1 : (some r.rid == ex) = true
    · simp [h1, ih']
    · have h1' : (some r.rid == ex) = false := by simpa using h1
      simp only [h1', Bool.false_eq_true, if_false, Bool.not_false, Bool.true_and]
      cases hv : r.visible lv
      · simp [ih']
      · simp only [Bool.not_true, Bool.false_eq_true, if_false, exec_bind, hkm r (by simp) hv h1', Bool.true_and]
        cases hk : km r
        · simp [ih']
        · simp

end Ledger.Sql
