import Ledger.Proofs.CoreTxPcev

/-! C03 at move level in every reachable store (`PCV_Inv`), and the C05 insertion-mode read:
    the latest move inserted at or before a point in time carries the fold up to it. -/
set_option linter.unusedSectionVars false
namespace Ledger.Spec
open Ledger.Base Ledger.Core

def moveDelta (m : Move) : Volumes := if m.isSource then ⟨0, m.amount⟩ else ⟨m.amount, 0⟩

/-- running check of a list of moves against per-key volumes `f` -/
def runOK (f : Key → Volumes) : List Move → Prop
  | [] => True
  | m :: r => m.pcv = (f m.key).add (moveDelta m) ∧ runOK (fun k => if k = m.key then m.pcv else f k) r

theorem vAt_adjust {m : PCV} {k : Key} (g : Volumes → Volumes) (hc : m.contains k = true) (k' : Key) :
    vAt (m.adjust k g) k' = if k' = k then g (vAt m k) else vAt m k' := by
  unfold vAt
  rw [Map.get?_adjust]
  by_cases h : k' = k
  · subst h
    simp only [if_true]
    have := get?_of_contains hc
    rw [this]; rfl
  · simp only [if_neg h]

theorem runOK_fwdMoves {pre : PCV} {ps : List Posting} (h : HasKeys pre ps) : runOK (vAt pre) (fwdMoves pre ps) := by
  induction ps generalizing pre with
  | nil => trivial
  | cons p ps ih =>
    obtain ⟨⟨hs, hd⟩, hr⟩ := HasKeys_cons.mp h
    have hd1 : (pre.adjust p.srcKey (Volumes.addOut p.amount)).contains p.dstKey = true := by
      rw [Map.contains_adjust]; exact hd
    have f1 : (fun k => if k = p.srcKey then vAt (pre.adjust p.srcKey (Volumes.addOut p.amount)) p.srcKey else vAt pre k) =
        vAt (pre.adjust p.srcKey (Volumes.addOut p.amount)) := by
      funext k
      rw [vAt_adjust _ hs k]
      by_cases hk : k = p.srcKey
      · subst hk; simp [vAt_adjust _ hs]
      · simp [hk]
    have f2 : (fun k => if k = p.dstKey then vAt (stepFwd pre p) p.dstKey else vAt (pre.adjust p.srcKey (Volumes.addOut p.amount)) k) =
        vAt (stepFwd pre p) := by
      funext k
      unfold stepFwd
      rw [vAt_adjust _ hd1 k]
      by_cases hk : k = p.dstKey
      · subst hk; simp [vAt_adjust _ hd1]
      · simp [hk]
    show runOK (vAt pre) (srcMove p _ :: dstMove p _ :: fwdMoves (stepFwd pre p) ps)
    refine ⟨?_, ?_, ?_⟩
    · show vAt (pre.adjust p.srcKey (Volumes.addOut p.amount)) p.srcKey = (vAt pre p.srcKey).add ⟨0, p.amount⟩
      rw [vAt_adjust _ hs]; simp [Volumes.addOut, Volumes.add]
    · show vAt (stepFwd pre p) p.dstKey =
        ((fun k => if k = p.srcKey then vAt (pre.adjust p.srcKey (Volumes.addOut p.amount)) p.srcKey else vAt pre k) p.dstKey).add
          ⟨p.amount, 0⟩
      rw [f1]
      unfold stepFwd
      rw [vAt_adjust _ hd1]; simp [Volumes.addIn, Volumes.add]
    · show runOK (fun k => if k = p.dstKey then vAt (stepFwd pre p) p.dstKey else
          (fun k => if k = p.srcKey then vAt (pre.adjust p.srcKey (Volumes.addOut p.amount)) p.srcKey else vAt pre k) k)
        (fwdMoves (stepFwd pre p) ps)
      rw [f1, f2]
      exact ih (HasKeys_stepFwd p hr)

/-! ### the numbered table -/

abbrev QRow := Move × Nat

def qsum (k : Key) (l : List QRow) : Volumes := vsum ((l.filter (fun y => y.1.key == k)).map (fun y => moveDelta y.1))

def PCVq (l : List QRow) : Prop :=
  ∀ x ∈ l, x.1.pcv = vsum ((l.filter (fun y => y.1.key == x.1.key && decide (y.2 ≤ x.2))).map (fun y => moveDelta y.1))

def number : Nat → List Move → List QRow
  | _, [] => []
  | s, m :: ms => (m, s) :: number (s + 1) ms

theorem qsum_append (k : Key) (a b : List QRow) : qsum k (a ++ b) = (qsum k a).add (qsum k b) := by
  simp [qsum, List.filter_append, vsum_append]

theorem PCVq_number (ms : List Move) (s0 : Nat) (Tq : List QRow) (f : Key → Volumes)
    (hT : PCVq Tq) (hb : ∀ y ∈ Tq, y.2 < s0) (hf : ∀ x ∈ ms, f x.key = qsum x.key Tq) (hr : runOK f ms) :
    PCVq (Tq ++ number s0 ms) := by
  induction ms generalizing s0 Tq f with
  | nil => simpa [number] using hT
  | cons m ms ih =>
    obtain ⟨hm, hrest⟩ := hr
    have hfm := hf m List.mem_cons_self
    have e : Tq ++ number s0 (m :: ms) = (Tq ++ [(m, s0)]) ++ number (s0 + 1) ms := by simp [number]
    rw [e]
    apply ih (s0 + 1) (Tq ++ [(m, s0)]) _ ?_ ?_ ?_ hrest
    · -- PCVq of the table with the new row
      intro x hx
      rw [List.filter_append, List.map_append, vsum_append]
      rcases List.mem_append.mp hx with hx | hx
      · have hlt := hb x hx
        have : [(m, s0)].filter (fun y : QRow => y.1.key == x.1.key && decide (y.2 ≤ x.2)) = [] := by
          simp only [List.filter_cons, List.filter_nil]
          have : ¬ s0 ≤ x.2 := by omega
          simp [this]
        rw [this, hT x hx]
        simp [vsum, Volumes.add_zero]
      · simp only [List.mem_singleton] at hx
        subst hx
        have h1 : Tq.filter (fun y : QRow => y.1.key == m.key && decide (y.2 ≤ s0)) = Tq.filter (fun y : QRow => y.1.key == m.key) := by
          apply filter_congr'
          intro y hy
          have := hb y hy
          have : y.2 ≤ s0 := by omega
          simp [this]
        simp only [h1, List.filter_cons, List.filter_nil, beq_self_eq_true, Nat.le_refl, decide_true, Bool.and_self,
          if_true, List.map_cons, List.map_nil, vsum]
        rw [hm, hfm]
        simp [qsum, Volumes.add_zero]
    · intro y hy
      rcases List.mem_append.mp hy with hy | hy
      · have := hb y hy; omega
      · simp only [List.mem_singleton] at hy; subst hy; simp
    · intro x hx
      have hfx := hf x (List.mem_cons_of_mem _ hx)
      rw [qsum_append]
      by_cases hk : x.key = m.key
      · simp only [hk, if_true]
        rw [hm, hfm]
        simp [qsum, vsum, Volumes.add_zero]
      · simp only [if_neg hk, hfx]
        have : (m.key == x.key) = false := by
          simp only [beq_eq_false_iff_ne, ne_eq]; exact fun e => hk e.symm
        simp [qsum, this, vsum, Volumes.add_zero]


/-! ### lifting to the moves table -/

def MoveRow.q (r : MoveRow) : QRow := (r.toMove, r.seq)

theorem q_bumpAll (rs : List MoveRow) (m : MoveRow) : (bumpAll rs m).q = m.q := by
  induction rs generalizing m with
  | nil => rfl
  | cons r rs ih =>
    have : bumpAll (r :: rs) m = bumpAll rs (bump r m) := rfl
    rw [this, ih]
    unfold bump; split <;> rfl

theorem q_insertMoves (table news : List MoveRow) :
    (insertMoves table news).map MoveRow.q = table.map MoveRow.q ++ news.map MoveRow.q := by
  unfold insertMoves
  rw [insertPhase2_eq, insertPhase1_eq, List.map_map]
  have : (MoveRow.q ∘ bumpAll (insertedRows table news)) = MoveRow.q := by
    funext m; exact q_bumpAll _ m
  rw [this, List.map_append]
  congr 1
  clear this
  induction news generalizing table with
  | nil => rfl
  | cons n ns ih => simp only [insertedRows, List.map_cons]; rw [ih]; rfl

theorem q_toRows (s0 txId : Nat) (ins eff : Int) (ms : List Move) (h : ∀ x ∈ ms, x.pcev = none) :
    (toRows s0 txId ins eff ms).map MoveRow.q = number s0 ms := by
  induction ms generalizing s0 with
  | nil => rfl
  | cons m ms ih =>
    simp only [toRows, List.map_cons, number]
    rw [ih _ (fun x hx => h x (List.mem_cons_of_mem _ hx))]
    congr 1
    have := h m List.mem_cons_self
    cases m
    simp only [MoveRow.q, MoveRow.toMove] at *
    simp [this]

theorem qfilter_eq (table : List MoveRow) (P : QRow → Bool) :
    vsum (((table.map MoveRow.q).filter P).map (fun y => moveDelta y.1)) =
      sumDeltas (table.filter (fun r => P r.q)) := by
  rw [sumDeltas_eq_vsum, List.filter_map, List.map_map]
  rfl

theorem PCV_Inv_iff (table : List MoveRow) : PCV_Inv table ↔ PCVq (table.map MoveRow.q) := by
  unfold PCV_Inv PCVq
  constructor
  · intro h x hx
    obtain ⟨r, hr, rfl⟩ := List.mem_map.mp hx
    rw [qfilter_eq]
    exact h r hr
  · intro h r hr
    have := h r.q (List.mem_map_of_mem hr)
    rw [qfilter_eq] at this
    exact this

theorem qsum_eq (table : List MoveRow) (k : Key) :
    qsum k (table.map MoveRow.q) = movesVolumesP (fun _ _ _ => true) k table := by
  unfold qsum movesVolumesP
  rw [qfilter_eq]
  congr 1
  apply filter_congr'
  intro r _
  simp [MoveRow.q, MoveRow.toMove, Move.key, MoveRow.key]

theorem key_fwdMoves {pre : PCV} {ps : List Posting} {x : Move} (h : x ∈ fwdMoves pre ps) : touches x.key ps = true := by
  induction ps generalizing pre with
  | nil => simp [fwdMoves] at h
  | cons p ps ih =>
    simp only [fwdMoves, List.mem_cons] at h
    rcases h with rfl | rfl | h
    · simp [touches, srcMove, Move.key, Posting.srcKey]
    · simp [touches, dstMove, Move.key, Posting.dstKey]
    · have := ih h
      simp only [touches, List.any_cons] at this ⊢
      simp [this]

/-- everything known about a reachable store, bundled -/
structure BigInv (st : Store) : Prop where
  store : StoreInv st
  content : MovesContent st
  ord : TableOrd st
  pcvInv : PCV_Inv st.moves

theorem vAt_preVolumes {st : Store} (inv : StoreInv st) (ps : List Posting) {k : Key} (hk : touches k ps = true) :
    vAt (preVolumes st.accountsVolumes (volumeUpdates ps)) k = volumesOf st.txRecs k := by
  unfold vAt preVolumes
  rw [Map.get?_mapVal, get?_volumeUpdates, hk]
  simp only [if_true, Option.map_some]
  rcases inv.av k with h | ⟨h, hn⟩
  · rw [h]
  · rw [h]
    exact (foldVolumes_untouched hn).symm

theorem BigInv_applyOp {st st' : Store} (inv : BigInv st) (o : StoreOp) (h : applyOp st o = .ok st') : BigInv st' := by
  refine ⟨StoreInv_applyOp inv.store o h, MovesContent_applyOp inv.content o h, TableOrd_applyOp inv.ord o h, ?_⟩
  cases o with
  | lock keys => simp only [applyOp] at h; cases h; exact inv.pcvInv
  | markReverted id a => simp only [applyOp] at h; cases h; exact inv.pcvInv
  | saveAccountMeta a at_ md => simp only [applyOp] at h; cases h; exact inv.pcvInv
  | commit t =>
    simp only [applyOp] at h
    unfold applyTx at h
    simp only [movesOf_returned] at h
    cases h
    show PCV_Inv (insertMoves _ _)
    rw [PCV_Inv_iff, q_insertMoves, q_toRows _ _ _ _ _ (pcev_none_fwdMoves _ _)]
    apply PCVq_number _ _ _ (vAt (preVolumes st.accountsVolumes (volumeUpdates t.postings)))
    · exact (PCV_Inv_iff _).mp inv.pcvInv
    · intro y hy
      obtain ⟨r, hr, rfl⟩ := List.mem_map.mp hy
      exact (inv.ord.bound r.st2 (List.mem_map_of_mem hr)).1
    · intro x hx
      rw [vAt_preVolumes inv.store _ (key_fwdMoves hx), qsum_eq]
      have := sigVolumesP_recsSigs (fun _ _ _ => true) x.key st.txRecs
      rw [movesVolumesP_eq, inv.content, this]
      have hft : st.txRecs.filter (fun _ => true) = st.txRecs := List.filter_eq_self.mpr (fun _ _ => rfl)
      rw [hft]
    · exact runOK_fwdMoves (hasKeys_preVolumes _ _)

theorem BigInv_runOpsFrom (ops : List StoreOp) {st st' : Store} (inv : BigInv st)
    (h : runOpsFrom st ops = .ok st') : BigInv st' := by
  induction ops generalizing st with
  | nil => simp only [runOpsFrom] at h; cases h; exact inv
  | cons o os ih =>
    simp only [runOpsFrom] at h
    cases h1 : applyOp st o with
    | error e => rw [h1] at h; simp at h
    | ok s1 => rw [h1] at h; exact ih (BigInv_applyOp inv o h1) h

theorem BigInv_runOps {ops : List StoreOp} {st : Store} (h : runOps ops = .ok st) : BigInv st :=
  BigInv_runOpsFrom ops ⟨StoreInv_empty, by simp [MovesContent, Store.txRecs, recsSigs],
    ⟨by simp, by intro p hp; simp at hp⟩, by intro m hm; simp at hm⟩ h


/-! ### the latest move inserted at or before `pit` -/

theorem lastInsertionMove_none {t : List MoveRow} {k : Key} {pit : Int} (h : lastInsertionMove t k pit = none) :
    ∀ c ∈ t, ¬ (c.key = k ∧ c.insertionDate ≤ pit) := by
  induction t with
  | nil => intro c hc; simp at hc
  | cons m r ih =>
    unfold lastInsertionMove at h
    by_cases hc : m.key = k ∧ m.insertionDate ≤ pit
    · rw [if_pos hc] at h
      cases hp : lastInsertionMove r k pit with
      | none => rw [hp] at h; simp at h
      | some b => rw [hp] at h; simp at h
    · rw [if_neg hc] at h
      intro c hcm
      rcases List.mem_cons.mp hcm with rfl | hcm
      · exact hc
      · exact ih h c hcm

theorem lastInsertionMove_some {t : List MoveRow} {k : Key} {pit : Int} {p : MoveRow}
    (h : lastInsertionMove t k pit = some p) :
    p ∈ t ∧ p.key = k ∧ p.insertionDate ≤ pit ∧
    ∀ c ∈ t, c.key = k → c.insertionDate ≤ pit → c.seq ≤ p.seq := by
  induction t generalizing p with
  | nil => simp [lastInsertionMove] at h
  | cons m r ih =>
    unfold lastInsertionMove at h
    by_cases hc : m.key = k ∧ m.insertionDate ≤ pit
    · rw [if_pos hc] at h
      cases hp : lastInsertionMove r k pit with
      | none =>
        rw [hp] at h
        simp only [Option.some.injEq] at h
        subst h
        refine ⟨List.mem_cons_self, hc.1, hc.2, ?_⟩
        intro c hcm hk hb
        rcases List.mem_cons.mp hcm with rfl | hcm
        · exact Nat.le_refl _
        · exact absurd ⟨hk, hb⟩ (lastInsertionMove_none hp c hcm)
      | some b =>
        rw [hp] at h
        simp only [Option.some.injEq] at h
        obtain ⟨hb1, hb2, hb3, hb4⟩ := ih hp
        by_cases hmb : m.seq < b.seq
        · rw [if_pos hmb] at h
          subst h
          refine ⟨List.mem_cons_of_mem _ hb1, hb2, hb3, ?_⟩
          intro c hcm hk hb
          rcases List.mem_cons.mp hcm with rfl | hcm
          · omega
          · exact hb4 c hcm hk hb
        · rw [if_neg hmb] at h
          subst h
          refine ⟨List.mem_cons_self, hc.1, hc.2, ?_⟩
          intro c hcm hk hb
          rcases List.mem_cons.mp hcm with rfl | hcm
          · exact Nat.le_refl _
          · have := hb4 c hcm hk hb; omega
    · rw [if_neg hc] at h
      obtain ⟨hb1, hb2, hb3, hb4⟩ := ih h
      refine ⟨List.mem_cons_of_mem _ hb1, hb2, hb3, ?_⟩
      intro c hcm hk hb
      rcases List.mem_cons.mp hcm with rfl | hcm
      · exact absurd ⟨hk, hb⟩ hc
      · exact hb4 c hcm hk hb

/-- C05, insertion-date mode: when insertion dates never decrease along the commit order, the
    post-commit volumes of the latest move inserted at or before `pit` are the fold of the
    postings of the transactions inserted at or before `pit`. -/
theorem insertionVolumesAt_eq_fold {ops : List StoreOp} {st : Store} (h : runOps ops = .ok st)
    (hmono : st.txRecs.Pairwise (fun a b => a.insertedAt ≤ b.insertedAt)) (k : Key) (pit : Int) :
    insertionVolumesAt st.moves k pit = volumesAt st.txRecs { pit := some pit } .insertion k := by
  have big := BigInv_runOps h
  rw [← movesWindowVolumes_eq_fold h]
  have hsel : ∀ m : MoveRow, (m.key == k && Window.contains { pit := some pit } (m.date .insertion)) = true ↔
      (m.key = k ∧ m.insertionDate ≤ pit) := by
    intro m
    simp only [Window.contains, MoveRow.date, Bool.true_and, Bool.and_eq_true, beq_iff_eq]
    constructor
    · rintro ⟨a, b⟩; exact ⟨a, of_decide_eq_true b⟩
    · rintro ⟨a, b⟩; exact ⟨a, decide_eq_true b⟩
  unfold insertionVolumesAt movesWindowVolumes
  cases hl : lastInsertionMove st.moves k pit with
  | none =>
    simp only []
    have : st.moves.filter (fun m => m.key == k && Window.contains { pit := some pit } (m.date .insertion)) = [] := by
      rw [List.filter_eq_nil_iff]
      intro m hm hc
      exact lastInsertionMove_none hl m hm ((hsel m).mp hc)
    rw [this]; rfl
  | some L =>
    simp only []
    obtain ⟨hLm, hLk, hLp, hLmax⟩ := lastInsertionMove_some hl
    rw [big.pcvInv L hLm]
    congr 1
    apply filter_congr'
    intro m hm
    rw [Bool.eq_iff_iff, hsel m]
    simp only [Bool.and_eq_true, beq_iff_eq, decide_eq_true_eq, hLk]
    -- transactions of the two rows
    have rowTx : ∀ r ∈ st.moves, ∃ t ∈ st.txRecs, r.insertionDate = t.insertedAt ∧ r.txId = t.id := by
      intro r hr
      have : r.sig ∈ recsSigs st.txRecs := by rw [← big.content]; exact List.mem_map_of_mem hr
      obtain ⟨t, ht, h1, _, h3, _⟩ := mem_recsSigs this
      exact ⟨t, ht, h1, h3⟩
    have hids : st.txRecs.Pairwise (fun a b => a.id < b.id) := by
      have hh := (runOpsFrom_txs ops h).1
      have hpw := (recsFrom_ids 1 (commitsOf ops)).1
      have hm' : st.txRecs.map TxRec.clearReverted = recsFrom 1 (commitsOf ops) := by simpa [Store.txRecs] using hh
      rw [← hm', List.pairwise_map] at hpw
      exact hpw
    constructor
    · rintro ⟨hk, hle⟩
      refine ⟨hk, ?_⟩
      obtain ⟨tm, htm, him, hidm⟩ := rowTx m hm
      obtain ⟨tL, htL, hiL, hidL⟩ := rowTx L hLm
      have htx : m.txId ≤ L.txId := by
        apply Classical.byContradiction
        intro hgt
        have := big.ord.seq_of_tx hLm hm (by omega)
        omega
      have := pairwise_tri (hids.and hmono) htm htL
      rcases this with e | r | r
      · rw [him, e, ← hiL]; exact hLp
      · have := r.2; rw [him]; rw [hiL] at hLp; omega
      · have := r.1; omega
    · rintro ⟨hk, hle⟩
      exact ⟨hk, hLmax m hm hk hle⟩

end Ledger.Spec
