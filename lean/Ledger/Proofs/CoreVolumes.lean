import Ledger.Proofs.CoreMap
import Ledger.Spec.Store

/-! Algebra of `volumeUpdates` (C01 / C02): sums and pointwise characterisation. -/
set_option linter.unusedSectionVars false
namespace Ledger.Core
open Ledger.Base Ledger.Spec

theorem Volumes.ext' {a b : Volumes} (h1 : a.input = b.input) (h2 : a.output = b.output) : a = b := by
  cases a; cases b; simp_all

/-- Input part of `groupVolumes account g`. -/
def inPart (a : String) : List Posting → Int
  | [] => 0
  | p :: ps => (if a = p.destination then p.amount else 0) + inPart a ps

def outPart (a : String) : List Posting → Int
  | [] => 0
  | p :: ps => (if a = p.source then p.amount else 0) + outPart a ps

theorem volStep_input (a : String) (v : Volumes) (p : Posting) :
    (volStep a v p).input = v.input + (if a = p.destination then p.amount else 0) := by
  unfold volStep
  by_cases h2 : a = p.destination
  · simp only [if_pos h2]
    by_cases h1 : a = p.source <;> simp [h1, Volumes.addIn, Volumes.addOut]
  · simp only [if_neg h2]
    by_cases h1 : a = p.source <;> simp [h1, Volumes.addOut]

theorem volStep_output (a : String) (v : Volumes) (p : Posting) :
    (volStep a v p).output = v.output + (if a = p.source then p.amount else 0) := by
  unfold volStep
  by_cases h2 : a = p.destination
  · simp only [if_pos h2]
    by_cases h1 : a = p.source <;> simp [h1, Volumes.addIn, Volumes.addOut]
  · simp only [if_neg h2]
    by_cases h1 : a = p.source <;> simp [h1, Volumes.addOut]

theorem foldl_volStep (a : String) (g : List Posting) (v : Volumes) :
    g.foldl (volStep a) v = ⟨v.input + inPart a g, v.output + outPart a g⟩ := by
  induction g generalizing v with
  | nil => simp [inPart, outPart]
  | cons p g ih =>
    simp only [List.foldl_cons, ih, inPart, outPart, volStep_input, volStep_output]
    apply Volumes.ext' <;> simp only [] <;> omega

theorem groupVolumes_eq (a : String) (g : List Posting) :
    groupVolumes a g = ⟨inPart a g, outPart a g⟩ := by
  simp [groupVolumes, foldl_volStep, Volumes.zero]

theorem inPart_append (a : String) (g h : List Posting) : inPart a (g ++ h) = inPart a g + inPart a h := by
  induction g with
  | nil => simp [inPart]
  | cons p g ih => simp only [List.cons_append, inPart, ih]; omega

theorem outPart_append (a : String) (g h : List Posting) : outPart a (g ++ h) = outPart a g + outPart a h := by
  induction g with
  | nil => simp [outPart]
  | cons p g ih => simp only [List.cons_append, outPart, ih]; omega

/-! ### sums over the entries of `volumeUpdates` -/

def mIn (s : String) : Key → List Posting → Int := fun k g => if k.2 = s then inPart k.1 g else 0
def mOut (s : String) : Key → List Posting → Int := fun k g => if k.2 = s then outPart k.1 g else 0

theorem sumBy_mIn_groupStep (s : String) (m : Groups) (p : Posting) :
    Map.sumBy (mIn s) (groupStep m p) = Map.sumBy (mIn s) m + (if p.asset = s then p.amount else 0) := by
  have hadd : ∀ (k : Key) (o : List Posting), mIn s k (o ++ [p]) = mIn s k o + mIn s k [p] := by
    intro k o; unfold mIn; split <;> simp [inPart_append]
  unfold groupStep
  by_cases hsd : p.source = p.destination
  · simp only [hsd, if_true]
    rw [Map.sumBy_insertWith _ _ _ _ _ (hadd _)]
    simp [mIn, Posting.srcKey, inPart, hsd]
  · simp only [if_neg hsd]
    rw [Map.sumBy_insertWith _ _ _ _ _ (hadd _), Map.sumBy_insertWith _ _ _ _ _ (hadd _)]
    have : ¬ p.destination = p.source := fun e => hsd e.symm
    simp [mIn, Posting.srcKey, Posting.dstKey, inPart, hsd]

theorem sumBy_mOut_groupStep (s : String) (m : Groups) (p : Posting) :
    Map.sumBy (mOut s) (groupStep m p) = Map.sumBy (mOut s) m + (if p.asset = s then p.amount else 0) := by
  have hadd : ∀ (k : Key) (o : List Posting), mOut s k (o ++ [p]) = mOut s k o + mOut s k [p] := by
    intro k o; unfold mOut; split <;> simp [outPart_append]
  unfold groupStep
  by_cases hsd : p.source = p.destination
  · simp only [hsd, if_true]
    rw [Map.sumBy_insertWith _ _ _ _ _ (hadd _)]
    simp [mOut, Posting.srcKey, outPart, hsd]
  · simp only [if_neg hsd]
    rw [Map.sumBy_insertWith _ _ _ _ _ (hadd _), Map.sumBy_insertWith _ _ _ _ _ (hadd _)]
    have : ¬ p.destination = p.source := fun e => hsd e.symm
    simp [mOut, Posting.srcKey, Posting.dstKey, outPart, this]

theorem sumBy_mIn_foldl (s : String) (ps : List Posting) (m : Groups) :
    Map.sumBy (mIn s) (ps.foldl groupStep m) = Map.sumBy (mIn s) m + assetTotal s ps := by
  induction ps generalizing m with
  | nil => simp [assetTotal]
  | cons p ps ih => simp only [List.foldl_cons, ih, sumBy_mIn_groupStep, assetTotal]; omega

theorem sumBy_mOut_foldl (s : String) (ps : List Posting) (m : Groups) :
    Map.sumBy (mOut s) (ps.foldl groupStep m) = Map.sumBy (mOut s) m + assetTotal s ps := by
  induction ps generalizing m with
  | nil => simp [assetTotal]
  | cons p ps ih => simp only [List.foldl_cons, ih, sumBy_mOut_groupStep, assetTotal]; omega

theorem inputsIn_volumeUpdates (s : String) (ps : List Posting) :
    inputsIn s (volumeUpdates ps) = assetTotal s ps := by
  unfold inputsIn volumeUpdates
  rw [Map.sumBy_mapVal]
  rw [Map.sumBy_congr _ (mIn s) _ (by intro k v; simp [mIn, groupVolumes_eq])]
  simpa [Map.sumBy, groupPostings] using sumBy_mIn_foldl s ps []

theorem outputsIn_volumeUpdates (s : String) (ps : List Posting) :
    outputsIn s (volumeUpdates ps) = assetTotal s ps := by
  unfold outputsIn volumeUpdates
  rw [Map.sumBy_mapVal]
  rw [Map.sumBy_congr _ (mOut s) _ (by intro k v; simp [mOut, groupVolumes_eq])]
  simpa [Map.sumBy, groupPostings] using sumBy_mOut_foldl s ps []

/-! ### pointwise characterisation -/

def ptouch (k : Key) (p : Posting) : Bool := p.srcKey = k || p.dstKey = k

def touching (k : Key) (ps : List Posting) : List Posting := ps.filter (ptouch k)

/-- bucket content, `[]` when the bucket does not exist -/
def glist (m : Groups) (k : Key) : List Posting :=
  match m.get? k with
  | some g => g
  | none => []

theorem WF_groupStep {m : Groups} (hw : Map.WF m) (p : Posting) : Map.WF (groupStep m p) := by
  unfold groupStep
  by_cases hsd : p.source = p.destination
  · simp only [hsd, if_true]; exact Map.WF_insertWith _ _ _ hw
  · simp only [if_neg hsd]; exact Map.WF_insertWith _ _ _ (Map.WF_insertWith _ _ _ hw)

theorem WF_foldl_groupStep (ps : List Posting) {m : Groups} (hw : Map.WF m) :
    Map.WF (ps.foldl groupStep m) := by
  induction ps generalizing m with
  | nil => exact hw
  | cons p ps ih => exact ih (WF_groupStep hw p)

theorem srcKey_eq_dstKey_iff (p : Posting) : p.srcKey = p.dstKey ↔ p.source = p.destination := by
  simp [Posting.srcKey, Posting.dstKey]

theorem get?_groupStep {m : Groups} (hw : Map.WF m) (p : Posting) (k : Key) :
    (groupStep m p).get? k = if ptouch k p then some (glist m k ++ [p]) else m.get? k := by
  unfold groupStep
  by_cases hsd : p.source = p.destination
  · have hk : p.dstKey = p.srcKey := ((srcKey_eq_dstKey_iff p).mpr hsd).symm
    simp only [hsd, if_true, Map.get?_insertWith _ _ _ hw, ptouch, glist, hk, Bool.or_self,
      decide_eq_true_eq]
    by_cases h : k = p.srcKey
    · subst h; simp; cases m.get? p.srcKey <;> simp
    · have : ¬ p.srcKey = k := fun e => h e.symm
      simp [h, this]
  · have hne : p.srcKey ≠ p.dstKey := fun e => hsd ((srcKey_eq_dstKey_iff p).mp e)
    have hne' : p.dstKey ≠ p.srcKey := fun e => hne e.symm
    simp only [if_neg hsd, Map.get?_insertWith _ _ _ (Map.WF_insertWith _ _ _ hw),
      Map.get?_insertWith _ _ _ hw, ptouch, glist, if_neg hne', Bool.or_eq_true, decide_eq_true_eq]
    by_cases h1 : k = p.dstKey
    · subst h1
      simp
      cases m.get? p.dstKey <;> simp
    · have h1' : ¬ p.dstKey = k := fun e => h1 e.symm
      by_cases h2 : k = p.srcKey
      · subst h2
        simp [h1]
        cases m.get? p.srcKey <;> simp
      · have h2' : ¬ p.srcKey = k := fun e => h2 e.symm
        simp [h1, h2, h1', h2']

theorem glist_groupStep {m : Groups} (hw : Map.WF m) (p : Posting) (k : Key) :
    glist (groupStep m p) k = glist m k ++ (if ptouch k p then [p] else []) := by
  unfold glist
  rw [get?_groupStep hw]
  by_cases h : ptouch k p = true
  · simp [h, glist]
  · simp [h]

theorem isSome_groupStep {m : Groups} (hw : Map.WF m) (p : Posting) (k : Key) :
    ((groupStep m p).get? k).isSome = ((m.get? k).isSome || ptouch k p) := by
  rw [get?_groupStep hw]
  by_cases h : ptouch k p = true
  · simp [h]
  · simp [h]

theorem glist_foldl (ps : List Posting) {m : Groups} (hw : Map.WF m) (k : Key) :
    glist (ps.foldl groupStep m) k = glist m k ++ touching k ps := by
  induction ps generalizing m with
  | nil => simp [touching]
  | cons p ps ih =>
    simp only [List.foldl_cons]
    rw [ih (WF_groupStep hw p), glist_groupStep hw]
    simp only [touching, List.filter_cons]
    by_cases h : ptouch k p = true
    · simp [h]
    · simp [h]

theorem isSome_foldl (ps : List Posting) {m : Groups} (hw : Map.WF m) (k : Key) :
    ((ps.foldl groupStep m).get? k).isSome = ((m.get? k).isSome || touches k ps) := by
  induction ps generalizing m with
  | nil => simp [touches]
  | cons p ps ih =>
    simp only [List.foldl_cons]
    rw [ih (WF_groupStep hw p), isSome_groupStep hw]
    simp [touches, ptouch, Bool.or_assoc]

theorem get?_groupPostings (ps : List Posting) (k : Key) :
    (groupPostings ps).get? k = if touches k ps then some (touching k ps) else none := by
  have h1 := glist_foldl ps (Map.WF_nil (κ := Key) (ν := List Posting)) k
  have h2 := isSome_foldl ps (Map.WF_nil (κ := Key) (ν := List Posting)) k
  unfold groupPostings
  simp only [glist, Map.get?_nil, List.nil_append, Option.isSome_none, Bool.false_or] at h1 h2
  cases hg : (List.foldl groupStep [] ps).get? k with
  | none => rw [hg] at h2; simp at h2; simp [← h2]
  | some g => rw [hg] at h1 h2; simp at h1 h2; simp [← h2, h1]

theorem ptouch_asset {k : Key} {p : Posting} (h : ptouch k p = true) : p.asset = k.2 := by
  simp only [ptouch, Posting.srcKey, Posting.dstKey, Bool.or_eq_true] at h
  rcases h with h | h <;> (have h := of_decide_eq_true h; subst h; rfl)

theorem inPart_touching (k : Key) (ps : List Posting) : inPart k.1 (touching k ps) = inSum k ps := by
  induction ps with
  | nil => rfl
  | cons p ps ih =>
    simp only [touching, List.filter_cons, inSum]
    by_cases h : ptouch k p = true
    · have ha := ptouch_asset h
      simp only [h, if_true, inPart]
      simp only [touching] at ih
      rw [ih]
      have : (k.1 = p.destination) ↔ (p.dstKey = k) := by
        constructor
        · intro e; exact Prod.ext e.symm ha
        · intro e; simp [← e, Posting.dstKey]
      by_cases hd : p.dstKey = k
      · simp [hd, this.mpr hd]
      · have : ¬ k.1 = p.destination := fun e => hd (this.mp e)
        simp [hd, this]
    · have hd : ¬ p.dstKey = k := by
        intro e; apply h; simp [ptouch, e]
      simp only [touching] at ih
      simp [h, hd, ih]

theorem outPart_touching (k : Key) (ps : List Posting) : outPart k.1 (touching k ps) = outSum k ps := by
  induction ps with
  | nil => rfl
  | cons p ps ih =>
    simp only [touching, List.filter_cons, outSum]
    by_cases h : ptouch k p = true
    · have ha := ptouch_asset h
      simp only [h, if_true, outPart]
      simp only [touching] at ih
      rw [ih]
      have : (k.1 = p.source) ↔ (p.srcKey = k) := by
        constructor
        · intro e; exact Prod.ext e.symm ha
        · intro e; simp [← e, Posting.srcKey]
      by_cases hd : p.srcKey = k
      · simp [hd, this.mpr hd]
      · have : ¬ k.1 = p.source := fun e => hd (this.mp e)
        simp [hd, this]
    · have hd : ¬ p.srcKey = k := by
        intro e; apply h; simp [ptouch, e]
      simp only [touching] at ih
      simp [h, hd, ih]

/-- `volumeUpdates` holds exactly the touched (account, asset) pairs, each with
    (Σ amounts crediting it, Σ amounts debiting it). -/
theorem get?_volumeUpdates (ps : List Posting) (k : Key) :
    (volumeUpdates ps).get? k = if touches k ps then some (foldVolumes k ps) else none := by
  unfold volumeUpdates
  rw [Map.get?_mapVal, get?_groupPostings]
  by_cases h : touches k ps = true
  · simp [h, groupVolumes_eq, inPart_touching, outPart_touching, foldVolumes]
  · simp [h]

theorem WF_volumeUpdates (ps : List Posting) : Map.WF (volumeUpdates ps) :=
  Map.WF_mapVal _ (WF_foldl_groupStep ps Map.WF_nil)

end Ledger.Core
