import Ledger.Proofs.SqlRunAccounts
import Ledger.Generated.ReadSql
import Ledger.Reads.Select
import Ledger.Query.Address

/-!
# Bounded SQL ↔ `Ledger.Reads` obligations: scenarios, worlds, answers

A *scenario* is a small sequential history (transactions with effective / insertion dates in
seconds, reverts). `sqlWorld` runs, on the ledger `ledger0` of the generated `addLedger` script (and
optionally on a sibling ledger `ledger1` of the same bucket), the statements the REAL store renders
for that history — `Ledger.Generated.WriteSql.P.{updateVolumes, insertTransactionWithID,
insertMoves, upsertAccounts, revertTransactionAt}` — through LeanPG (`Ledger.Sql.execTop`), so the
`moves` triggers and the metadata-history triggers of `Ledger.Generated.Schema` run. `specOf` is the
same history as a `Spec.Ledger`. The `check*` functions evaluate a regenerated READ statement of
`Ledger.Generated.ReadSql` on the world and compare with the answer `Ledger.Reads` computes from the
Spec history. They are used by `decide +kernel` in `Ledger/Props/C05q*.lean`: finite facts about
concrete worlds (bounded obligations), not general theorems.
-/
namespace Ledger.Reads.SqlRun
open Ledger Ledger.Sql Ledger.Sql.Run Ledger.Generated Ledger.Generated.WriteSql Ledger.Core Ledger.Base Ledger.Spec Ledger.Reads

/-- one write of a scenario -/
inductive SOp where
  /-- a transaction: postings, effective timestamp and insertion date in seconds, metadata -/
  | tx (postings : List Posting) (ts ins : Nat) (md : List (String × String))
  /-- revert of transaction `id` at `at_` seconds (not at its effective date): marks it and commits
      the reversed postings with timestamp = insertion date = `at_` -/
  | revert (id : Nat) (at_ : Nat)
  deriving Repr

abbrev Scenario := List SOp

/-! ### the Spec side -/

structure SpecState where
  store : Spec.Store := {}
  events : List Event := []

def specStep (s : SpecState) : SOp → SpecState
  | .tx ps ts ins md =>
    let tin : TxIn := { postings := ps, timestamp := tsMicros ts, insertedAt := tsMicros ins,
                        metadata := md.foldl (fun (m : Metadata) kv => Map.insert kv.1 kv.2 m) [] }
    match applyTx s.store tin with
    | .error _ => s
    | .ok st =>
      let rec_ : TxRec := { id := s.store.nextTxId, postings := ps, timestamp := tsMicros ts,
                            insertedAt := tsMicros ins, metadata := tin.metadata }
      { store := st, events := s.events ++ [Event.committed rec_ [] true] }
  | .revert id at_ =>
    match (s.store.txs.find? fun r => r.tx.id == id) with
    | none => s
    | some r =>
      let ps := reversePostings r.tx.postings
      let tin : TxIn := { postings := ps, timestamp := tsMicros at_, insertedAt := tsMicros at_, upsertAccounts := false }
      let st1 := markReverted s.store id (tsMicros at_)
      match applyTx st1 tin with
      | .error _ => s
      | .ok st =>
        let rec_ : TxRec := { id := st1.nextTxId, postings := ps, timestamp := tsMicros at_, insertedAt := tsMicros at_ }
        { store := st, events := s.events ++ [Event.reverted id (tsMicros at_), Event.committed rec_ [] false] }

def specRun (sc : Scenario) : SpecState := sc.foldl specStep {}

def specOf (sc : Scenario) : Spec.Ledger := { events := (specRun sc).events }

/-! ### the SQL side -/

def volText (v : Volumes) : String := "(" ++ toString v.input ++ "," ++ toString v.output ++ ")"

def strArr (l : List String) : String := "[" ++ ",".intercalate (l.map fun s => "\"" ++ s ++ "\"") ++ "]"

/-- The statements `CommitTransaction` (+ `upsertTransactionAccounts`) renders for transaction
    `id`: UpdateVolumes, InsertTransaction, InsertMoves (rows with the Go-computed post-commit
    volumes, here taken from the abstract store), UpsertAccounts. -/
def txStmts (ledger : String) (lid : Nat) (id : Nat) (ps : List Posting) (ts ins : Nat) (md : List (String × String))
    (moves : List Spec.MoveRow) (upsert : Bool) (av : Bool := false) : List Stmt :=
  (if av then P.updateVolumes "_default" ledger lid ((volumeUpdates ps).map fun e =>
      { accounts_address := e.1.1, asset := e.1.2, input_ := e.2.input, output_ := e.2.output }) else []) ++
  P.insertTransactionWithID "_default" ledger lid "[]" (mdJson md) (tsText ts) "" id (tsText ins) (tsText ins) "{}" ""
    (strArr (involvedAccounts ps)) (strArr (involvedAccounts ps)) "[]" "[]" ++
  P.insertMoves "_default" ledger lid ((moves.filter fun m => m.txId == id).map fun m =>
      { transactions_id := id, is_source := m.isSource, accounts_address := m.account, amount := m.amount, asset := m.asset,
        insertion_date := tsText ins, effective_date := tsText ts, post_commit_volumes := volText m.pcv }) ++
  (if upsert then
    P.upsertAccounts "_default" ledger lid (((List.range (involvedAccounts ps).length).zip (involvedAccounts ps)).map fun ia =>
      { address := ia.2, metadata := "{}", first_usage := tsText ts, insertion_date := tsText ins, updated_at := tsText ins,
        address_array := strArr ((Ledger.Query.segments ia.2.toList).map String.ofList), default_metadata := "{}", batch_index := toString ia.1 })
   else [])

/-- Only the statements that feed the `moves` table (and `accounts_volumes` when `av`): enough for
    the volumes / aggregated-balances shapes, and several times cheaper to evaluate in the kernel. -/
def txMovesStmts (ledger : String) (lid : Nat) (id : Nat) (ps : List Posting) (ts ins : Nat)
    (moves : List Spec.MoveRow) (av : Bool) : List Stmt :=
  (if av then P.updateVolumes "_default" ledger lid ((volumeUpdates ps).map fun e =>
      { accounts_address := e.1.1, asset := e.1.2, input_ := e.2.input, output_ := e.2.output }) else []) ++
  P.insertMoves "_default" ledger lid ((moves.filter fun m => m.txId == id).map fun m =>
      { transactions_id := id, is_source := m.isSource, accounts_address := m.account, amount := m.amount, asset := m.asset,
        insertion_date := tsText ins, effective_date := tsText ts, post_commit_volumes := volText m.pcv })

def scenarioMovesStmts (ledger : String) (lid : Nat) (av : Bool) (sc : Scenario) : List Stmt :=
  (sc.foldl (fun (acc : SpecState × List Stmt) op =>
    let s' := specStep acc.1 op
    let id := acc.1.store.nextTxId
    let stmts := match op with
      | .tx ps ts ins _ => txMovesStmts ledger lid id ps ts ins s'.store.moves av
      | .revert rid at_ =>
        match (acc.1.store.txs.find? fun r => r.tx.id == rid) with
        | none => []
        | some r => txMovesStmts ledger lid id (reversePostings r.tx.postings) at_ at_ s'.store.moves av
    (s', acc.2 ++ stmts)) ({}, [])).2

/-- All statements of a scenario on one ledger, using the abstract store for ids and post-commit volumes. -/
def scenarioStmts (ledger : String) (lid : Nat) (sc : Scenario) : List Stmt :=
  (sc.foldl (fun (acc : SpecState × List Stmt) op =>
    let s' := specStep acc.1 op
    let id := acc.1.store.nextTxId
    let stmts := match op with
      | .tx ps ts ins md => txStmts ledger lid id ps ts ins md s'.store.moves true
      | .revert rid at_ =>
        match (acc.1.store.txs.find? fun r => r.tx.id == rid) with
        | none => []
        | some r =>
          P.revertTransactionAt "_default" ledger lid rid (tsText at_) ++
          txStmts ledger lid id (reversePostings r.tx.postings) at_ at_ [] s'.store.moves false
    (s', acc.2 ++ stmts)) ({}, [])).2

/-- default feature values (those `addLedger` of `Generated.WriteSql` was captured with) -/
def defaultFeatures : List (String × String) :=
  [("MOVES_HISTORY", "ON"), ("MOVES_HISTORY_POST_COMMIT_EFFECTIVE_VOLUMES", "SYNC"), ("HASH_LOGS", "SYNC"),
   ("ACCOUNT_METADATA_HISTORY", "SYNC"), ("TRANSACTION_METADATA_HISTORY", "SYNC")]

/-- `bucket.AddLedger` for a second ledger `ledger1` (id 8) of the bucket, default features: the
    entries of the regenerated `ledgerSetups` whose feature requirements hold. -/
def addSibling : List Stmt :=
  ((Schema.ledgerSetups "_default" 8 "ledger1").filter fun e =>
    e.1.all fun kv => defaultFeatures.lookup kv.1 == some kv.2).flatMap (·.2)

/-- The world of a scenario; `sibling`: a second ledger of the same bucket holds another history
    (written first, so its rows precede in every table). -/
def sqlWorld (sibling : Option Scenario) (sc : Scenario) : Sql.World :=
  let w := match sibling with
    | none => w1
    | some sib => (run w1 (on 1 (addSibling ++ scenarioStmts "ledger1" 8 sib))).1
  (run w (on 1 (scenarioStmts "ledger0" 7 sc))).1

/-- The moves-only world (see `txMovesStmts`). -/
def movesWorld (sibling : Option Scenario) (av : Bool) (sc : Scenario) : Sql.World :=
  let w := match sibling with
    | none => w1
    | some sib => (run w1 (on 1 (addSibling ++ scenarioMovesStmts "ledger1" 8 av sib))).1
  (run w (on 1 (scenarioMovesStmts "ledger0" 7 av sc))).1

/-- outcomes of the write statements (all must be `ok`) -/
def writeOutcomes (sibling : Option Scenario) (sc : Scenario) : List String :=
  let pre := match sibling with
    | none => (w1, [])
    | some sib => run w1 (on 1 (addSibling ++ scenarioStmts "ledger1" 8 sib))
  ((pre.2 ++ (run pre.1 (on 1 (scenarioStmts "ledger0" 7 sc))).2).map (·.1)).filter fun o => o.toList.take 2 != ['o', 'k']

/-! ### answers -/

/-- the named columns of the answer of the LAST statement of a read call, as text rows -/
def answer (w : Sql.World) (stmts : List Stmt) (cols : List String) : List (List String) :=
  match stmts.getLast? with
  | none => [["no statement"]]
  | some s =>
    match (execTop w 9 s false none).2 with
    | .error e => [[toString e]]
    | .ok r => r.rows.map fun row => cols.map fun c => ((lookupIn r.cols row c).getD (.text "<missing column>")).toText

def volCols : List String := ["account", "asset", "input", "output", "balance"]

def volRowsText (t : PCV) : List (List String) :=
  t.map fun e => [e.1.1, e.1.2, toString e.2.input, toString e.2.output, toString e.2.balance]

def optTs (o : Option Nat) : Option Int := o.map tsMicros

/-- volumes listing over a window: regenerated statement vs `Reads.volumesTable` -/
def checkVolumes (w : Sql.World) (l : Spec.Ledger) (stmts : List Stmt) (pit oot : Option Nat) (ins : Bool) : Bool :=
  answer w stmts volCols ==
    volRowsText (if pit.isNone && oot.isNone then currentVolumes l.txs
                 else volumesTable l.txs { oot := optTs oot, pit := optTs pit } (dateMode ins))

/-- the `aggregated` jsonb of the aggregated-balances answer as (asset, input, output), sorted by asset -/
def aggOfValue : Value → List (String × Int × Int)
  | .json (.obj kvs) =>
    (kvs.foldl (fun (m : Map String (Int × Int)) kv => match kv with
      | .mk asset (.obj vs) =>
        let num (k : String) : Int := (vs.filterMap fun x => match x with | .mk k' (.num n) => if k' == k then some n else none | _ => none).headD 0
        Map.insert asset (num "input", num "output") m
      | _ => m) []).map fun e => (e.1, e.2.1, e.2.2)
  | _ => []

def aggAnswer (w : Sql.World) (stmts : List Stmt) : Option (List (String × Int × Int)) :=
  match stmts.getLast? with
  | none => none
  | some s =>
    match (execTop w 9 s false none).2 with
    | .error _ => none
    | .ok r => some (match r.rows with
      | [row] => aggOfValue ((lookupIn r.cols row "aggregated").getD .null)
      | _ => [])

/-- aggregated balances: regenerated statement vs `Reads.aggregate` of the table -/
def checkAggregated (w : Sql.World) (l : Spec.Ledger) (stmts : List Stmt) (pit : Option Nat) (ins : Bool) : Bool :=
  let rows (t : PCV) := t.map fun e => ({ account := e.1.1, asset := e.1.2, volumes := e.2 } : VolRow)
  let table := match pit with
    | some _ => volumesTable l.txs (pitWindow (optTs pit)) (dateMode ins)
    | none => currentVolumes l.txs
  aggAnswer w stmts == some ((aggregate (rows table)).map fun e => (e.1, e.2.input, e.2.output))

/-- transactions listing at `pit`: (id, timestamp µs, reverted_at µs or "", metadata) -/
def checkTransactions (w : Sql.World) (l : Spec.Ledger) (stmts : List Stmt) (feat : Features) (pit : Option Nat) : Bool :=
  match stmts.getLast? with
  | none => false
  | some s =>
    match (execTop w 9 s false none).2 with
    | .error _ => false
    | .ok r =>
      let got := r.rows.map fun row =>
        let f (c : String) := (lookupIn r.cols row c).getD .null
        (intOf (f "id"), intOf (f "timestamp"), optIntOf (f "reverted_at"), metadataOf (f "metadata"))
      -- default listing order: id descending
      got == ((transactionsAt feat l (optTs pit)).reverse.map fun v => ((v.id : Int), v.timestamp, v.revertedAt, v.metadata))

/-- accounts listing at `pit`: (address, first_usage, insertion_date, metadata) -/
def checkAccounts (w : Sql.World) (l : Spec.Ledger) (stmts : List Stmt) (feat : Features) (pit : Option Nat) : Bool :=
  match stmts.getLast? with
  | none => false
  | some s =>
    match (execTop w 9 s false none).2 with
    | .error _ => false
    | .ok r =>
      let got := r.rows.map fun row =>
        let f (c : String) := (lookupIn r.cols row c).getD .null
        ((f "address").toText, intOf (f "first_usage"), intOf (f "insertion_date"), metadataOf (f "metadata"))
      got == ((accountsAt feat l (optTs pit)).map fun v => (v.address, v.firstUsage, v.insertionDate, v.metadata))

/-- the per-asset volumes object of an expansion column as (asset, input, output) sorted by asset -/
def volsOfValue (v : Value) : Option (List (String × Int × Int)) :=
  match v with
  | .null => none
  | v => some (aggOfValue v)

/-- GetAccount with both expansions: (address, volumes, effective volumes) -/
def checkAccountExpand (w : Sql.World) (l : Spec.Ledger) (stmts : List Stmt) (pit : Option Nat) (a : String) : Bool :=
  match stmts.getLast? with
  | none => false
  | some s =>
    match (execTop w 9 s false none).2 with
    | .error _ => false
    | .ok r =>
      let got := r.rows.map fun row =>
        let f (c : String) := (lookupIn r.cols row c).getD .null
        ((f "address").toText, volsOfValue (f "volumes"), volsOfValue (f "effective_volumes"))
      let conv (o : Option (List (String × Volumes))) := o.map fun l => l.map fun e => (e.1, e.2.input, e.2.output)
      got == (((accountsAt {} l (optTs pit)).filter (·.address == a)).map fun v =>
        let x := expandAccount l (optTs pit) ["volumes", "effectiveVolumes"] v
        (x.address, conv x.volumes, conv x.effectiveVolumes))

end Ledger.Reads.SqlRun

namespace Ledger.Reads.SqlRun
open Ledger Ledger.Reads

/-! ### feature gates: the captured table against `Ledger.Reads` -/

def featOfTag : String → Features
  | "NoMetaHist" => { acctMetaHist := false, txMetaHist := false }
  | "NoPcev" => { pcev := false }
  | "NoMoves" => { moves := false, pcev := false }
  | _ => {}

def errTag : Except RErr Unit → String
  | .ok _ => ""
  | .error e => e.toString

/-- What `Ledger.Reads` says the code answers before any SQL for a captured shape. -/
def modelGate (shape : String) (feat : Features) : String :=
  let both := ["effectiveVolumes", "volumes"]
  let vol (pit oot : Option Int) (ins : Bool) := errTag ((volumesDataset feat {} pit oot ins).map fun _ => ())
  let agg (pit : Option Int) (ins : Bool) := errTag ((aggregatedDataset feat {} pit ins).map fun _ => ())
  match shape with
  | "volumesCurrent" => vol none none false
  | "volumesEffPit" => vol (some 0) none false
  | "volumesEffOot" => vol none (some 0) false
  | "volumesEffPitOot" => vol (some 0) (some 0) false
  | "volumesInsPit" => vol (some 0) none true
  | "volumesInsOot" => vol none (some 0) true
  | "volumesInsPitOot" => vol (some 0) (some 0) true
  | "aggregatedCurrent" => agg none false
  | "aggregatedEffPit" => agg (some 0) false
  | "aggregatedInsPit" => agg (some 0) true
  | "accountsPitExpand" | "accountGetPitExpand" => errTag (accountExpandCheck feat true both)
  | "accountGetCurrentExpand" => errTag (accountExpandCheck feat false both)
  | "transactionsPitExpand" => errTag (txExpandCheck feat both)
  | _ => ""

/-- every entry of the captured gate table is what the model says -/
def gatesAgree (gates : List (String × String × String)) : Bool :=
  gates.all fun g => modelGate g.1 (featOfTag g.2.1) == g.2.2

end Ledger.Reads.SqlRun

namespace Ledger.Reads.SqlRun
open Ledger Ledger.Sql Ledger.Sql.Run Ledger.Generated Ledger.Core Ledger.Spec Ledger.Reads

/-! ### shapes and scenario families used by `Props/C0?q*.lean` -/

/-- a volumes read: the regenerated statement and the window it must answer -/
inductive VolShape where
  | current
  | effPit (pit : Nat) | effOot (oot : Nat) | effPitOot (pit oot : Nat)
  | insPit (pit : Nat) | insOot (oot : Nat) | insPitOot (pit oot : Nat)
  deriving Repr

def checkVolShape (w : Sql.World) (l : Spec.Ledger) : VolShape → Bool
  | .current => checkVolumes w l (ReadSql.volumesCurrent "_default" "ledger0") none none false
  | .effPit p => checkVolumes w l (ReadSql.volumesEffPit "_default" "ledger0" (tsText p)) (some p) none false
  | .effOot o => checkVolumes w l (ReadSql.volumesEffOot "_default" "ledger0" (tsText o)) none (some o) false
  | .effPitOot p o => checkVolumes w l (ReadSql.volumesEffPitOot "_default" "ledger0" (tsText p) (tsText o)) (some p) (some o) false
  | .insPit p => checkVolumes w l (ReadSql.volumesInsPit "_default" "ledger0" (tsText p)) (some p) none true
  | .insOot o => checkVolumes w l (ReadSql.volumesInsOot "_default" "ledger0" (tsText o)) none (some o) true
  | .insPitOot p o => checkVolumes w l (ReadSql.volumesInsPitOot "_default" "ledger0" (tsText p) (tsText o)) (some p) (some o) true

inductive AggShape where
  | current | effPit (pit : Nat) | insPit (pit : Nat)
  deriving Repr

def checkAggShape (w : Sql.World) (l : Spec.Ledger) : AggShape → Bool
  | .current => checkAggregated w l (ReadSql.aggregatedCurrent "_default" "ledger0") none false
  | .effPit p => checkAggregated w l (ReadSql.aggregatedEffPit "_default" "ledger0" (tsText p)) (some p) false
  | .insPit p => checkAggregated w l (ReadSql.aggregatedInsPit "_default" "ledger0" (tsText p)) (some p) true

/-- every volumes / aggregated shape of the lists answers as `Ledger.Reads` says, on the moves-only
    world of the scenario (with `accounts_volumes` when `av`) -/
def checkMovesFamily (sibling : Option Scenario) (av : Bool) (sc : Scenario) (vs : List VolShape) (as : List AggShape) : Bool :=
  let w := movesWorld sibling av sc
  let l := specOf sc
  vs.all (checkVolShape w l) && as.all (checkAggShape w l)

/-- A: back-dated (tx 2), tied timestamps (tx 1 and 3), a repeated account and a self-posting in
    one transaction, two assets. -/
def scenA : Scenario := [
  .tx [⟨"world", "a", 10, "USD"⟩, ⟨"a", "b", 4, "USD"⟩] 5 7 [],
  .tx [⟨"a", "b", 3, "EUR"⟩, ⟨"a", "a", 1, "USD"⟩] 1 8 [],
  .tx [⟨"world", "a", 2, "USD"⟩] 5 9 []]

/-- B: a transaction dated after the next one, then reverted (not at its effective date). -/
def scenB : Scenario := [
  .tx [⟨"world", "a", 10, "USD"⟩] 6 4 [],
  .tx [⟨"a", "b", 4, "USD"⟩] 5 5 [],
  .revert 1 7]

/-- the sibling ledger of the bucket: same accounts and assets, other amounts and dates -/
def scenSib : Scenario := [.tx [⟨"world", "a", 1000, "USD"⟩, ⟨"world", "b", 77, "EUR"⟩] 2 3 []]

/-- C: two moves of (a, USD) at the same latest effective date 5 (tx 1 credits, tx 2 debits), then
    a transaction back-dated to 1 that the AFTER-INSERT trigger must propagate. -/
def scenC : Scenario := [
  .tx [⟨"world", "a", 10, "USD"⟩] 5 7 [],
  .tx [⟨"a", "b", 4, "USD"⟩] 5 8 [],
  .tx [⟨"b", "c", 1, "USD"⟩, ⟨"world", "c", 6, "EUR"⟩] 1 9 []]

/-- D: for the accounts / transactions listings: metadata, a back-dated transaction, a revert. -/
def scenD : Scenario := [
  .tx [⟨"world", "a", 10, "USD"⟩] 5 7 [("k", "v")],
  .tx [⟨"a", "b", 4, "USD"⟩] 1 8 [],
  .revert 1 9]

inductive ListShape where
  | txPit (pit : Nat) | txCurrent | acctPit (pit : Nat) | acctCurrent
  | acctGetPit (pit : Nat) (a : String) | acctGetCurrent (a : String)
  deriving Repr

def checkListShape (w : Sql.World) (l : Spec.Ledger) : ListShape → Bool
  | .txPit p => checkTransactions w l (ReadSql.transactionsPit "_default" "ledger0" (tsText p)) {} (some p)
  | .txCurrent => checkTransactions w l (ReadSql.transactionsCurrent "_default" "ledger0") {} none
  | .acctPit p => checkAccounts w l (ReadSql.accountsPit "_default" "ledger0" (tsText p)) {} (some p)
  | .acctCurrent => checkAccounts w l (ReadSql.accountsCurrent "_default" "ledger0") {} none
  | .acctGetPit p a => checkAccountExpand w l (ReadSql.accountGetPitExpand "_default" "ledger0" (tsText p) a) (some p) a
  | .acctGetCurrent a => checkAccountExpand w l (ReadSql.accountGetCurrentExpand "_default" "ledger0" a) none a

/-- the listing shapes on the full world of the scenario (transactions, moves, accounts and their
    metadata-history rows written by the regenerated triggers) -/
def checkFullFamily (sibling : Option Scenario) (sc : Scenario) (ls : List ListShape) : Bool :=
  let w := sqlWorld sibling sc
  let l := specOf sc
  ls.all (checkListShape w l)

end Ledger.Reads.SqlRun
