import Ledger.Gates.Shape
import Ledger.Generated.ReadShapes

/-! Helper for the theorems over the regenerated read-shape matrix: lift a
    kernel-decided fact about the chunked table to every code of the table. -/
namespace Ledger.GatesProps
open Ledger.Gates Ledger.Generated

theorem all_of_chunks (p : Nat → Bool)
    (h : (readShapeChunks.all fun ch => ch.all p) = true) :
    ∀ c ∈ readShapeCodes, p c = true := by
  intro c hc
  unfold readShapeCodes at hc
  obtain ⟨ch, hch, hcc⟩ := List.mem_flatten.mp hc
  have h1 := (List.all_eq_true.mp h) ch hch
  exact (List.all_eq_true.mp h1) c hcc

end Ledger.GatesProps
