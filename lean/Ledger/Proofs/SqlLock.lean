import Ledger.Proofs.SqlSelect
import Ledger.Proofs.SqlValues

/-!
# SELECT … FOR UPDATE: locking the returned rows
-/
namespace Ledger.Sql

/-- lock one returned row whose single source is the version `r` of table `t`: nothing changes but the lock -/
theorem exec_lockSources_single (n : Nat) (env : Env) (body : SetExpr) (o : OutRow) (full : String) (t : Table) (rows : List Ver)
    (s : St) (hs : TxState s) (hT : s.w.table? full = some (t.withRows rows)) (hname : t.name = full)
    (r : Ver) (hr : r ∈ rows) (hv : r.visible (latestView s.w s.xid) = true) (hinj : RidInj (latestView s.w s.xid) rows)
    (hsrc : o.srcs = [(full, r.rid)])
    (hloc : ∃ sc ∈ o.locals, sc.src = some (full, r.rid) ∧ sc.vals = r.vals) :
    (lockSources (n + 2) env body o o.srcs (some o)).exec s =
      (.ok (some o), s.withTable (t.withRows (rows.map (lockRow (latestView s.w s.xid) s.xid s.cid r.rid)))) := by
  rw [hsrc, lockSources]
  have hlat := exec_latestVersion s (t.withRows rows) r (by simpa using hr) hv (by simpa using hinj)
  have hlock : (lockVersion full r.rid).exec s = (.ok (), s.withTable (t.withRows (rows.map (lockRow (latestView s.w s.xid) s.xid s.cid r.rid)))) := by
    rw [exec_lockVersion hT]; rfl
  have hun : (o.locals.any (fun sc => sc.src == some (full, r.rid) && sc.vals == r.vals)) = true := by
    obtain ⟨sc, hmem, h1, h2⟩ := hloc
    rw [List.any_eq_true]
    exact ⟨sc, hmem, by simp [h1, h2]⟩
  simp only [exec_bind, exec_getTable hT, hlat, exec_heldByOther s hs, hlock, hun, Bool.not_true, Bool.false_eq_true, if_false]
  rw [lockSources]
  rfl


theorem lockRow_ne (lv : View) (xid cid rid : Nat) (r : Ver) (h : r.rid ≠ rid) : lockRow lv xid cid rid r = r := by
  unfold lockRow
  have : (r.rid == rid) = false := by simpa using h
  simp [this]

theorem RidInj_lock (lv : View) (xid cid rid : Nat) (rows : List Ver) (h : RidInj lv rows) :
    RidInj lv (rows.map (lockRow lv xid cid rid)) := by
  intro a ha b hb va vb e
  obtain ⟨a0, ha0, rfl⟩ := List.mem_map.mp ha
  obtain ⟨b0, hb0, rfl⟩ := List.mem_map.mp hb
  simp only [lockRow_visible, lockRow_rid] at va vb e
  rw [h a0 ha0 b0 hb0 va vb e]

/-- the source row id of an output row over one table -/
def srcRid (o : OutRow) : Nat := match o.srcs with | [(_, rid)] => rid | _ => 0

/-- the row versions after locking the listed row ids -/
def lockRun (lv : View) (xid cid : Nat) (rows : List Ver) (rids : List Nat) : List Ver :=
  rids.foldl (fun rs rid => rs.map (lockRow lv xid cid rid)) rows

/-- the FOR UPDATE loop over output rows that each come from one visible version of table `t` -/
theorem exec_lockLoop (n : Nat) (env : Env) (body : SetExpr) (full : String) (t : Table)
    (s0 : St) (hs : TxState s0) (rows0 : List Ver) (hT0 : s0.w.table? full = some (t.withRows rows0)) (hname : t.name = full) :
    ∀ (os : List OutRow) (rows : List Ver) (out : List OutRow),
      (∀ o ∈ os, ∃ r ∈ rows, r.visible (latestView s0.w s0.xid) = true ∧ o.srcs = [(full, r.rid)] ∧
        ∃ sc ∈ o.locals, sc.src = some (full, r.rid) ∧ sc.vals = r.vals) →
      (os.map srcRid).Nodup → RidInj (latestView s0.w s0.xid) rows →
      (os.foldlM (fun (out : List OutRow) o => do
          match ← lockSources (n + 2) env body o o.srcs (some o) with
          | some x => pure (out ++ [x])
          | none => pure out) out).exec (s0.withTable (t.withRows rows)) =
        (.ok (out ++ os), s0.withTable (t.withRows (lockRun (latestView s0.w s0.xid) s0.xid s0.cid rows (os.map srcRid)))) := by
  intro os
  induction os with
  | nil => intro rows out _ _ _; simp [lockRun]
  | cons o rest ih =>
    intro rows out hos hnd hinj
    obtain ⟨r, hr, hv, hsrc, hloc⟩ := hos o (by simp)
    have hnd' := List.nodup_cons.mp hnd
    have hsT : TxState (s0.withTable (t.withRows rows)) := hs.withTable _
    have hT : (s0.withTable (t.withRows rows)).w.table? full = some (t.withRows rows) := by
      have := withTable_table? s0 (t.withRows rows0) (t.withRows rows) (by rw [withRows_name, hname]; exact hT0)
      simpa [hname] using this
    have hstep := exec_lockSources_single n env body o full t rows (s0.withTable (t.withRows rows)) hsT hT hname r hr
      (by simpa using hv) (by simpa using hinj) hsrc hloc
    simp only [withTable_latestView, withTable_xid, withTable_cid] at hstep
    have hrid : srcRid o = r.rid := by simp [srcRid, hsrc]
    simp only [exec_foldlM_cons, exec_bind, hstep, exec_pure]
    rw [withTable_withTable _ _ _ (by simp)]
    have hrest : ∀ o' ∈ rest, ∃ r' ∈ rows.map (lockRow (latestView s0.w s0.xid) s0.xid s0.cid r.rid),
        r'.visible (latestView s0.w s0.xid) = true ∧ o'.srcs = [(full, r'.rid)] ∧
        ∃ sc ∈ o'.locals, sc.src = some (full, r'.rid) ∧ sc.vals = r'.vals := by
      intro o' ho'
      obtain ⟨r', hr', hv', hsrc', hloc'⟩ := hos o' (by simp [ho'])
      have hne : r'.rid ≠ r.rid := by
        intro e
        apply hnd'.1
        have : srcRid o' = srcRid o := by simp [srcRid, hsrc', hsrc, e]
        rw [← this]; exact List.mem_map_of_mem ho'
      exact ⟨r', List.mem_map.mpr ⟨r', hr', lockRow_ne _ _ _ _ _ hne⟩, hv', hsrc', hloc'⟩
    rw [ih _ _ hrest hnd'.2 (RidInj_lock _ _ _ _ _ hinj)]
    simp [lockRun, hrid, List.append_assoc]

/-- a query without CTEs and locking clause, `LIMIT k` -/
theorem exec_evalQuery_limit (n : Nat) (env : Env) (body : SetExpr) (order : List OrderItem) (k : Int) (hk : 0 ≤ k) (s s' : St)
    (cols : List String) (rows : List OutRow)
    (hset : (evalSetExpr (n + 1) env body order).exec s = (.ok (cols, rows), s')) :
    (evalQuery (n + 2) env (Query.mk [] body order (some (Expr.int k)) none LockMode.none)).exec s =
      (.ok { cols := cols, rows := (rows.take k.toNat).map (·.vals) }, s') := by
  rw [evalQuery, evalCtes]
  · have hnn : ¬ k < 0 := by omega
    simp only [exec_bind, exec_pure, exec_typeEnv, hset, evalOpt, evalExpr, applyLimit, hnn, if_false]
  · intro h; omega

/-- a query without CTEs, LIMIT and locking clause -/
theorem exec_evalQuery_plain (n : Nat) (env : Env) (body : SetExpr) (order : List OrderItem) (s s' : St)
    (cols : List String) (rows : List OutRow)
    (hset : (evalSetExpr (n + 1) env body order).exec s = (.ok (cols, rows), s')) :
    (evalQuery (n + 2) env (Query.mk [] body order none none LockMode.none)).exec s =
      (.ok { cols := cols, rows := rows.map (·.vals) }, s') := by
  rw [evalQuery, evalCtes]
  · simp only [exec_bind, exec_pure, exec_typeEnv, hset, evalOpt, applyLimit]
  · intro h; omega

end Ledger.Sql
