import Ledger.Proofs.InterpAllot
import Ledger.Proofs.MachineResolve

/-!
The whole run: metadata statements, statement lists, the two front ends, and the
agreement theorems of the two models on F2 and F1 (`agree_F2`, `agree_F1`).
-/
namespace Ledger.Interp
open Ledger.Machine

/-! ## Metadata statements -/

theorem okVal_spec {env : Env} {e : Expr} (h : okVal env e = true) :
    litsOK e = true ∧ ∃ v, Machine.evalExpr env e = .ok v := by
  simp only [okVal, Bool.and_eq_true] at h
  refine ⟨h.1, ?_⟩
  have h2 := h.2
  split at h2
  · rename_i v hv; exact ⟨v, hv⟩
  · cases h2

theorem txmeta_sim {env ienv : Env} (heq : EnvEq env ienv) (henv : EnvOK env)
    {P : List (String × String)} {k : String} {e : Expr} {st : State} {ist : IState}
    (hwf : stmtWf env (.setTxMeta k e) = true) (h : SRel P st ist) :
    StmtAgree P (Machine.evalStmt Cfg.fixed env (.setTxMeta k e) st)
      (Interp.evalStmt ienv (.setTxMeta k e) ist) := by
  obtain ⟨hl, v, hv⟩ := okVal_spec (by simpa [stmtWf] using hwf)
  simp only [Machine.evalStmt, Interp.evalStmt, hv, evalExpr_agree heq henv e v hl hv, StmtAgree]
  exact ⟨h.rel, h.wf, h.posts, h.nnM, h.okI, by simp [h.tx], h.acc, h.queue⟩

theorem evalAccount_expr {env : Env} {e : Expr} {a : String} (h : evalAccount env e = .ok a) :
    Machine.evalExpr env e = .ok (.account a) := by
  unfold evalAccount at h
  split at h
  · rename_i s hs; cases h; exact hs
  · cases h
  · cases h

theorem accmeta_sim {env ienv : Env} (heq : EnvEq env ienv) (henv : EnvOK env)
    {P : List (String × String)} {acc : Expr} {k : String} {e : Expr} {st : State} {ist : IState}
    (hwf : stmtWf env (.setAccountMeta acc k e) = true) (h : SRel P st ist) :
    StmtAgree P (Machine.evalStmt Cfg.fixed env (.setAccountMeta acc k e) st)
      (Interp.evalStmt ienv (.setAccountMeta acc k e) ist) := by
  simp only [stmtWf, Bool.and_eq_true] at hwf
  obtain ⟨hla, a, ha, _⟩ := okAcct_spec hwf.1
  obtain ⟨hl, v, hv⟩ := okVal_spec hwf.2
  have hia := evalExpr_agree heq henv acc _ hla (evalAccount_expr ha)
  simp only [Machine.evalStmt, Interp.evalStmt, hv, ha, hia, evalExpr_agree heq henv e v hl hv,
    StmtAgree]
  refine ⟨h.rel, h.wf, h.posts, h.nnM, h.okI, h.tx, ?_, h.queue⟩
  simp only [setAccMeta, List.map_append, List.map_cons, List.map_nil, ← h.acc, List.filter_map]
  rfl

/-! ## Statement lists -/

theorem stmt_sim {env ienv : Env} (heq : EnvEq env ienv) (henv : EnvOK env)
    {P : List (String × String)} (s : Stmt) {st : State} {ist : IState}
    (hwf : stmtWf env s = true) (hin : stmtLeavesIn P env s = true) (h : SRel P st ist) :
    StmtAgree P (Machine.evalStmt Cfg.fixed env s st) (Interp.evalStmt ienv s ist) := by
  cases s with
  | print e => simp [stmtWf] at hwf
  | save m a => simp [stmtWf] at hwf
  | saveAll m a => simp [stmtWf] at hwf
  | fail => simp [stmtWf] at hwf
  | setTxMeta k e => exact txmeta_sim heq henv hwf h
  | setAccountMeta acc k e => exact accmeta_sim heq henv hwf h
  | send mon src dst =>
    cases src with
    | src s => exact send_sim heq henv hwf hin h
    | allot items => exact send_allot_sim heq henv hwf hin h
  | sendAll ae src dst =>
    cases src with
    | src s => exact sendAll_sim heq henv hwf hin h
    | allot items => simp [stmtWf] at hwf

theorem runStmts_sim {env ienv : Env} (heq : EnvEq env ienv) (henv : EnvOK env)
    {P : List (String × String)} : ∀ (ss : List Stmt) (st : State) (ist : IState),
    (∀ s ∈ ss, stmtWf env s = true ∧ stmtLeavesIn P env s = true) → SRel P st ist →
    StmtAgree P (Machine.runStmts Cfg.fixed env ss st) (Interp.runStmts ienv ss ist) := by
  intro ss
  induction ss with
  | nil => intro st ist _ h; simpa [Machine.runStmts, Interp.runStmts, StmtAgree] using h
  | cons s rest ih =>
    intro st ist hall h
    have h1 := stmt_sim heq henv s (hall s (by simp)).1 (hall s (by simp)).2 h
    simp only [Machine.runStmts, Interp.runStmts]
    cases hm : Machine.evalStmt Cfg.fixed env s st with
    | error e =>
      cases hi : Interp.evalStmt ienv s ist with
      | error e' => simp [StmtAgree]
      | ok ist1 => rw [hm, hi] at h1; simp [StmtAgree] at h1
    | ok st1 =>
      cases hi : Interp.evalStmt ienv s ist with
      | error e' => rw [hm, hi] at h1; simp [StmtAgree] at h1
      | ok ist1 =>
        rw [hm, hi] at h1
        exact ih st1 ist1 (fun x hx => hall x (by simp [hx])) h1

/-! ## The front ends -/

/-- On the tracked pairs the machine starts from the store's balances. -/
theorem prepare_get {s : Script} {inp : Input} {env : Env} {bal : Balances}
    {pairs : List (String × String)} (h : prepare Cfg.fixed s inp = .ok (env, bal, pairs)) :
    ∀ a c, (a, c) ∈ pairs → bal.get a c = some (inp.balance a c) := by
  unfold prepare at h
  split at h
  · cases h
  · split at h
    · cases h
    · rename_i env0 bvs _
      unfold initBalances at h
      split at h
      · cases h
      · split at h
        · cases h
        · dsimp only at h
          generalize (if Cfg.fixed.balanceVarsPerAddress = true then liveBalVars bvs else bvs) = live at h
          split at h
          · cases h
          · cases h
            intro a c hp
            have : (List.map (fun bv => (bv.2.1, bv.2.2)) live ++ _).any
                (fun p => decide (p.1 = a ∧ p.2 = c)) = true :=
              List.any_eq_true.mpr ⟨(a, c), hp, by simp⟩
            simp only [this, if_true]

theorem envEq_of_agree {names : List String} {env ienv : Env} (h : envAgree names env ienv = true) :
    EnvEq env ienv ∧ EnvOK env := by
  simp only [envAgree, Bool.and_eq_true, List.all_eq_true, decide_eq_true_eq] at h
  obtain ⟨⟨h1, h2⟩, h3⟩ := h
  constructor
  · intro x
    by_cases hx : x ∈ names
    · exact h1 x hx
    · have e1 : env.lookup x = none := by
        cases hl : env.lookup x with
        | none => rfl
        | some v =>
          have := (h2 _ (lookup_mem env x v hl)).1
          exact absurd (by simpa using this) hx
      have e2 : ienv.lookup x = none := by
        cases hl : ienv.lookup x with
        | none => rfl
        | some v =>
          have := h3 _ (lookup_mem ienv x v hl)
          exact absurd (by simpa using this) hx
      rw [e1, e2]
  · intro x v hl
    exact (h2 _ (lookup_mem env x v hl)).2

/-- If the interpreter's front end fails, so does its run. -/
theorem run_error_of_front {s : Script} {inp : Input} {e : String} (h : front s inp = .error e) :
    ∃ e', Interp.run s inp = .error e' := by
  unfold front at h
  unfold Interp.run
  split at h
  · rename_i hu; exact ⟨_, by rw [if_pos hu]⟩
  · rename_i hu
    rw [if_neg hu]
    split at h
    · rename_i e1 h1; exact ⟨e1, by simp [h1]⟩
    · rename_i ienv cached h1
      split at h
      · rename_i e2 h2; exact ⟨e2, by simp [h1, h2]⟩
      · cases h

theorem run_of_front {s : Script} {inp : Input} {ienv : Env} {Q : List (String × String)}
    (h : front s inp = .ok (ienv, Q)) :
    Interp.run s inp = finish (Interp.runStmts ienv s.stmts (Interp.initState inp Q)) := by
  unfold front at h
  unfold Interp.run
  split at h
  · cases h
  · rename_i hu
    rw [if_neg hu]
    split at h
    · cases h
    · rename_i ienv' cached h1
      split at h
      · cases h
      · rename_i queried h2
        cases h
        simp only [h1, h2]

/-! ## Agreement of the two models -/

/-- Both fail, or same postings as units (= same non-zero postings in the same order, up to
    the way a run of units of one (source, destination) pair is cut into postings), all
    amounts ≥ 0, same transaction metadata, same account metadata (rendered as strings). -/
def Agree (m : Except Err Machine.Result) (i : Except String Interp.Result) : Prop :=
  match m, i with
  | .error _, .error _ => True
  | .ok rm, .ok ri =>
    unitsP rm.postings = unitsP ri.postings ∧
    (∀ p ∈ rm.postings, 0 ≤ p.amount) ∧ (∀ p ∈ ri.postings, 0 ≤ p.amount) ∧
    rm.txMeta = ri.txMeta ∧
    rm.accMeta.map (fun x => (x.1, x.2.1, valStr x.2.2)) = ri.accMeta
  | _, _ => False

theorem agree_F2 (s : Script) (inp : Input) (h : InF2 s inp = true) :
    Agree (sem Cfg.fixed s inp) (Interp.run s inp) := by
  simp only [InF2, whyNotF2] at h
  cases htc : typecheck s with
  | error e => simp [htc] at h
  | ok ds =>
    simp only [htc] at h
    by_cases hfa : FrontAgree s inp = true
    · simp only [hfa, Bool.not_true, Bool.false_eq_true, if_false] at h
      have hfa' := hfa
      unfold sem
      rw [htc]
      dsimp only
      unfold FrontAgree at hfa'
      cases hp : prepare Cfg.fixed s inp with
      | error e =>
        rw [hp] at hfa'
        cases hf : front s inp with
        | error e' =>
          obtain ⟨e'', he''⟩ := run_error_of_front hf
          rw [he'']; simp [Agree]
        | ok x => rw [hf] at hfa'; simp at hfa'
      | ok pr =>
        obtain ⟨env, bal, pairs⟩ := pr
        rw [hp] at hfa' h
        dsimp only at h
        have hall : s.stmts.all (stmtWf env) = true := by
          by_cases hh : s.stmts.all (stmtWf env) = true
          · exact hh
          · simp [hh] at h
        cases hf : front s inp with
        | error e' => rw [hf] at hfa'; simp at hfa'
        | ok x =>
          obtain ⟨ienv, Q⟩ := x
          rw [hf] at hfa'
          simp only [Bool.and_eq_true] at hfa'
          obtain ⟨⟨hea, hpq⟩, hlv⟩ := hfa'
          obtain ⟨heq, henv⟩ := envEq_of_agree hea
          obtain ⟨_, hbwf, _⟩ := prepare_ok hp
          have hget := prepare_get hp
          have hs0 : SRel pairs (Machine.initState bal) (Interp.initState inp Q) := by
            refine ⟨?_, hbwf, rfl, by simp [Machine.initState], by simp [Interp.initState],
              rfl, rfl, rfl⟩
            intro a c hpc hw
            have hq : Q.contains (a, c) = true := by
              have := List.all_eq_true.mp hpq (a, c) hpc
              simpa [hw] using this
            have : Q.any (fun p => decide (p.1 = a ∧ p.2 = c)) = true := by
              rw [List.any_eq_true]
              exact ⟨(a, c), by simpa using hq, by simp⟩
            simp only [Machine.initState, Interp.initState, initBal]
            rw [hget a c hpc, if_pos this]
          have hstm : ∀ x ∈ s.stmts, stmtWf env x = true ∧ stmtLeavesIn pairs env x = true := by
            intro x hx
            have h1 := List.all_eq_true.mp hall x hx
            have h2 := List.all_eq_true.mp hlv x hx
            exact ⟨h1, by simpa [h1] using h2⟩
          have hsim := runStmts_sim heq henv s.stmts _ _ hstm hs0
          rw [run_of_front hf]
          cases hm : Machine.runStmts Cfg.fixed env s.stmts (Machine.initState bal) with
          | error e =>
            cases hi : Interp.runStmts ienv s.stmts (Interp.initState inp Q) with
            | error e' => simp [hm, finish, Agree]
            | ok ist => rw [hm, hi] at hsim; simp [StmtAgree] at hsim
          | ok st =>
            cases hi : Interp.runStmts ienv s.stmts (Interp.initState inp Q) with
            | error e' => rw [hm, hi] at hsim; simp [StmtAgree] at hsim
            | ok ist =>
              rw [hm, hi] at hsim
              simp only [StmtAgree] at hsim
              have hnb : ist.postings.any badPosting = false := by
                rw [Bool.eq_false_iff]
                intro hany
                obtain ⟨p, hp1, hp2⟩ := List.any_eq_true.mp hany
                rw [hsim.okI p hp1] at hp2; cases hp2
              simp only [hm, finish, hnb, Agree, Bool.false_eq_true, if_false]
              refine ⟨hsim.posts, hsim.nnM, ?_, hsim.tx, hsim.acc⟩
              intro p hp1
              have := hsim.okI p hp1
              simp only [badPosting, Bool.or_eq_false_iff, decide_eq_false_iff_not] at this
              omega
    · simp [hfa] at h

theorem agree_F1 (s : Script) (inp : Input) (h : InF1 s inp = true) :
    Agree (sem Cfg.fixed s inp) (Interp.run s inp) := by
  simp only [InF1, Bool.and_eq_true] at h
  exact agree_F2 s inp h.1

end Ledger.Interp
