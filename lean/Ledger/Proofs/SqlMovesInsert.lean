import Ledger.Proofs.SqlMovesRow
open Ledger Ledger.Sql Ledger.Generated Ledger.Core
namespace Ledger.Sql
open Ledger.Spec

/-- every stored version of `moves` is a well-typed move with a sequence number below `bound` -/
def MvAll (bound : Int) (rows : List Ver) : Prop := ∀ r ∈ rows, ∃ l m, r.vals = mvVals l m ∧ (m.seq : Int) < bound

theorem exec_checkConstraints_mv (b : String) (trigs : List TriggerDef) (nr : Nat) (rows : List Ver) (l : String) (m : Spec.MoveRow) (s : St) :
    (checkConstraints ((mvT b trigs nr).withRows rows) (mvVals l m)).exec s = (.ok (), s) := by
  simp [checkConstraints, mvT, Table.withRows, Schema.tbl_moves, notNullViolation, Value.isNull, checkChecks, mvVals, mvValsX, volVal]

theorem exec_checkForeignKeys_mv (b : String) (trigs : List TriggerDef) (nr : Nat) (rows : List Ver) (vals : List Value) (s : St) :
    (checkForeignKeys ((mvT b trigs nr).withRows rows) vals).exec s = (.ok (), s) := by
  simp [checkForeignKeys, mvT, Table.withRows, Schema.tbl_moves, checkForeignKeysOf]

def mvIdx : UniqueIdx := { name := "moves_pkey", cols := ["seq"], pred := none, primary := true }

theorem mvT_uniques (b : String) (trigs : List TriggerDef) (nr : Nat) (rows : List Ver) :
    ((mvT b trigs nr).withRows rows).uniques = [mvIdx] := rfl

theorem sameGroupKey_int1 (a b : Int) : sameGroupKey [.int a] [.int b] = .ok (decide (a = b)) := by
  simp only [sameGroupKey, compareForSort_int, bind, Except.bind, cmpInt_eq]
  by_cases h : a = b <;> simp [h] <;> rfl

theorem exec_keyMatches_mv (b : String) (trigs : List TriggerDef) (nr : Nat) (rows : List Ver) (q : Int) (l' : String) (m' : Spec.MoveRow)
    (r : Ver) (hr : r.vals = mvVals l' m') (s : St) :
    (keyMatches ((mvT b trigs nr).withRows rows) mvIdx [.int q] r).exec s = (.ok (decide ((m'.seq : Int) = q)), s) := by
  have hk : keyOf ((mvT b trigs nr).withRows rows) mvIdx.cols r.vals = [.int m'.seq] := by rw [hr]; rfl
  simp only [keyMatches, hk, exec_bind, sameGroupKey_int1, exec_liftR_ok]
  by_cases h : (m'.seq : Int) = q <;> simp [h, predHolds, mvIdx]

/-- no primary-key violation when every stored sequence number is smaller -/
theorem exec_findConflict_mv_none (b : String) (trigs : List TriggerDef) (nr : Nat) (rows : List Ver) (l : String) (m : Spec.MoveRow)
    (s : St) (hsolo : ∀ y ∈ s.w.active, y = s.xid) (hall : MvAll m.seq rows) :
    (findConflict ((mvT b trigs nr).withRows rows) [mvIdx] (mvVals l m) none).exec s = (.ok none, s) := by
  have hk : keyOf ((mvT b trigs nr).withRows rows) mvIdx.cols (mvVals l m) = [.int m.seq] := rfl
  have hs1 : (scanConflict ((mvT b trigs nr).withRows rows) mvIdx [.int m.seq] none (latestView s.w s.xid) s.xid s.w.active rows).exec s =
      (.ok none, s) := by
    rw [exec_scanConflict_gen _ mvIdx _ none _ s.xid s.w.active hsolo s (fun _ => false) rows (by
        intro r hr _ _
        obtain ⟨l', m', hv, hlt⟩ := hall r hr
        rw [exec_keyMatches_mv b trigs nr rows m.seq l' m' r hv s]
        have : ¬ ((m'.seq : Int) = m.seq) := by omega
        simp [this])]
    simp
  have hp1 : (predHolds ((mvT b trigs nr).withRows rows) mvIdx.pred (mvVals l m)).exec s = (.ok true, s) := by
    simp [predHolds, mvIdx]
  have hrows : ((mvT b trigs nr).withRows rows).rows = rows := rfl
  rw [findConflict]
  simp only [exec_bind, hp1, Bool.not_true, Bool.false_eq_true, if_false, hk, List.any, Value.isNull, Bool.or_false,
    exec_get, hrows, hs1]
  simp [findConflict]

end Ledger.Sql

namespace Ledger.Sql
open Ledger.Spec

theorem TxState.withSeqs {s : St} (h : TxState s) (q : List Seq) : TxState (s.withSeqs q) :=
  ⟨h.solo, h.xid, h.cid, h.snap, h.noEpq, h.names⟩
theorem TxState.bump {s : St} (h : TxState s) (k : Nat) : TxState (s.bump k) :=
  ⟨h.solo, h.xid, h.cid, h.snap, h.noEpq, h.names⟩

@[simp] theorem withSeqs_table? (s : St) (q : List Seq) (full : String) : (s.withSeqs q).w.table? full = s.w.table? full := rfl
@[simp] theorem withSeqs_snap (s : St) (q : List Seq) : (s.withSeqs q).snap = s.snap := rfl
@[simp] theorem bump_snap (s : St) (k : Nat) : (s.bump k).snap = s.snap := rfl
@[simp] theorem withSeqs_latestView (s : St) (q : List Seq) (x : Nat) : latestView (s.withSeqs q).w x = latestView s.w x := rfl
@[simp] theorem withSeqs_active (s : St) (q : List Seq) : (s.withSeqs q).w.active = s.w.active := rfl

/-- what does not change while `INSERT INTO moves` runs: the catalogue of functions and types, the triggers of `moves` — exactly one
    BEFORE INSERT and one AFTER INSERT trigger fire for ledger `ln` (`trB`, `trA`); all other row triggers on INSERT are those of other
    ledgers. -/
structure MvStatic (funcs : List (String × PlFunc)) (types : TypeEnv) (b ln : String) (trigs : List TriggerDef)
    (B1 B2 : List TriggerDef) (trB : TriggerDef) (A1 A2 : List TriggerDef) (trA : TriggerDef)
    (item wher dflt_ : Expr) (fB : PlFunc) : Prop where
  hsch : schemaOf (mvFull b) = b
  types : VolTypes types
  sortedB : sortTriggers (trigs.filter (fun x => x.timing == .before && x.event == .insert)) = B1 ++ trB :: B2
  othersB1 : ∀ x ∈ B1, OtherLedgerTrig ln x
  othersB2 : ∀ x ∈ B2, OtherLedgerTrig ln x
  evB : trB.event = .insert
  whenB : trB.when_ = some (ledgerIs ln)
  schB : schemaOf trB.fname = b
  funB : funcs.lookup trB.fname = some fB
  declsB : fB.decls = []
  bodyB : fB.body = setEffBody item wher dflt_
  sem : SetEffSem item wher dflt_
  hname : outNames [(item, "")] = ["row"]
  sortedA : sortTriggers (trigs.filter (fun x => x.timing == .after && x.event == .insert)) = A1 ++ trA :: A2
  othersA1 : ∀ x ∈ A1, OtherLedgerTrig ln x
  othersA2 : ∀ x ∈ A2, OtherLedgerTrig ln x
  evA : trA.event = .insert
  whenA : trA.when_ = some (ledgerIs ln)

def mvReturning : List SelItem :=
  [SelItem.expr (Expr.col "" "post_commit_volumes") "", SelItem.expr (Expr.col "" "post_commit_effective_volumes") ""]

/-- the row as `set_effective_volumes` completes it -/
def withPcev (tbl : List (String × Spec.MoveRow)) (ln : String) (m : Spec.MoveRow) : Spec.MoveRow :=
  { m with pcev := pcevOf (ledgerMoves ln tbl) m }

theorem mvValsX_withPcev (tbl : List (String × Spec.MoveRow)) (ln : String) (m : Spec.MoveRow) :
    mvValsX ln m (volVal (pcevOf (ledgerMoves ln tbl) m)) = mvVals ln (withPcev tbl ln m) := rfl

theorem exec_accReturning_mv (k : Nat) (env : Env) (b : String) (trigs : List TriggerDef) (nr : Nat) (rows : List Ver) (l : String)
    (m : Spec.MoveRow) (acc : DmlAcc) (s : St) :
    (accReturning (k + 2) env ((mvT b trigs nr).withRows rows) "" (mvVals l m) [] mvReturning acc).exec s =
      (.ok { retCols := ["post_commit_volumes", "post_commit_effective_volumes"],
             retRows := acc.retRows ++ [[volVal m.pcv, volVal m.pcev]], affected := acc.affected + 1 }, s) := by
  have h1 := lookup_local_unq { env with locals := [({ alias := baseName ((mvT b trigs nr).withRows rows).name, cols := mvCols, vals := mvVals l m } : Scope)] }
    { alias := baseName ((mvT b trigs nr).withRows rows).name, cols := mvCols, vals := mvVals l m } rfl "post_commit_volumes" (volVal m.pcv) rfl
  have h2 := lookup_local_unq { env with locals := [({ alias := baseName ((mvT b trigs nr).withRows rows).name, cols := mvCols, vals := mvVals l m } : Scope)] }
    { alias := baseName ((mvT b trigs nr).withRows rows).name, cols := mvCols, vals := mvVals l m } rfl "post_commit_effective_volumes" (volVal m.pcev) rfl
  rw [accReturning]
  simp only [mvReturning, List.isEmpty_cons, Bool.false_eq_true, if_false, exec_bind]
  rw [evalReturning]
  simp only [exec_bind, exec_typeEnv, show ("" : String).isEmpty = true from by decide, if_true, exec_foldlM_cons, List.foldlM_nil,
    evalExpr, mvT_colNames, withRows_colNames, h1, h2, exec_liftR_ok, exec_pure, exprOutName, List.nil_append, List.cons_append]

/-- one row of `INSERT INTO moves … RETURNING post_commit_volumes, post_commit_effective_volumes` -/
theorem exec_insertRowStep_moves (p : Nat) (env : Env) (b ln : String) (trigs : List TriggerDef)
    (B1 B2 : List TriggerDef) (trB : TriggerDef) (A1 A2 : List TriggerDef) (trA : TriggerDef) (item wher dflt_ : Expr) (fB : PlFunc)
    (s : St) (hs : TxState s) (hnc : s.nextCid + 2 ≤ 1000000000)
    (hst : MvStatic s.w.funcs s.w.types b ln trigs B1 B2 trB A1 A2 trA item wher dflt_ fB)
    (nr : Nat) (rows : List Ver) (hT : s.w.table? (mvFull b) = some ((mvT b trigs nr).withRows rows))
    (sq : Seq) (hsq : s.w.seqs.find? (·.name == mvSeqFull b) = some sq)
    (r : WriteSql.P.MoveRow) (m : Spec.MoveRow) (hlit : MvLit s.w.types r m) (hseq : (m.seq : Int) = sq.next)
    (hrange : sq.next ≤ 9223372036854775807)
    (tbl : List (String × Spec.MoveRow)) (hview : MvView { xid := s.xid, cid := s.nextCid, snap := s.snap } rows tbl)
    (hnd : (tbl.map (·.2.seq)).Nodup) (hall : MvAll sq.next rows) (acc : DmlAcc) :
    (insertRowStep (p + 12) env (mvFull b) "moves" "" mvInsertCols none mvReturning (mvSrcRow r ln) acc).exec s =
      (.ok { retCols := ["post_commit_volumes", "post_commit_effective_volumes"],
             retRows := acc.retRows ++ [[volVal m.pcv, volVal (pcevOf (ledgerMoves ln tbl) m)]], affected := acc.affected + 1 },
       ((((s.withSeqs (seqsSet (mvSeqFull b) sq.next s.w.seqs)).bump 2).withTable
          ((mvT b trigs (nr + 1)).withRows (newVer s.xid s.cid nr (mvVals ln (withPcev tbl ln m)) :: rows))).addQ
          [{ fname := trA.fname, table := mvFull b, new := some (mvVals ln (withPcev tbl ln m)), old := none }])) := by
  rw [insertRowStep]
  have hbuild := exec_buildRow_moves (p + 8) b ln trigs nr rows s hst.hsch sq hsq r m hlit hseq hrange
  simp only [exec_bind, exec_getTable hT, hbuild]
  -- BEFORE INSERT
  have hs1 : TxState (s.withSeqs (seqsSet (mvSeqFull b) sq.next s.w.seqs)) := hs.withSeqs _
  have hrun := exec_runTrigger_setEff p b ln trB.fname m .null item wher dflt_ hst.sem hst.hname fB hst.declsB hst.bodyB
    (s.withSeqs (seqsSet (mvSeqFull b) sq.next s.w.seqs)) hs1 hst.funB hst.schB hnc hst.types trigs nr rows
    ((mvT b trigs nr).withRows rows) rfl hT tbl hview hnd
  have hfire := exec_fireBefore_one (p + 9) ((mvT b trigs nr).withRows rows) (mvValsX ln m .null)
    (mvValsX ln m (volVal (pcevOf (ledgerMoves ln tbl) m))) ln _ _ B1 B2 trB hst.sortedB hst.othersB1 hst.othersB2 hst.evB hst.whenB rfl rfl hrun
  simp only [hfire]
  have hT2 : (((s.withSeqs (seqsSet (mvSeqFull b) sq.next s.w.seqs)).bump 2)).w.table? (mvFull b) = some ((mvT b trigs nr).withRows rows) := hT
  have hall' : MvAll m.seq rows := by rw [hseq]; exact hall
  have hconf := exec_findConflict_mv_none b trigs nr rows ln (withPcev tbl ln m) ((s.withSeqs (seqsSet (mvSeqFull b) sq.next s.w.seqs)).bump 2)
    hs.solo hall'
  have hins : (insertVersion (mvFull b) (mvVals ln (withPcev tbl ln m))).exec ((s.withSeqs (seqsSet (mvSeqFull b) sq.next s.w.seqs)).bump 2) =
      (.ok nr, ((s.withSeqs (seqsSet (mvSeqFull b) sq.next s.w.seqs)).bump 2).withTable
        ((mvT b trigs (nr + 1)).withRows (newVer s.xid s.cid nr (mvVals ln (withPcev tbl ln m)) :: rows))) :=
    exec_insertVersion hT2 (mvVals ln (withPcev tbl ln m))
  have hT3 : (((s.withSeqs (seqsSet (mvSeqFull b) sq.next s.w.seqs)).bump 2).withTable
        ((mvT b trigs (nr + 1)).withRows (newVer s.xid s.cid nr (mvVals ln (withPcev tbl ln m)) :: rows))).w.table? (mvFull b) =
      some ((mvT b trigs (nr + 1)).withRows (newVer s.xid s.cid nr (mvVals ln (withPcev tbl ln m)) :: rows)) :=
    withTable_table? _ ((mvT b trigs nr).withRows rows) _ hT2
  have hq := exec_queueAfter_one (p + 9) ((mvT b trigs (nr + 1)).withRows (newVer s.xid s.cid nr (mvVals ln (withPcev tbl ln m)) :: rows))
    (mvVals ln (withPcev tbl ln m)) ln (((s.withSeqs (seqsSet (mvSeqFull b) sq.next s.w.seqs)).bump 2).withTable
        ((mvT b trigs (nr + 1)).withRows (newVer s.xid s.cid nr (mvVals ln (withPcev tbl ln m)) :: rows)))
    A1 A2 trA hst.sortedA hst.othersA1 hst.othersA2 hst.evA hst.whenA rfl
  rw [mvValsX_withPcev]
  simp only [exec_bind, exec_getTable hT2, exec_checkConstraints_mv, mvT_uniques, hconf, exec_checkForeignKeys_mv, hins, exec_pure,
    exec_getTable hT3, hq]
  rw [exec_accReturning_mv]
  rfl

end Ledger.Sql
