import Ledger.Proofs.SqlTrigSched
import Ledger.Proofs.SqlText
import Ledger.Generated.WriteSql
open Ledger Ledger.Sql Ledger.Generated Ledger.Core
namespace Ledger.Sql
open Ledger.Spec

/-! ### sequences -/

def St.withSeqs (s : St) (q : List Seq) : St := { s with w := { s.w with seqs := q } }

@[simp] theorem withSeqs_xid (s : St) (q : List Seq) : (s.withSeqs q).xid = s.xid := rfl
@[simp] theorem withSeqs_cid (s : St) (q : List Seq) : (s.withSeqs q).cid = s.cid := rfl
@[simp] theorem withSeqs_nextCid (s : St) (q : List Seq) : (s.withSeqs q).nextCid = s.nextCid := rfl
@[simp] theorem withSeqs_sp (s : St) (q : List Seq) : (s.withSeqs q).searchPath = s.searchPath := rfl
@[simp] theorem withSeqs_types (s : St) (q : List Seq) : (s.withSeqs q).w.types = s.w.types := rfl
@[simp] theorem withSeqs_funcs (s : St) (q : List Seq) : (s.withSeqs q).w.funcs = s.w.funcs := rfl
@[simp] theorem withSeqs_tables (s : St) (q : List Seq) : (s.withSeqs q).w.tables = s.w.tables := rfl
@[simp] theorem withSeqs_seqs (s : St) (q : List Seq) : (s.withSeqs q).w.seqs = q := rfl

/-- the sequence `full` after a `nextval` that returned `v` -/
def seqsSet (full : String) (v : Int) (seqs : List Seq) : List Seq :=
  seqs.map (fun x => if x.name == full then { x with last := v, called := true } else x)

def Seq.next (sq : Seq) : Int := if sq.called then sq.last + 1 else sq.last

theorem exec_seqNext (full : String) (s : St) (sq : Seq) (h : s.w.seqs.find? (·.name == full) = some sq) :
    (seqNext full).exec s = (.ok sq.next, s.withSeqs (seqsSet full sq.next s.w.seqs)) := by
  simp only [seqNext, exec_bind, exec_getW, h, exec_setW, exec_pure]
  rfl

theorem find_seqsSet (full : String) (v : Int) : ∀ (seqs : List Seq) (sq : Seq), seqs.find? (·.name == full) = some sq →
    (seqsSet full v seqs).find? (·.name == full) = some { sq with last := v, called := true } := by
  intro seqs
  induction seqs with
  | nil => intro sq h; simp at h
  | cons x xs ih =>
    intro sq h
    simp only [seqsSet, List.map_cons, List.find?_cons] at h ⊢
    by_cases hx : (x.name == full) = true
    · simp only [hx, if_true] at h ⊢
      cases h; rfl
    · have hx' : (x.name == full) = false := by simpa using hx
      simp only [hx', Bool.false_eq_true, if_false] at h ⊢
      exact ih sq h

theorem seqsSet_seqsSet (full : String) (v v' : Int) (seqs : List Seq) :
    seqsSet full v' (seqsSet full v seqs) = seqsSet full v' seqs := by
  simp only [seqsSet, List.map_map]
  apply List.map_congr_left
  intro x _
  by_cases hx : x.name = full
  · simp [hx]
  · simp [hx]

/-! ### the row `INSERT INTO moves` builds -/

theorem castTo_int8 (te : TypeEnv) (v : Int) (h1 : -9223372036854775808 ≤ v) (h2 : v ≤ 9223372036854775807) :
    castTo te (SqlType.mk "" "int8" "" false) (.int v) = .ok (.int v) := by
  have : ¬ (v < -9223372036854775808 ∨ v > 9223372036854775807) := by omega
  simp [castTo, castNonArray, castScalar, isIntType, intRangeCheck, this, bind, Except.bind, pure, Except.pure]

theorem castTo_varchar_text (te : TypeEnv) (x : String) : castTo te (SqlType.mk "" "varchar" "" false) (.text x) = .ok (.text x) := by
  simp [castTo, castNonArray, castScalar, isIntType, Value.toText, pure, Except.pure]

theorem castTo_numeric_ofInt (te : TypeEnv) (a : Int) : castTo te (SqlType.mk "" "numeric" "" false) (.text (toString a)) = .ok (.int a) := by
  have h : parseIntText a.repr = .ok a := parseIntText_toString a
  simp [castTo, castNonArray, castScalar, isIntType, intRangeCheck, h, bind, Except.bind, pure, Except.pure]

theorem castTo_null (te : TypeEnv) (ty : SqlType) : castTo te ty .null = .ok .null := rfl

theorem castTo_bool (te : TypeEnv) (x : Bool) : castTo te (SqlType.mk "" "bool" "" false) (.bool x) = .ok (.bool x) := by
  simp [castTo, castNonArray, castScalar, isIntType, pure, Except.pure]

def tyTimestamp : SqlType := SqlType.mk "" "timestamp" "" false

def mvInsertCols : List String :=
  ["transactions_id", "is_source", "accounts_address", "amount", "asset", "insertion_date", "effective_date", "post_commit_volumes", "ledger"]

/-- the literals of one VALUES row of `InsertMoves` denote the Spec move `m` (all columns but `seq` and the effective volumes):
    the rendered timestamps and composite literal parse to `m`'s dates and volumes. -/
structure MvLit (te : TypeEnv) (r : WriteSql.P.MoveRow) (m : Spec.MoveRow) : Prop where
  txId : r.transactions_id = (m.txId : Int)
  txRange : (m.txId : Int) ≤ 9223372036854775807
  isSource : r.is_source = m.isSource
  account : r.accounts_address = m.account
  amount : r.amount = m.amount
  asset : r.asset = m.asset
  ins : castTo te tyTimestamp (.text r.insertion_date) = .ok (.ts m.insertionDate)
  eff : castTo te tyTimestamp (.text r.effective_date) = .ok (.ts m.effectiveDate)
  pcv : castTo te tyVolumes (.text r.post_commit_volumes) = .ok (volVal m.pcv)

/-- the evaluated VALUES row -/
def mvSrcRow (r : WriteSql.P.MoveRow) (ledger : String) : List (Option Value) :=
  [some (.int r.transactions_id), some (.bool r.is_source), some (.text r.accounts_address), some (.text (toString r.amount)),
   some (.text r.asset), some (.text r.insertion_date), some (.text r.effective_date), some (.text r.post_commit_volumes), some (.text ledger)]

def mvSeqFull (b : String) : String := b ++ "." ++ "moves_seq_seq"

theorem exec_buildRow_moves (n : Nat) (b l : String) (trigs : List TriggerDef) (nr : Nat) (rows : List Ver) (s : St)
    (hsch : schemaOf (mvFull b) = b) (sq : Seq) (hsq : s.w.seqs.find? (·.name == mvSeqFull b) = some sq)
    (r : WriteSql.P.MoveRow) (m : Spec.MoveRow) (hlit : MvLit s.w.types r m) (hseq : (m.seq : Int) = sq.next)
    (hrange : sq.next ≤ 9223372036854775807) :
    (buildRow (n + 3) ((mvT b trigs nr).withRows rows) mvInsertCols (mvSrcRow r l)).exec s =
      (.ok (mvValsX l m .null), s.withSeqs (seqsSet (mvSeqFull b) sq.next s.w.seqs)) := by
  rw [buildRow]
  have hcols : ((mvT b trigs nr).withRows rows).cols = Schema.tbl_moves.cols := rfl
  have hnames : ((mvT b trigs nr).withRows rows).colNames = mvCols := rfl
  have hfind : mvInsertCols.find? (fun c => !(mvCols.contains c)) = none := by decide
  have hlen : (mvInsertCols.length != (mvSrcRow r l).length) = false := rfl
  simp only [exec_bind, exec_typeEnv, hlen, Bool.false_eq_true, if_false, hnames, hfind, hcols, Schema.tbl_moves]
  have g0 : (mvInsertCols.zip (mvSrcRow r l)).lookup "seq" = none := rfl
  have g1 : (mvInsertCols.zip (mvSrcRow r l)).lookup "ledger" = some (some (.text l)) := rfl
  have g2 : (mvInsertCols.zip (mvSrcRow r l)).lookup "accounts_address" = some (some (.text r.accounts_address)) := rfl
  have g3 : (mvInsertCols.zip (mvSrcRow r l)).lookup "asset" = some (some (.text r.asset)) := rfl
  have g4 : (mvInsertCols.zip (mvSrcRow r l)).lookup "amount" = some (some (.text (toString r.amount))) := rfl
  have g5 : (mvInsertCols.zip (mvSrcRow r l)).lookup "insertion_date" = some (some (.text r.insertion_date)) := rfl
  have g6 : (mvInsertCols.zip (mvSrcRow r l)).lookup "effective_date" = some (some (.text r.effective_date)) := rfl
  have g7 : (mvInsertCols.zip (mvSrcRow r l)).lookup "post_commit_volumes" = some (some (.text r.post_commit_volumes)) := rfl
  have g8 : (mvInsertCols.zip (mvSrcRow r l)).lookup "post_commit_effective_volumes" = none := rfl
  have g9 : (mvInsertCols.zip (mvSrcRow r l)).lookup "is_source" = some (some (.bool r.is_source)) := rfl
  have g10 : (mvInsertCols.zip (mvSrcRow r l)).lookup "transactions_id" = some (some (.int r.transactions_id)) := rfl
  -- the default of `seq`
  have hname : ((mvT b trigs nr).withRows rows).name = mvFull b := rfl
  have hnv : (evalExpr (cbs (n + 2)) s.w.types {} (Expr.call "" "nextval" [Expr.str "moves_seq_seq"])).exec (s.withSP b) =
      (.ok (.int sq.next), (s.withSP b).withSeqs (seqsSet (mvSeqFull b) sq.next s.w.seqs)) := by
    have hpure : evalPureFn "nextval" [Value.text "moves_seq_seq"] = none := rfl
    have hcall : (cbs (n + 2)).call "" "nextval" [Value.text "moves_seq_seq"] = callFunc (n + 1) "" "nextval" [Value.text "moves_seq_seq"] := rfl
    have hb : callBuiltin "nextval" [Value.text "moves_seq_seq"] = some (do return .int (← seqNext (← seqName (Value.text "moves_seq_seq").toText))) := rfl
    have hsn : (seqName (Value.text "moves_seq_seq").toText).exec (s.withSP b) = (.ok (mvSeqFull b), s.withSP b) := by
      have e1 : unquoteQualified (Value.text "moves_seq_seq").toText = "moves_seq_seq" := by decide
      have e2 : (firstDotted "moves_seq_seq").isEmpty = true := by decide
      simp [seqName, e1, e2, qualify, mvSeqFull]
    rw [evalExpr_call _ _ _ _ _ _ (by decide)]
    simp only [evalExpr, evalExprs, exec_bind, exec_pure, hpure, hcall,
      show (("" : String).isEmpty || "" == "public" || "" == "pg_catalog") = true from by decide, if_true]
    rw [callFunc]
    simp only [show (("" : String).isEmpty || "" == "public" || "" == "pg_catalog") = true from by decide, if_true, hb, exec_bind, hsn,
      exec_seqNext (mvSeqFull b) (s.withSP b) sq hsq, exec_pure]
    rfl
  have hnv' := exec_withSearchPath b _ s _ _ hnv
  simp only [exec_mapM_cons, g0, g1, g2, g3, g4, g5, g6, g7, g8, g9, g10, hname, hsch, exec_bind, hnv']
  have hnull : ∀ s' : St, (withSearchPath b (evalExpr (cbs (n + 2)) s.w.types {} Expr.null)).exec s' = (.ok .null, s') := by
    intro s'
    have := exec_withSearchPath b (evalExpr (cbs (n + 2)) s.w.types {} Expr.null) s' (s'.withSP b) .null (by simp [evalExpr])
    rw [this]; rfl
  have hm : (0 : Int) ≤ sq.next := by rw [← hseq]; omega
  have htx := hlit.txRange
  simp only [castTo_int8 _ sq.next (by omega) hrange, castTo_varchar_text, castTo_numeric_ofInt, castTo_bool, exec_liftR_ok, hnull,
    show castTo s.w.types (SqlType.mk "" "timestamp" "" false) (Value.text r.insertion_date) = .ok (.ts m.insertionDate) from hlit.ins,
    show castTo s.w.types (SqlType.mk "" "timestamp" "" false) (Value.text r.effective_date) = .ok (.ts m.effectiveDate) from hlit.eff,
    show castTo s.w.types (SqlType.mk "" "volumes" "" false) (Value.text r.post_commit_volumes) = .ok (volVal m.pcv) from hlit.pcv,
    castTo_int8 _ r.transactions_id (by rw [hlit.txId]; omega) (by rw [hlit.txId]; exact htx), List.mapM_nil, exec_pure, castTo_null]
  rw [← hseq, hlit.account, hlit.asset, hlit.amount, hlit.isSource, hlit.txId]
  rfl

end Ledger.Sql
