import Ledger.Base.Regex

/-!
Correctness of the derivative matcher of `Ledger/Base/Regex.lean` with respect
to the denotational semantics `Lang` (anchor-free expressions; anchors have the
empty language in `Lang` and are never nullable / derivable, so the statement
holds for every `Re`).
-/
namespace Ledger.Regex

/-! ### inversion lemmas -/

theorem lang_emp {s} : ¬ Lang .emp s := by intro h; cases h
theorem lang_bol {s} : ¬ Lang .bol s := by intro h; cases h
theorem lang_eol {s} : ¬ Lang .eol s := by intro h; cases h

theorem lang_eps {s} : Lang .eps s ↔ s = [] := by
  constructor
  · intro h; cases h; rfl
  · rintro rfl; exact .eps

theorem lang_cls {rs s} : Lang (.cls rs) s ↔ ∃ c, s = [c] ∧ clsMem rs c = true := by
  constructor
  · intro h; cases h with | cls hc => exact ⟨_, rfl, hc⟩
  · rintro ⟨c, rfl, hc⟩; exact .cls hc

theorem lang_cat {a b s} : Lang (.cat a b) s ↔ ∃ s1 s2, s = s1 ++ s2 ∧ Lang a s1 ∧ Lang b s2 := by
  constructor
  · intro h; cases h with | cat h1 h2 => exact ⟨_, _, rfl, h1, h2⟩
  · rintro ⟨s1, s2, rfl, h1, h2⟩; exact .cat h1 h2

theorem lang_alt {a b s} : Lang (.alt a b) s ↔ Lang a s ∨ Lang b s := by
  constructor
  · intro h; cases h with
    | altL h => exact .inl h
    | altR h => exact .inr h
  · rintro (h | h)
    · exact .altL h
    · exact .altR h

/-- A non-empty word of `a*` starts with a non-empty word of `a`. -/
theorem lang_star_cons {a c s} :
    Lang (.star a) (c :: s) ↔ ∃ s1 s2, s = s1 ++ s2 ∧ Lang a (c :: s1) ∧ Lang (.star a) s2 := by
  constructor
  · intro h
    generalize hr : Re.star a = r at h
    generalize hw : c :: s = w at h
    induction h generalizing s with
    | eps => cases hr
    | cls _ => cases hr
    | cat _ _ => cases hr
    | altL _ => cases hr
    | altR _ => cases hr
    | starNil => cases hw
    | @starCons a' s1 t h1 h2 _ ih2 =>
      cases hr
      cases s1 with
      | nil =>
        simp only [List.nil_append] at hw
        exact ih2 rfl hw
      | cons c' s1' =>
        simp only [List.cons_append, List.cons.injEq] at hw
        obtain ⟨rfl, rfl⟩ := hw
        exact ⟨s1', t, rfl, h1, h2⟩
  · rintro ⟨s1, s2, rfl, h1, h2⟩
    have := Lang.starCons h1 h2
    simpa using this

/-! ### nullable -/

theorem nullable_iff (r : Re) : nullable r = true ↔ Lang r [] := by
  induction r with
  | emp =>
    have : nullable .emp = false := rfl
    simp [this, lang_emp]
  | eps =>
    have : nullable .eps = true := rfl
    simp [this, lang_eps]
  | cls rs =>
    have : nullable (.cls rs) = false := rfl
    rw [this, lang_cls]
    simp
  | cat a b iha ihb =>
    have : nullable (.cat a b) = (nullable a && nullable b) := rfl
    rw [this]
    simp only [Bool.and_eq_true, iha, ihb, lang_cat]
    constructor
    · rintro ⟨h1, h2⟩; exact ⟨[], [], rfl, h1, h2⟩
    · rintro ⟨s1, s2, h, h1, h2⟩
      obtain ⟨rfl, rfl⟩ := List.append_eq_nil_iff.1 h.symm
      exact ⟨h1, h2⟩
  | alt a b iha ihb =>
    have : nullable (.alt a b) = (nullable a || nullable b) := rfl
    rw [this]
    simp [iha, ihb, lang_alt]
  | star a _ =>
    have : nullable (.star a) = true := rfl
    simp only [this, true_iff]
    exact .starNil
  | bol =>
    have : nullable .bol = false := rfl
    simp [this, lang_bol]
  | eol =>
    have : nullable .eol = false := rfl
    simp [this, lang_eol]

/-! ### smart constructors -/

theorem lang_mkCat {a b s} : Lang (mkCat a b) s ↔ Lang (.cat a b) s := by
  unfold mkCat
  split
  · simp [lang_cat, lang_emp]
  · simp [lang_cat, lang_emp]
  · simp only [lang_cat, lang_eps]
    constructor
    · intro h; exact ⟨[], s, rfl, rfl, h⟩
    · rintro ⟨s1, s2, rfl, rfl, h⟩; simpa using h
  · rfl

theorem lang_mkAlt {a b s} : Lang (mkAlt a b) s ↔ Lang (.alt a b) s := by
  unfold mkAlt
  split
  · simp [lang_alt, lang_emp]
  · simp [lang_alt, lang_emp]
  · rfl

/-! ### derivative -/

theorem deriv_iff (c : Char) (r : Re) : ∀ s, Lang (deriv c r) s ↔ Lang r (c :: s) := by
  induction r with
  | emp => intro s; simp [deriv, lang_emp]
  | eps => intro s; simp [deriv, lang_emp, lang_eps]
  | bol => intro s; simp [deriv, lang_emp, lang_bol]
  | eol => intro s; simp [deriv, lang_emp, lang_eol]
  | cls rs =>
    intro s
    simp only [deriv, lang_cls]
    split
    · rename_i h
      simp only [lang_eps]
      constructor
      · rintro rfl; exact ⟨c, rfl, h⟩
      · rintro ⟨c', h1, _⟩; simp at h1; exact h1.2
    · rename_i h
      simp only [lang_emp, false_iff]
      rintro ⟨c', h1, h2⟩
      simp at h1
      obtain ⟨rfl, _⟩ := h1
      exact h h2
  | alt a b iha ihb =>
    intro s
    simp only [deriv, lang_mkAlt, lang_alt, iha, ihb]
  | cat a b iha ihb =>
    intro s
    have key : Lang (.cat a b) (c :: s) ↔
        (∃ s1 s2, s = s1 ++ s2 ∧ Lang a (c :: s1) ∧ Lang b s2) ∨ (Lang a [] ∧ Lang b (c :: s)) := by
      rw [lang_cat]
      constructor
      · rintro ⟨s1, s2, h, h1, h2⟩
        cases s1 with
        | nil => simp at h; subst h; exact .inr ⟨h1, h2⟩
        | cons c' s1' =>
          simp only [List.cons_append, List.cons.injEq] at h
          obtain ⟨rfl, rfl⟩ := h
          exact .inl ⟨s1', s2, rfl, h1, h2⟩
      · rintro (⟨s1, s2, rfl, h1, h2⟩ | ⟨h1, h2⟩)
        · exact ⟨c :: s1, s2, rfl, h1, h2⟩
        · exact ⟨[], c :: s, rfl, h1, h2⟩
    rw [key]
    simp only [deriv]
    split
    · rename_i hn
      have hn' := (nullable_iff a).1 hn
      simp only [lang_mkAlt, lang_alt, lang_mkCat, lang_cat, iha, ihb]
      constructor
      · rintro (h | h)
        · exact .inl h
        · exact .inr ⟨hn', h⟩
      · rintro (h | ⟨_, h⟩)
        · exact .inl h
        · exact .inr h
    · rename_i hn
      have hn' : ¬ Lang a [] := fun h => hn ((nullable_iff a).2 h)
      simp only [lang_mkCat, lang_cat, iha]
      constructor
      · intro h; exact .inl h
      · rintro (h | ⟨h, _⟩)
        · exact h
        · exact absurd h hn'
  | star a iha =>
    intro s
    simp only [deriv, lang_mkCat, lang_cat, iha, lang_star_cons]

theorem accepts_iff (r : Re) (s : List Char) : accepts r s = true ↔ Lang r s := by
  induction s generalizing r with
  | nil => simp [accepts, nullable_iff]
  | cons c s ih => simp [accepts, ih, deriv_iff]

instance (r : Re) (s : List Char) : Decidable (Lang r s) :=
  decidable_of_iff _ (accepts_iff r s)

/-! ### derived forms -/

theorem lang_plus {a s} : Lang (Re.plus a) s ↔ ∃ s1 s2, s = s1 ++ s2 ∧ Lang a s1 ∧ Lang (.star a) s2 := by
  simp [Re.plus, lang_cat]

theorem lang_opt {a s} : Lang (Re.opt a) s ↔ Lang a s ∨ s = [] := by
  simp [Re.opt, lang_alt, lang_eps]

/-- words of a bounded repetition of a char class -/
theorem lang_optN_cls (rs : List (Nat × Nat)) : ∀ (n : Nat) (s : List Char),
    s.length ≤ n → (∀ c ∈ s, clsMem rs c = true) → Lang (Re.optN (.cls rs) n) s
  | 0, s, hlen, _ => by
    have : s = [] := by cases s <;> simp_all
    subst this; exact .eps
  | n + 1, [], _, _ => lang_opt.2 (.inr rfl)
  | n + 1, c :: t, hlen, hall => by
    have ih := lang_optN_cls rs n t (by simp at hlen; omega) (fun x hx => hall x (by simp [hx]))
    have : Lang (.cat (.cls rs) (Re.optN (.cls rs) n)) ([c] ++ t) :=
      .cat (.cls (hall c (by simp))) ih
    exact lang_opt.2 (.inl (by simpa using this))

/-- every word of `(cls rs)*` consists of chars of the class -/
theorem lang_star_cls {rs s} (h : Lang (.star (.cls rs)) s) : ∀ c ∈ s, clsMem rs c = true := by
  generalize hr : Re.star (.cls rs) = r at h
  induction h with
  | eps => cases hr
  | cls _ => cases hr
  | cat _ _ => cases hr
  | altL _ => cases hr
  | altR _ => cases hr
  | starNil => simp
  | @starCons a' s1 t h1 _ _ ih2 =>
    cases hr
    obtain ⟨c', rfl, hc'⟩ := lang_cls.1 h1
    intro c hc
    simp only [List.cons_append, List.nil_append, List.mem_cons] at hc
    rcases hc with rfl | hc
    · exact hc'
    · exact ih2 rfl c hc

theorem lang_plus_cls {rs s} (h : Lang (Re.plus (.cls rs)) s) :
    s ≠ [] ∧ ∀ c ∈ s, clsMem rs c = true := by
  obtain ⟨s1, s2, rfl, h1, h2⟩ := lang_plus.1 h
  obtain ⟨c, rfl, hc⟩ := lang_cls.1 h1
  refine ⟨by simp, ?_⟩
  intro x hx
  simp only [List.cons_append, List.nil_append, List.mem_cons] at hx
  rcases hx with rfl | hx
  · exact hc
  · exact lang_star_cls h2 x hx

end Ledger.Regex
