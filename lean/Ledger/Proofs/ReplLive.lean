import Ledger.Proofs.ReplSafe

/-! Liveness of the replication model: finite failure-free paths to delivery. -/
namespace Ledger.Repl

theorem run_append (c : Cfg) (s : State) (l1 l2 : List Label) :
    run c s (l1 ++ l2) = (run c s l1).bind (fun s1 => run c s1 l2) := by
  induction l1 generalizing s with
  | nil => simp [run]
  | cons l ls ih =>
    simp only [List.cons_append, run]
    cases step c s l with
    | none => simp
    | some s1 => simpa using ih s1

theorem reach_run {c : Cfg} {s s' : State} {ls : List Label} (r : Reach c s) (h : run c s ls = some s') :
    Reach c s' := by
  induction ls generalizing s with
  | nil => simp [run] at h; subst h; exact r
  | cons l ls ih =>
    simp only [run] at h
    cases hs : step c s l with
    | none => simp [hs] at h
    | some s1 => simp [hs] at h; exact ih (Reach.step l r hs) h

/-- `s'` is reached from `s` by labels satisfying `p` only. -/
def Steps (c : Cfg) (p : Label → Bool) (s s' : State) : Prop :=
  ∃ ls : List Label, (∀ l ∈ ls, p l = true) ∧ run c s ls = some s'

theorem Steps.refl {c : Cfg} {p : Label → Bool} (s : State) : Steps c p s s := ⟨[], by simp, rfl⟩

theorem Steps.trans {c : Cfg} {p : Label → Bool} {s1 s2 s3 : State} (a : Steps c p s1 s2) (b : Steps c p s2 s3) :
    Steps c p s1 s3 := by
  obtain ⟨l1, p1, r1⟩ := a
  obtain ⟨l2, p2, r2⟩ := b
  refine ⟨l1 ++ l2, ?_, ?_⟩
  · intro l hl
    rcases List.mem_append.mp hl with h | h
    · exact p1 l h
    · exact p2 l h
  · rw [run_append, r1]; simpa using r2

theorem Steps.single {c : Cfg} {p : Label → Bool} {s s' : State} (l : Label) (hp : p l = true)
    (h : step c s l = some s') : Steps c p s s' := ⟨[l], by simpa using hp, by simp [run, h]⟩

theorem Steps.mono {c : Cfg} {p q : Label → Bool} {s s' : State} (h : ∀ l, p l = true → q l = true)
    (a : Steps c p s s') : Steps c q s s' := by
  obtain ⟨ls, hp, hr⟩ := a
  exact ⟨ls, fun l hl => h l (hp l hl), hr⟩

theorem Steps.reach {c : Cfg} {p : Label → Bool} {s s' : State} (a : Steps c p s s') (r : Reach c s) : Reach c s' := by
  obtain ⟨ls, _, hr⟩ := a
  exact reach_run r hr

/-- The handler sits in `ListLogs` with cursor `last`, no stop requested. -/
def AtFetch (s : State) (last : Nat) : Prop :=
  ∃ h, s.handler = some h ∧ h.pc = .atFetch ∧ h.stopReq = false ∧ h.last = last

/-- from `sending`: the persister takes the value, the handler goes on to the next fetch -/
theorem steps_from_sending {c : Cfg} {s : State} {h : Handler} {m : Bool} (w : WF s)
    (hh : s.handler = some h) (hpc : h.pc = .sending m) (hns : h.stopReq = false) :
    ∃ s', Steps c Label.progress s s' ∧ AtFetch s' h.last ∧ s'.nLogs = s.nLogs ∧ s'.recv = s.recv := by
  have hc := w.sendingBusy h m hh hpc
  cases hcur : s.cur with
  | none => exact absurd hcur hc
  | some v =>
    cases m with
    | true =>
      have : ∃ s1, step c s (.persist s.orphans.length true false) = some s1 ∧
          AtFetch s1 h.last ∧ s1.nLogs = s.nLogs ∧ s1.recv = s.recv := by
        simp [step, hcur, hh, hpc, afterSend, hns, AtFetch, write]
        split <;> simp
      obtain ⟨s1, e, p⟩ := this
      exact ⟨s1, Steps.single _ rfl e, p⟩
    | false =>
      have : ∃ s1, step c s (.persist s.orphans.length true false) = some s1 ∧
          (∃ s2, step c s1 .tick = some s2 ∧
          AtFetch s2 h.last ∧ s2.nLogs = s.nLogs ∧ s2.recv = s.recv) := by
        simp [step, hcur, hh, hpc, afterSend, atSelect, hns, AtFetch, write]
        split <;> simp
      obtain ⟨s1, e1, s2, e2, p⟩ := this
      exact ⟨s2, (Steps.single _ rfl e1).trans (Steps.single _ rfl e2), p⟩


/-- from `exporting`: the exporter accepts, the cursor advances, on to the next fetch -/
theorem steps_from_exporting {c : Cfg} {s : State} {h : Handler} {lo hi : Nat} {m : Bool} (w : WF s)
    (hh : s.handler = some h) (hpc : h.pc = .exporting lo hi m) (hns : h.stopReq = false) :
    ∃ s', Steps c Label.progress s s' ∧ AtFetch s' hi ∧ s'.nLogs = s.nLogs ∧
      s'.recv = (lo, hi) :: s.recv := by
  cases hcur : s.cur with
  | none =>
    cases m with
    | true =>
      have : ∃ s1, step c s (.accept .ok) = some s1 ∧
          AtFetch s1 hi ∧ s1.nLogs = s.nLogs ∧ s1.recv = (lo, hi) :: s.recv := by
        simp [step, hcur, hh, hpc, afterSend, hns, AtFetch, deliver, ack]
      obtain ⟨s1, e, p⟩ := this
      exact ⟨s1, Steps.single _ rfl e, p⟩
    | false =>
      have : ∃ s1, step c s (.accept .ok) = some s1 ∧ (∃ s2, step c s1 .tick = some s2 ∧
          AtFetch s2 hi ∧ s2.nLogs = s.nLogs ∧ s2.recv = (lo, hi) :: s.recv) := by
        simp [step, hcur, hh, hpc, afterSend, atSelect, hns, AtFetch, deliver, ack]
      obtain ⟨s1, e1, s2, e2, p⟩ := this
      exact ⟨s2, (Steps.single _ rfl e1).trans (Steps.single _ rfl e2), p⟩
  | some v =>
    have : ∃ s1, step c s (.accept .ok) = some s1 ∧ (∃ h1, s1.handler = some h1 ∧ h1.pc = .sending m ∧
        h1.stopReq = false ∧ h1.last = hi) ∧ s1.nLogs = s.nLogs ∧ s1.recv = (lo, hi) :: s.recv := by
      simp [step, hcur, hh, hpc, hns, deliver, ack]
    obtain ⟨s1, e1, ⟨h1, hh1, hpc1, hns1, hl1⟩, hn1, hr1⟩ := this
    obtain ⟨s2, st, p1, p2, p3⟩ := steps_from_sending (c := c) (wf_step w e1) hh1 hpc1 hns1
    exact ⟨s2, (Steps.single _ rfl e1).trans st, by rw [← hl1]; exact p1, by rw [p2, hn1], by rw [p3, hr1]⟩

/-- Any running, not-stopping handler gets (back) to `ListLogs`; on the way it
    either keeps cursor and `recv`, or delivers the batch it was holding. -/
theorem steps_to_fetch {c : Cfg} {s : State} {h : Handler} (w : WF s)
    (hh : s.handler = some h) (hns : h.stopReq = false) :
    ∃ s', Steps c Label.progress s s' ∧ s'.nLogs = s.nLogs ∧
      ((AtFetch s' h.last ∧ s'.recv = s.recv) ∨
       (∃ hi, h.last < hi ∧ AtFetch s' hi ∧ s'.recv = (h.last, hi) :: s.recv)) := by
  have hok := w.pcOk h hh
  cases hpc : h.pc with
  | idle =>
    have : ∃ s1, step c s .tick = some s1 ∧ s1.nLogs = s.nLogs ∧ AtFetch s1 h.last ∧ s1.recv = s.recv := by
      simp [step, hh, hpc, AtFetch, hns]
    obtain ⟨s1, e, p1, p2, p3⟩ := this
    exact ⟨s1, Steps.single _ rfl e, p1, Or.inl ⟨p2, p3⟩⟩
  | atFetch => exact ⟨s, Steps.refl s, rfl, Or.inl ⟨⟨h, hh, hpc, hns, rfl⟩, rfl⟩⟩
  | fetchErr =>
    cases hz : h.zero with
    | true =>
      have : ∃ s1, step c s .tick = some s1 ∧ s1.nLogs = s.nLogs ∧ AtFetch s1 h.last ∧ s1.recv = s.recv := by
        simp [step, hh, hpc, AtFetch, hns, hz]
      obtain ⟨s1, e, p1, p2, p3⟩ := this
      exact ⟨s1, Steps.single _ rfl e, p1, Or.inl ⟨p2, p3⟩⟩
    | false =>
      have : ∃ s1, step c s .tick = some s1 ∧ (∃ s2, step c s1 .tick = some s2 ∧
          s2.nLogs = s.nLogs ∧ AtFetch s2 h.last ∧ s2.recv = s.recv) := by
        simp [step, hh, hpc, AtFetch, hns, hz]
      obtain ⟨s1, e1, s2, e2, p1, p2, p3⟩ := this
      exact ⟨s2, (Steps.single _ rfl e1).trans (Steps.single _ rfl e2), p1, Or.inl ⟨p2, p3⟩⟩
  | exporting lo hi m =>
    simp only [PcOk, hpc] at hok
    obtain ⟨s', st, p1, p2, p3⟩ := steps_from_exporting (c := c) w hh hpc hns
    exact ⟨s', st, p2, Or.inr ⟨hi, by omega, p1, by rw [p3, hok.1]⟩⟩
  | retry lo hi m =>
    simp only [PcOk, hpc] at hok
    have : ∃ s1, step c s .tick = some s1 ∧ (∃ h1, s1.handler = some h1 ∧ h1.pc = .exporting lo hi m ∧
        h1.stopReq = false) ∧ s1.nLogs = s.nLogs ∧ s1.recv = s.recv := by
      simp [step, hh, hpc, hns]
    obtain ⟨s1, e1, ⟨h1, hh1, hpc1, hns1⟩, hn1, hr1⟩ := this
    obtain ⟨s', st, p1, p2, p3⟩ := steps_from_exporting (c := c) (wf_step w e1) hh1 hpc1 hns1
    exact ⟨s', (Steps.single _ rfl e1).trans st, by rw [p2, hn1],
      Or.inr ⟨hi, by omega, p1, by rw [p3, hr1, hok.1]⟩⟩
  | sending m =>
    obtain ⟨s', st, p1, p2, p3⟩ := steps_from_sending (c := c) w hh hpc hns
    exact ⟨s', st, p2, Or.inl ⟨p1, p3⟩⟩


theorem wf_run {c : Cfg} {s s' : State} {ls : List Label} (w : WF s) (h : run c s ls = some s') : WF s' := by
  induction ls generalizing s with
  | nil => simp [run] at h; subst h; exact w
  | cons l ls ih =>
    simp only [run] at h
    cases hs : step c s l with
    | none => simp [hs] at h
    | some s1 => simp [hs] at h; exact ih (wf_step w hs) h

theorem Steps.wf {c : Cfg} {p : Label → Bool} {s s' : State} (a : Steps c p s s') (w : WF s) : WF s' := by
  obtain ⟨ls, _, hr⟩ := a
  exact wf_run w hr

/-- one full round: fetch the next page, export it, advance -/
theorem steps_round {c : Cfg} {s : State} {last : Nat} (hps : 1 ≤ c.ps) (w : WF s) (ha : AtFetch s last)
    (hl : last < s.nLogs) :
    ∃ s', Steps c Label.progress s s' ∧ s'.nLogs = s.nLogs ∧ AtFetch s' (min (last + c.ps) s.nLogs) ∧
      s'.recv = (last, min (last + c.ps) s.nLogs) :: s.recv := by
  obtain ⟨h, hh, hpc, hns, hlast⟩ := ha
  subst hlast
  have hlt : h.last < min (h.last + c.ps) s.nLogs := by omega
  have : ∃ s1, step c s (.fetch true) = some s1 ∧ (∃ h1, s1.handler = some h1 ∧
      h1.pc = .exporting h.last (min (h.last + c.ps) s.nLogs) (decide (h.last + c.ps < s.nLogs)) ∧
      h1.stopReq = false) ∧ s1.nLogs = s.nLogs ∧ s1.recv = s.recv := by
    simp [step, hh, hpc, hns, hlt, atSelect]
  obtain ⟨s1, e1, ⟨h1, hh1, hpc1, hns1⟩, hn1, hr1⟩ := this
  obtain ⟨s', st, p1, p2, p3⟩ := steps_from_exporting (c := c) (wf_step w e1) hh1 hpc1 hns1
  exact ⟨s', (Steps.single _ rfl e1).trans st, by rw [p2, hn1], p1, by rw [p3, hr1]⟩

theorem deliver_from_fetch {c : Cfg} (hps : 1 ≤ c.ps) (k : Nat) :
    ∀ (n : Nat) (s : State) (last : Nat), WF s → AtFetch s last → last < k → k ≤ s.nLogs → k - last ≤ n →
      ∃ s', Steps c Label.progress s s' ∧ Delivered s' k := by
  intro n
  induction n with
  | zero => intro s last _ _ h1 _ h3; omega
  | succ n ih =>
    intro s last w ha h1 h2 h3
    obtain ⟨s1, st, hn, ha1, hr⟩ := steps_round hps w ha (by omega)
    by_cases hk : k ≤ min (last + c.ps) s.nLogs
    · exact ⟨s1, st, (last, min (last + c.ps) s.nLogs), by rw [hr]; exact List.mem_cons_self, h1, hk⟩
    · obtain ⟨s2, st2, d⟩ := ih s1 _ (st.wf w) ha1 (by omega) (by rw [hn]; exact h2) (by omega)
      exact ⟨s2, st.trans st2, d⟩

/-- **Progress from the cursor** (every configuration, including the code as it is):
    a running handler that is not being stopped delivers every log beyond its
    cursor after finitely many failure-free steps. -/
theorem deliver_beyond_cursor {c : Cfg} (hps : 1 ≤ c.ps) {s : State} {h : Handler} {k : Nat} (w : WF s)
    (hh : s.handler = some h) (hns : h.stopReq = false) (h1 : h.last < k) (h2 : k ≤ s.nLogs) :
    ∃ s', Steps c Label.progress s s' ∧ Delivered s' k := by
  obtain ⟨s1, st, hn, hcase⟩ := steps_to_fetch (c := c) w hh hns
  rcases hcase with ⟨ha, _⟩ | ⟨hi, hlt, ha, hr⟩
  · obtain ⟨s2, st2, d⟩ := deliver_from_fetch hps k (k - h.last) s1 h.last (st.wf w) ha h1 (by rw [hn]; exact h2) (Nat.le_refl _)
    exact ⟨s2, st.trans st2, d⟩
  · by_cases hk : k ≤ hi
    · exact ⟨s1, st, (h.last, hi), by rw [hr]; exact List.mem_cons_self, h1, hk⟩
    · obtain ⟨s2, st2, d⟩ := deliver_from_fetch hps k (k - hi) s1 hi (st.wf w) ha (by omega) (by rw [hn]; exact h2) (Nat.le_refl _)
      exact ⟨s2, st.trans st2, d⟩


theorem progress_recovery (l : Label) (h : l.progress = true) : l.recovery = true := by
  cases l <;> simp_all [Label.recovery]

theorem exit_result (c : Cfg) (s : State) :
    (exitHandler c s).nLogs = s.nLogs ∧ (exitHandler c s).created = s.created ∧
    ((exitHandler c s).handler = none ∨
      ∃ h1, (exitHandler c s).handler = some h1 ∧ h1.stopReq = false) := by
  unfold exitHandler finishOp
  split <;> (try split) <;> (try split) <;> simp_all [startHandler, resetRow]

theorem atSelect_stop {c : Cfg} {s : State} {h : Handler} {next : Pc} (hst : h.stopReq = true) :
    atSelect c s h next = exitHandler c s := by simp [atSelect, hst]

@[simp] theorem write_nLogs (ok : Bool) (v : Nat) (s : State) : (write ok v s).nLogs = s.nLogs := by
  unfold write; split <;> rfl

@[simp] theorem write_created (ok : Bool) (v : Nat) (s : State) : (write ok v s).created = s.created := by
  unfold write; split <;> rfl

/-- a requested stop is eventually noticed -/
theorem steps_stop_completes {c : Cfg} {s : State} {h : Handler} (w : WF s) (hh : s.handler = some h)
    (hst : h.stopReq = true) :
    ∃ s', Steps c Label.progress s s' ∧ s'.nLogs = s.nLogs ∧ s'.created = s.created ∧
      (s'.handler = none ∨ ∃ h1, s'.handler = some h1 ∧ h1.stopReq = false) := by
  rcases (w.stopPending h hh hst).2 with hpc | ⟨m, hpc⟩
  · have e : step c s (.fetch true) = some (exitHandler c s) := by
      simp [step, hh, hpc, atSelect, hst]
    exact ⟨_, Steps.single _ rfl e, exit_result c s⟩
  · have hc := w.sendingBusy h m hh hpc
    cases hcur : s.cur with
    | none => exact absurd hcur hc
    | some v =>
      obtain ⟨S1, hS1⟩ : ∃ S1 : State, S1 = { write true v { s with cur := none } with cur := some h.last } :=
        ⟨_, rfl⟩
      have e : step c s (.persist s.orphans.length true true) = some (exitHandler c S1) := by
        subst hS1
        cases m <;> simp [step, hh, hpc, hcur, afterSend, atSelect, hst]
      have hn : S1.nLogs = s.nLogs := by subst hS1; simp
      have hcr : S1.created = s.created := by subst hS1; simp
      have hx := exit_result c S1
      rw [hn, hcr] at hx
      exact ⟨_, Steps.single _ rfl e, hx⟩

/-- a stopped pipeline / manager is brought back by `sync` / manager start -/
theorem steps_restart {c : Cfg} {s : State} (w : WF s) (hn : s.handler = none) (hc : s.created = true) :
    ∃ s', Steps c Label.recovery s s' ∧ s'.nLogs = s.nLogs ∧
      ∃ h1, s'.handler = some h1 ∧ h1.stopReq = false := by
  have hp := pending_none_of w hn
  cases hm : s.mgrUp with
  | true =>
    have : ∃ s1, step c s .sync = some s1 ∧ s1.nLogs = s.nLogs ∧
        ∃ h1, s1.handler = some h1 ∧ h1.stopReq = false := by
      simp [step, opsOpen, hm, hp, hc, hn, startHandler]
    obtain ⟨s1, e, p⟩ := this
    exact ⟨s1, Steps.single _ rfl e, p⟩
  | false =>
    have : ∃ s1, step c s .mgrStart = some s1 ∧ s1.nLogs = s.nLogs ∧
        ∃ h1, s1.handler = some h1 ∧ h1.stopReq = false := by
      simp [step, hm, hp, hc, startHandler]
    obtain ⟨s1, e, p⟩ := this
    exact ⟨s1, Steps.single _ rfl e, p⟩

/-- from every state of a created pipeline, a running handler that is not being
    stopped is reachable by recovery steps -/
theorem steps_to_running {c : Cfg} {s : State} (w : WF s) (hc : s.created = true) :
    ∃ s', Steps c Label.recovery s s' ∧ s'.nLogs = s.nLogs ∧
      ∃ h1, s'.handler = some h1 ∧ h1.stopReq = false := by
  cases hh : s.handler with
  | none => exact steps_restart w hh hc
  | some h =>
    cases hst : h.stopReq with
    | false => exact ⟨s, Steps.refl s, rfl, h, hh, hst⟩
    | true =>
      obtain ⟨s1, st, hn, hcr, hcase⟩ := steps_stop_completes (c := c) w hh hst
      have st' := st.mono progress_recovery
      rcases hcase with hnone | hrun
      · obtain ⟨s2, st2, hn2, p⟩ := steps_restart (c := c) (st.wf w) hnone (by rw [hcr]; exact hc)
        exact ⟨s2, st'.trans st2, by rw [hn2, hn], p⟩
      · exact ⟨s1, st', hn, hrun⟩

theorem delivered_of_le_cursor {c : Cfg} {s : State} {h : Handler} {k : Nat} (i : Inv c s)
    (hh : s.handler = some h) (h1 : 1 ≤ k) (h2 : k ≤ h.last) : Delivered s k := by
  have := i.last_le h hh
  have := i.ack_le
  exact i.chain.covers h1 (by omega)

/-- **At least once.** In a `Good` configuration, from EVERY reachable state of a
    created pipeline and for every committed log `k` there is a finite sequence of
    failure-free steps (plus `sync` / manager start if the pipeline or the manager
    is down) after which the exporter has received `k` since the last reset. As
    this holds in every reachable state, no step can disable progress for good. -/
theorem at_least_once_good {c : Cfg} (g : Good c) (hps : 1 ≤ c.ps) {s : State} (r : Reach c s)
    (hc : s.created = true) {k : Nat} (h1 : 1 ≤ k) (h2 : k ≤ s.nLogs) :
    ∃ s', Steps c Label.recovery s s' ∧ Delivered s' k := by
  obtain ⟨s1, st, hn, h, hh, hns⟩ := steps_to_running (c := c) (wf_reach r) hc
  have r1 := st.reach r
  by_cases hk : k ≤ h.last
  · exact ⟨s1, st, delivered_of_le_cursor (inv_reach g r1) hh h1 hk⟩
  · have hlt : h.last < k := by omega
    obtain ⟨s2, st2, d⟩ := deliver_beyond_cursor hps (wf_reach r1) hh hns hlt (by rw [hn]; exact h2)
    exact ⟨s2, st.trans (st2.mono progress_recovery), d⟩

end Ledger.Repl
