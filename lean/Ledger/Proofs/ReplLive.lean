import Ledger.Proofs.ReplSafe

/-! Liveness of the replication model: finite failure-free paths to delivery. -/
namespace Ledger.Repl

theorem run_append (c : Cfg) (s : State) (l1 l2 : List Label) :
    run c s (l1 ++ l2) = (run c s l1).bind (fun s1 => run c s1 l2) := by
  induction l1 generalizing s with
  | nil => simp [run]
  | cons l ls ih =>
    simp only [List.cons_append, run]
    cases step c s l with
    | none => simp
    | some s1 => simpa using ih s1

theorem reach_run {c : Cfg} {s s' : State} {ls : List Label} (r : Reach c s) (h : run c s ls = some s') :
    Reach c s' := by
  induction ls generalizing s with
  | nil => simp [run] at h; subst h; exact r
  | cons l ls ih =>
    simp only [run] at h
    cases hs : step c s l with
    | none => simp [hs] at h
    | some s1 => simp [hs] at h; exact ih (Reach.step l r hs) h

/-- `s'` is reached from `s` by labels satisfying `p` only. -/
def Steps (c : Cfg) (p : Label → Bool) (s s' : State) : Prop :=
  ∃ ls : List Label, (∀ l ∈ ls, p l = true) ∧ run c s ls = some s'

theorem Steps.refl {c : Cfg} {p : Label → Bool} (s : State) : Steps c p s s := ⟨[], by simp, rfl⟩

theorem Steps.trans {c : Cfg} {p : Label → Bool} {s1 s2 s3 : State} (a : Steps c p s1 s2) (b : Steps c p s2 s3) :
    Steps c p s1 s3 := by
  obtain ⟨l1, p1, r1⟩ := a
  obtain ⟨l2, p2, r2⟩ := b
  refine ⟨l1 ++ l2, ?_, ?_⟩
  · intro l hl
    rcases List.mem_append.mp hl with h | h
    · exact p1 l h
    · exact p2 l h
  · rw [run_append, r1]; simpa using r2

theorem Steps.single {c : Cfg} {p : Label → Bool} {s s' : State} (l : Label) (hp : p l = true)
    (h : step c s l = some s') : Steps c p s s' := ⟨[l], by simpa using hp, by simp [run, h]⟩

theorem Steps.mono {c : Cfg} {p q : Label → Bool} {s s' : State} (h : ∀ l, p l = true → q l = true)
    (a : Steps c p s s') : Steps c q s s' := by
  obtain ⟨ls, hp, hr⟩ := a
  exact ⟨ls, fun l hl => h l (hp l hl), hr⟩

theorem Steps.reach {c : Cfg} {p : Label → Bool} {s s' : State} (a : Steps c p s s') (r : Reach c s) : Reach c s' := by
  obtain ⟨ls, _, hr⟩ := a
  exact reach_run r hr

/-- The handler sits in `ListLogs` with cursor `last`, no stop requested. -/
def AtFetch (s : State) (last : Nat) : Prop :=
  ∃ h, s.handler = some h ∧ h.pc = .atFetch ∧ h.stopReq = false ∧ h.last = last

/-- what every progress lemma keeps: the logs, and acknowledgements only grow -/
def Keeps (s s' : State) : Prop := s'.nLogs = s.nLogs ∧ ∀ k, k ∈ s.acked → k ∈ s'.acked

theorem Keeps.refl (s : State) : Keeps s s := ⟨rfl, fun _ h => h⟩

theorem Keeps.trans {s1 s2 s3 : State} (a : Keeps s1 s2) (b : Keeps s2 s3) : Keeps s1 s3 :=
  ⟨by rw [b.1, a.1], fun k h => b.2 k (a.2 k h)⟩

theorem wf_run {c : Cfg} {s s' : State} {ls : List Label} (w : WF s) (h : run c s ls = some s') : WF s' := by
  induction ls generalizing s with
  | nil => simp [run] at h; subst h; exact w
  | cons l ls ih =>
    simp only [run] at h
    cases hs : step c s l with
    | none => simp [hs] at h
    | some s1 => simp [hs] at h; exact ih (wf_step w hs) h

theorem Steps.wf {c : Cfg} {p : Label → Bool} {s s' : State} (a : Steps c p s s') (w : WF s) : WF s' := by
  obtain ⟨ls, _, hr⟩ := a
  exact wf_run w hr

/-- from `sending`: the persister takes the value, the handler goes on to the next fetch -/
theorem steps_from_sending {c : Cfg} {s : State} {h : Handler} {m : Bool} (w : WF s)
    (hh : s.handler = some h) (hpc : h.pc = .sending m) (hns : h.stopReq = false) :
    ∃ s', Steps c Label.progress s s' ∧ AtFetch s' h.last ∧ Keeps s s' := by
  have hc := w.sendingBusy h m hh hpc
  cases hcur : s.cur with
  | none => exact absurd hcur hc
  | some v =>
    cases m with
    | true =>
      have : ∃ s1, step c s (.persist s.orphans.length true false) = some s1 ∧
          AtFetch s1 h.last ∧ Keeps s s1 := by
        simp [step, hcur, hh, hpc, afterSend, hns, AtFetch, write, Keeps]
        split <;> simp
      obtain ⟨s1, e, p⟩ := this
      exact ⟨s1, Steps.single _ rfl e, p⟩
    | false =>
      have : ∃ s1, step c s (.persist s.orphans.length true false) = some s1 ∧
          (∃ s2, step c s1 .tick = some s2 ∧ AtFetch s2 h.last ∧ Keeps s s2) := by
        simp [step, hcur, hh, hpc, afterSend, atSelect, hns, AtFetch, write, Keeps]
        split <;> simp
      obtain ⟨s1, e1, s2, e2, p⟩ := this
      exact ⟨s2, (Steps.single _ rfl e1).trans (Steps.single _ rfl e2), p⟩

/-- after `Accept` returned nil: the cursor is at the end of the page; on to the next fetch -/
theorem steps_after_done {c : Cfg} {s1 : State} {h : Handler} {hi : Nat} {more : Bool} (w : WF s1)
    (hh : s1.handler = some h) (hne : ∀ m, h.pc ≠ .sending m) (hns : h.stopReq = false) :
    ∃ s', Steps c Label.progress (exportDone c s1 h hi more) s' ∧ AtFetch s' hi ∧ Keeps s1 s' := by
  have wd := wf_exportDone (c := c) (hi := hi) (more := more) w hh hne
  cases hcur : s1.cur with
  | none =>
    cases more with
    | true =>
      refine ⟨_, Steps.refl _, ?_, ?_⟩ <;>
        simp [exportDone, hcur, afterSend, hns, AtFetch, Keeps, ack]
    | false =>
      have : ∃ s2, step c (exportDone c s1 h hi false) .tick = some s2 ∧ AtFetch s2 hi ∧ Keeps s1 s2 := by
        simp [step, exportDone, hcur, afterSend, atSelect, hns, AtFetch, Keeps, ack]
      obtain ⟨s2, e, p⟩ := this
      exact ⟨s2, Steps.single _ rfl e, p⟩
  | some v =>
    have e : exportDone c s1 h hi more =
        { ack s1 hi with handler := some { h with last := hi, pc := .sending more } } := by
      simp [exportDone, hcur]
    rw [e] at wd ⊢
    obtain ⟨s', st, p1, p2⟩ := steps_from_sending (c := c) (m := more) wd rfl rfl hns
    exact ⟨s', st, p1, ⟨by rw [p2.1]; rfl, fun k hk => p2.2 k (by simpa [ack] using hk)⟩⟩

/-- The remaining chunks of a page all go through the exporter (failure-free):
    with an earlier failure the handler ends in `retry`, otherwise the cursor
    advances and every remaining log of the page has been acknowledged. -/
theorem steps_finish_export {c : Cfg} (n : Nat) :
    ∀ (s : State) (h : Handler) (lo hi : Nat) (more : Bool) (pos : Nat) (bad gate : Bool), WF s →
      s.handler = some h → h.pc = .exporting lo hi more pos bad gate → h.stopReq = false → pos < hi →
      hi - pos ≤ n →
      ∃ s', Steps c Label.progress s s' ∧ Keeps s s' ∧
        (bad = true → ∃ h', s'.handler = some h' ∧ h'.pc = .retry lo hi more ∧ h'.stopReq = false ∧
          h'.last = h.last) ∧
        (bad = false → AtFetch s' hi ∧ ∀ k, pos < k → k ≤ hi → k ∈ s'.acked) := by
  induction n with
  | zero => intro s h lo hi more pos bad gate _ _ _ _ h1 h2; omega
  | succ n ih =>
    intro s h lo hi more pos bad gate w hh hpc hns hph hn
    -- the chunk at the exporter
    have key : ∀ (s : State) (h : Handler), WF s → s.handler = some h →
        h.pc = .exporting lo hi more pos bad true → h.stopReq = false →
        ∃ s', Steps c Label.progress s s' ∧ Keeps s s' ∧
          (bad = true → ∃ h', s'.handler = some h' ∧ h'.pc = .retry lo hi more ∧ h'.stopReq = false ∧
            h'.last = h.last) ∧
          (bad = false → AtFetch s' hi ∧ ∀ k, pos < k → k ≤ hi → k ∈ s'.acked) := by
      intro s h w hh hpc hns
      have hb := chunkEnd_bounds (c := c) hph
      have hmono := exporterCall_acked_mono s pos (chunkEnd c pos hi) .ok
      have hnew : ∀ k, pos < k → k ≤ chunkEnd c pos hi → k ∈ (exporterCall s pos (chunkEnd c pos hi) .ok).acked := by
        intro k h1 h2
        simp only [exporterCall, ackItems]
        exact List.mem_append_left _ (mem_idsOf.mpr ⟨h1, h2⟩)
      have f := exporterCall_fields s pos (chunkEnd c pos hi) .ok
      by_cases hlt : chunkEnd c pos hi < hi
      · obtain ⟨S1, hS1⟩ : ∃ S1 : State, S1 = { exporterCall s pos (chunkEnd c pos hi) .ok with
            handler := some { h with
              pc := .exporting lo hi more (chunkEnd c pos hi) bad (chunkFull c (chunkEnd c pos hi) hi) } } :=
          ⟨_, rfl⟩
        have e : step c s (.accept .ok) = some S1 := by
          subst hS1; simp [step, hh, hpc, hlt, AcceptRes.isOk]
        have k1 : Keeps s S1 := by
          subst hS1; exact ⟨f.1, hmono⟩
        obtain ⟨s', st, k2, hbad, hgood⟩ := ih S1
          { h with pc := .exporting lo hi more (chunkEnd c pos hi) bad (chunkFull c (chunkEnd c pos hi) hi) }
          lo hi more (chunkEnd c pos hi) bad _ (wf_step w e) (by subst hS1; rfl) rfl hns hlt (by omega)
        refine ⟨s', (Steps.single _ rfl e).trans st, k1.trans k2, hbad, ?_⟩
        intro hb0
        obtain ⟨ha, hk⟩ := hgood hb0
        refine ⟨ha, fun k h1 h2 => ?_⟩
        by_cases hkb : k ≤ chunkEnd c pos hi
        · exact k2.2 k (by subst hS1; exact hnew k h1 hkb)
        · exact hk k (by omega) h2
      · have hend : chunkEnd c pos hi = hi := by omega
        cases bad with
        | true =>
          have : ∃ s1, step c s (.accept .ok) = some s1 ∧ Keeps s s1 ∧
              ∃ h', s1.handler = some h' ∧ h'.pc = .retry lo hi more ∧ h'.stopReq = false ∧ h'.last = h.last := by
            simp [step, hh, hpc, hlt, atSelect, hns, Keeps, f.1]
            exact hmono
          obtain ⟨s1, e, k1, hr⟩ := this
          exact ⟨s1, Steps.single _ rfl e, k1, fun _ => hr, fun hb0 => by simp at hb0⟩
        | false =>
          have e : step c s (.accept .ok) =
              some (exportDone c (exporterCall s pos (chunkEnd c pos hi) .ok) h hi more) := by
            simp [step, hh, hpc, hlt, AcceptRes.isOk]
          obtain ⟨s', st, ha, k2⟩ := steps_after_done (c := c) (hi := hi) (more := more)
            (wf_exporterCall w pos (chunkEnd c pos hi) .ok) (by rw [f.2.1]; exact hh) (by simp [hpc]) hns
          refine ⟨s', (Steps.single _ rfl e).trans st, Keeps.trans ⟨f.1, hmono⟩ k2, fun hb0 => by simp at hb0,
            fun _ => ⟨ha, fun k h1 h2 => k2.2 k (hnew k h1 (by omega))⟩⟩
    cases gate with
    | true => exact key s h w hh hpc hns
    | false =>
      have : ∃ s0, step c s .tick = some s0 ∧ Keeps s s0 ∧
          ∃ h0, s0.handler = some h0 ∧ h0.pc = .exporting lo hi more pos bad true ∧ h0.stopReq = false ∧
            h0.last = h.last := by
        simp [step, hh, hpc, Keeps, hns]
      obtain ⟨s0, e, k0, h0, hh0, hpc0, hns0, hl0⟩ := this
      obtain ⟨s', st, k1, hbad, hgood⟩ := key s0 h0 (wf_step w e) hh0 hpc0 hns0
      exact ⟨s', (Steps.single _ rfl e).trans st, k0.trans k1, fun hb0 => by rw [← hl0]; exact hbad hb0, hgood⟩

/-- after a failed page: the retry timer fires and the whole page goes through -/
theorem steps_from_retry {c : Cfg} {s : State} {h : Handler} {lo hi : Nat} {more : Bool} (w : WF s)
    (hh : s.handler = some h) (hpc : h.pc = .retry lo hi more) (hns : h.stopReq = false) :
    ∃ s', Steps c Label.progress s s' ∧ Keeps s s' ∧ AtFetch s' hi ∧ ∀ k, lo < k → k ≤ hi → k ∈ s'.acked := by
  have hok := w.pcOk h hh
  simp only [PcOk, hpc] at hok
  have : ∃ s0, step c s .tick = some s0 ∧ Keeps s s0 ∧
      ∃ h0, s0.handler = some h0 ∧ h0.pc = .exporting lo hi more lo false (chunkFull c lo hi) ∧
        h0.stopReq = false := by
    simp [step, hh, hpc, Keeps, hns, enterExport]
  obtain ⟨s0, e, k0, h0, hh0, hpc0, hns0⟩ := this
  obtain ⟨s', st, k1, _, hgood⟩ := steps_finish_export (c := c) (hi - lo) s0 h0 lo hi more lo false _ (wf_step w e)
    hh0 hpc0 hns0 hok.2.1 (Nat.le_refl _)
  obtain ⟨ha, hk⟩ := hgood rfl
  exact ⟨s', (Steps.single _ rfl e).trans st, k0.trans k1, ha, hk⟩

/-- Any running, not-stopping handler gets (back) to `ListLogs`; whatever it held
    has then been acknowledged item by item. -/
theorem steps_to_fetch {c : Cfg} {s : State} {h : Handler} (w : WF s) (cl : Clean s)
    (hh : s.handler = some h) (hns : h.stopReq = false) :
    ∃ s' last', Steps c Label.progress s s' ∧ Keeps s s' ∧ AtFetch s' last' ∧ h.last ≤ last' ∧
      ∀ k, h.last < k → k ≤ last' → k ∈ s'.acked := by
  have hok := w.pcOk h hh
  cases hpc : h.pc with
  | idle =>
    have : ∃ s1, step c s .tick = some s1 ∧ Keeps s s1 ∧ AtFetch s1 h.last := by
      simp [step, hh, hpc, AtFetch, hns, Keeps]
    obtain ⟨s1, e, p1, p2⟩ := this
    exact ⟨s1, h.last, Steps.single _ rfl e, p1, p2, Nat.le_refl _, fun k h1 h2 => by omega⟩
  | atFetch =>
    exact ⟨s, h.last, Steps.refl s, Keeps.refl s, ⟨h, hh, hpc, hns, rfl⟩, Nat.le_refl _, fun k h1 h2 => by omega⟩
  | fetchErr =>
    cases hz : h.zero with
    | true =>
      have : ∃ s1, step c s .tick = some s1 ∧ Keeps s s1 ∧ AtFetch s1 h.last := by
        simp [step, hh, hpc, AtFetch, hns, hz, Keeps]
      obtain ⟨s1, e, p1, p2⟩ := this
      exact ⟨s1, h.last, Steps.single _ rfl e, p1, p2, Nat.le_refl _, fun k h1 h2 => by omega⟩
    | false =>
      have : ∃ s1, step c s .tick = some s1 ∧ (∃ s2, step c s1 .tick = some s2 ∧
          Keeps s s2 ∧ AtFetch s2 h.last) := by
        simp [step, hh, hpc, AtFetch, hns, hz, Keeps]
      obtain ⟨s1, e1, s2, e2, p1, p2⟩ := this
      exact ⟨s2, h.last, (Steps.single _ rfl e1).trans (Steps.single _ rfl e2), p1, p2, Nat.le_refl _,
        fun k h1 h2 => by omega⟩
  | exporting lo hi m pos bad gate =>
    simp only [PcOk, hpc] at hok
    obtain ⟨hlo, hlt, _, hlp, hph⟩ := hok
    obtain ⟨s1, st, k1, hbad, hgood⟩ := steps_finish_export (c := c) (hi - pos) s h lo hi m pos bad gate w hh hpc
      hns hph (Nat.le_refl _)
    cases bad with
    | false =>
      obtain ⟨ha, hk⟩ := hgood rfl
      refine ⟨s1, hi, st, k1, ha, by omega, fun k h1 h2 => ?_⟩
      by_cases hkp : k ≤ pos
      · exact k1.2 k (cl h lo hi m pos gate hh hpc k (by omega) hkp)
      · exact hk k (by omega) h2
    | true =>
      obtain ⟨h', hh', hpc', hns', hl'⟩ := hbad rfl
      obtain ⟨s2, st2, k2, ha, hk⟩ := steps_from_retry (c := c) (st.wf w) hh' hpc' hns'
      exact ⟨s2, hi, st.trans st2, k1.trans k2, ha, by omega, fun k h1 h2 => hk k (by omega) h2⟩
  | retry lo hi m =>
    simp only [PcOk, hpc] at hok
    obtain ⟨s1, st, k1, ha, hk⟩ := steps_from_retry (c := c) w hh hpc hns
    exact ⟨s1, hi, st, k1, ha, by omega, fun k h1 h2 => hk k (by omega) h2⟩
  | sending m =>
    obtain ⟨s', st, p1, p2⟩ := steps_from_sending (c := c) w hh hpc hns
    exact ⟨s', h.last, st, p2, p1, Nat.le_refl _, fun k h1 h2 => by omega⟩

/-- one full round: fetch the next page, export it chunk by chunk, advance -/
theorem steps_round {c : Cfg} {s : State} {last : Nat} (hps : 1 ≤ c.ps) (w : WF s) (ha : AtFetch s last)
    (hl : last < s.nLogs) :
    ∃ s', Steps c Label.progress s s' ∧ Keeps s s' ∧ AtFetch s' (min (last + c.ps) s.nLogs) ∧
      ∀ k, last < k → k ≤ min (last + c.ps) s.nLogs → k ∈ s'.acked := by
  obtain ⟨h, hh, hpc, hns, hlast⟩ := ha
  subst hlast
  have hlt : h.last < min (h.last + c.ps) s.nLogs := by omega
  have : ∃ s1, step c s (.fetch true) = some s1 ∧ Keeps s s1 ∧ (∃ h1, s1.handler = some h1 ∧
      h1.pc = .exporting h.last (min (h.last + c.ps) s.nLogs) (decide (h.last + c.ps < s.nLogs)) h.last false
        (chunkFull c h.last (min (h.last + c.ps) s.nLogs)) ∧
      h1.stopReq = false) := by
    simp [step, hh, hpc, hns, hlt, atSelect, Keeps, enterExport]
  obtain ⟨s1, e1, k1, h1, hh1, hpc1, hns1⟩ := this
  obtain ⟨s', st, k2, _, hgood⟩ := steps_finish_export (c := c) (min (h.last + c.ps) s.nLogs - h.last) s1 h1 _ _ _ _
    false _ (wf_step w e1) hh1 hpc1 hns1 hlt (Nat.le_refl _)
  obtain ⟨ha', hk⟩ := hgood rfl
  exact ⟨s', (Steps.single _ rfl e1).trans st, k1.trans k2, ha', hk⟩

theorem deliver_from_fetch {c : Cfg} (hps : 1 ≤ c.ps) (k : Nat) :
    ∀ (n : Nat) (s : State) (last : Nat), WF s → AtFetch s last → last < k → k ≤ s.nLogs → k - last ≤ n →
      ∃ s', Steps c Label.progress s s' ∧ Acked s' k := by
  intro n
  induction n with
  | zero => intro s last _ _ h1 _ h3; omega
  | succ n ih =>
    intro s last w ha h1 h2 h3
    obtain ⟨s1, st, kp, ha1, hr⟩ := steps_round hps w ha (by omega)
    by_cases hk : k ≤ min (last + c.ps) s.nLogs
    · exact ⟨s1, st, hr k h1 hk⟩
    · obtain ⟨s2, st2, d⟩ := ih s1 _ (st.wf w) ha1 (by omega) (by rw [kp.1]; exact h2) (by omega)
      exact ⟨s2, st.trans st2, d⟩

/-- **Progress from the cursor** (every configuration, including the code as it is):
    a running handler that is not being stopped gets every log beyond its cursor
    acknowledged by the exporter, item by item, after finitely many failure-free steps. -/
theorem deliver_beyond_cursor {c : Cfg} (hps : 1 ≤ c.ps) {s : State} {h : Handler} {k : Nat} (w : WF s)
    (cl : Clean s) (hh : s.handler = some h) (hns : h.stopReq = false) (h1 : h.last < k) (h2 : k ≤ s.nLogs) :
    ∃ s', Steps c Label.progress s s' ∧ Acked s' k := by
  obtain ⟨s1, last', st, kp, ha, hle, hk⟩ := steps_to_fetch (c := c) w cl hh hns
  by_cases hkl : k ≤ last'
  · exact ⟨s1, st, hk k h1 hkl⟩
  · obtain ⟨s2, st2, d⟩ := deliver_from_fetch hps k (k - last') s1 last' (st.wf w) ha (by omega)
      (by rw [kp.1]; exact h2) (Nat.le_refl _)
    exact ⟨s2, st.trans st2, d⟩

theorem progress_recovery (l : Label) (h : l.progress = true) : l.recovery = true := by
  cases l <;> simp_all [Label.recovery]

theorem exit_result (c : Cfg) (s : State) :
    (exitHandler c s).nLogs = s.nLogs ∧ (exitHandler c s).created = s.created ∧
    ((exitHandler c s).handler = none ∨
      ∃ h1, (exitHandler c s).handler = some h1 ∧ h1.stopReq = false) := by
  unfold exitHandler finishOp
  split <;> (try split) <;> (try split) <;> simp_all [startHandler, resetRow]

theorem atSelect_stop {c : Cfg} {s : State} {h : Handler} {next : Pc} (hst : h.stopReq = true) :
    atSelect c s h next = exitHandler c s := by simp [atSelect, hst]

@[simp] theorem write_nLogs (ok : Bool) (v : Nat) (s : State) : (write ok v s).nLogs = s.nLogs := by
  unfold write; split <;> rfl

@[simp] theorem write_created (ok : Bool) (v : Nat) (s : State) : (write ok v s).created = s.created := by
  unfold write; split <;> rfl

/-- a requested stop is eventually noticed -/
theorem steps_stop_completes {c : Cfg} {s : State} {h : Handler} (w : WF s) (hh : s.handler = some h)
    (hst : h.stopReq = true) :
    ∃ s', Steps c Label.progress s s' ∧ s'.nLogs = s.nLogs ∧ s'.created = s.created ∧
      (s'.handler = none ∨ ∃ h1, s'.handler = some h1 ∧ h1.stopReq = false) := by
  rcases (w.stopPending h hh hst).2 with hpc | ⟨m, hpc⟩
  · have e : step c s (.fetch true) = some (exitHandler c s) := by
      simp [step, hh, hpc, atSelect, hst]
    exact ⟨_, Steps.single _ rfl e, exit_result c s⟩
  · have hc := w.sendingBusy h m hh hpc
    cases hcur : s.cur with
    | none => exact absurd hcur hc
    | some v =>
      obtain ⟨S1, hS1⟩ : ∃ S1 : State, S1 = { write true v { s with cur := none } with cur := some h.last } :=
        ⟨_, rfl⟩
      have e : step c s (.persist s.orphans.length true true) = some (exitHandler c S1) := by
        subst hS1
        cases m <;> simp [step, hh, hpc, hcur, afterSend, atSelect, hst]
      have hn : S1.nLogs = s.nLogs := by subst hS1; simp
      have hcr : S1.created = s.created := by subst hS1; simp
      have hx := exit_result c S1
      rw [hn, hcr] at hx
      exact ⟨_, Steps.single _ rfl e, hx⟩

/-- a stopped pipeline / manager is brought back by `sync` / manager start -/
theorem steps_restart {c : Cfg} {s : State} (w : WF s) (hn : s.handler = none) (hc : s.created = true) :
    ∃ s', Steps c Label.recovery s s' ∧ s'.nLogs = s.nLogs ∧
      ∃ h1, s'.handler = some h1 ∧ h1.stopReq = false := by
  have hp := pending_none_of w hn
  cases hm : s.mgrUp with
  | true =>
    have : ∃ s1, step c s .sync = some s1 ∧ s1.nLogs = s.nLogs ∧
        ∃ h1, s1.handler = some h1 ∧ h1.stopReq = false := by
      simp [step, opsOpen, hm, hp, hc, hn, startHandler]
    obtain ⟨s1, e, p⟩ := this
    exact ⟨s1, Steps.single _ rfl e, p⟩
  | false =>
    have : ∃ s1, step c s .mgrStart = some s1 ∧ s1.nLogs = s.nLogs ∧
        ∃ h1, s1.handler = some h1 ∧ h1.stopReq = false := by
      simp [step, hm, hp, hc, startHandler]
    obtain ⟨s1, e, p⟩ := this
    exact ⟨s1, Steps.single _ rfl e, p⟩

/-- from every state of a created pipeline, a running handler that is not being
    stopped is reachable by recovery steps -/
theorem steps_to_running {c : Cfg} {s : State} (w : WF s) (hc : s.created = true) :
    ∃ s', Steps c Label.recovery s s' ∧ s'.nLogs = s.nLogs ∧
      ∃ h1, s'.handler = some h1 ∧ h1.stopReq = false := by
  cases hh : s.handler with
  | none => exact steps_restart w hh hc
  | some h =>
    cases hst : h.stopReq with
    | false => exact ⟨s, Steps.refl s, rfl, h, hh, hst⟩
    | true =>
      obtain ⟨s1, st, hn, hcr, hcase⟩ := steps_stop_completes (c := c) w hh hst
      have st' := st.mono progress_recovery
      rcases hcase with hnone | hrun
      · obtain ⟨s2, st2, hn2, p⟩ := steps_restart (c := c) (st.wf w) hnone (by rw [hcr]; exact hc)
        exact ⟨s2, st'.trans st2, by rw [hn2, hn], p⟩
      · exact ⟨s1, st', hn, hrun⟩

theorem acked_of_le_cursor {c : Cfg} {s : State} {h : Handler} {k : Nat} (i : Inv c s)
    (hh : s.handler = some h) (h1 : 1 ≤ k) (h2 : k ≤ h.last) : Acked s k := by
  have := i.last_le h hh
  exact i.ackedPre k h1 (by omega)

/-- **At least once.** In a `Good` configuration, from EVERY reachable state of a
    created pipeline and for every committed log `k` there is a finite sequence of
    failure-free steps (plus `sync` / manager start if the pipeline or the manager
    is down) after which the exporter has acknowledged `k` itself since the last
    reset. As this holds in every reachable state, no step can disable progress for good. -/
theorem at_least_once_good {c : Cfg} (g : Good c) (hps : 1 ≤ c.ps) {s : State} (r : Reach c s)
    (hc : s.created = true) {k : Nat} (h1 : 1 ≤ k) (h2 : k ≤ s.nLogs) :
    ∃ s', Steps c Label.recovery s s' ∧ Acked s' k := by
  obtain ⟨s1, st, hn, h, hh, hns⟩ := steps_to_running (c := c) (wf_reach r) hc
  have r1 := st.reach r
  by_cases hk : k ≤ h.last
  · exact ⟨s1, st, acked_of_le_cursor (inv_reach g r1) hh h1 hk⟩
  · have hlt : h.last < k := by omega
    obtain ⟨s2, st2, d⟩ := deliver_beyond_cursor hps (wf_reach r1) (clean_reach r1) hh hns hlt (by rw [hn]; exact h2)
    exact ⟨s2, st.trans (st2.mono progress_recovery), d⟩

end Ledger.Repl
