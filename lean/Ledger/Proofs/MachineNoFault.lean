import Ledger.Proofs.MachineKept

/-! No typed-pop fault / panic for programs the compiler accepted (model `sem`,
    current variant): expressions. -/
namespace Ledger.Machine

/-- The result is neither a VM fault nor a panic. -/
def NF {α : Type} (r : Except Err α) : Prop :=
  ∀ w, r ≠ .error (.fault w) ∧ r ≠ .error (.panic w)

theorem NF.ok {α : Type} (x : α) : NF (Except.ok x : Except Err α) := by
  intro w; constructor <;> (intro h; cases h)

theorem NF.run {α : Type} (s k : String) : NF (Except.error (.run s k) : Except Err α) := by
  intro w; constructor <;> (intro h; cases h)

theorem NF.compile {α : Type} (m : String) : NF (Except.error (.compile m) : Except Err α) := by
  intro w; constructor <;> (intro h; cases h)

/-- Propagation through `match r with | .error e => .error e | .ok x => k x`. -/
theorem NF.bind {α β : Type} {r : Except Err α} {k : α → Except Err β} (hr : NF r)
    (hk : ∀ x, r = .ok x → NF (k x)) :
    NF (match r with | .error e => .error e | .ok x => k x) := by
  cases r with
  | error e =>
    intro w
    have := hr w
    constructor
    · intro h; cases h; exact this.1 rfl
    · intro h; cases h; exact this.2 rfl
  | ok x => exact hk x rfl

/-- Runtime type of a value. -/
def valueTy : Value → Ty
  | .account _ => .account
  | .asset _ => .asset
  | .number _ => .number
  | .str _ => .string
  | .monetary _ _ => .monetary
  | .portion _ => .portion

theorem val_number {v : Value} (h : valueTy v = .number) : ∃ x, v = .number x := by
  cases v <;> simp [valueTy] at h; exact ⟨_, rfl⟩
theorem val_monetary {v : Value} (h : valueTy v = .monetary) : ∃ a x, v = .monetary a x := by
  cases v <;> simp [valueTy] at h; exact ⟨_, _, rfl⟩
theorem val_asset {v : Value} (h : valueTy v = .asset) : ∃ a, v = .asset a := by
  cases v <;> simp [valueTy] at h; exact ⟨_, rfl⟩
theorem val_account {v : Value} (h : valueTy v = .account) : ∃ a, v = .account a := by
  cases v <;> simp [valueTy] at h; exact ⟨_, rfl⟩
theorem val_portion {v : Value} (h : valueTy v = .portion) : ∃ p, v = .portion p := by
  cases v <;> simp [valueTy] at h; exact ⟨_, rfl⟩

/-- No nil amount, no `remaining` portion. -/
def ValOK : Value → Prop
  | .monetary _ none => False
  | .portion .remaining => False
  | _ => True

/-- Every declared variable is bound to a value of its declared type. -/
def EnvTyped (ds : Decls) (env : Env) : Prop :=
  ∀ x t, ds.lookup x = some t → ∃ v, env.lookup x = some v ∧ valueTy v = t

def EnvValsOK (env : Env) : Prop := ∀ kv ∈ env, ValOK kv.2

/-- Result of a typed expression: a value of the type (well-formed when the environment
    is), or one of the VM's own runtime errors. -/
def ExprRes (env : Env) (e : Expr) (t : Ty) : Prop :=
  (∃ v, evalExpr env e = .ok v ∧ valueTy v = t ∧ (EnvValsOK env → ValOK v)) ∨
  (∃ k, evalExpr env e = .error (.run "exec" k))

theorem evalExpr_typed (ds : Decls) (env : Env) (henv : EnvTyped ds env) :
    (e : Expr) → (t : Ty) → typeExpr ds e = .ok t → ExprRes env e t
  | .acct s, t, h => by
    simp only [typeExpr] at h; cases h
    exact Or.inl ⟨_, rfl, rfl, fun _ => trivial⟩
  | .asset s, t, h => by
    simp only [typeExpr] at h
    split at h <;> cases h
    exact Or.inl ⟨_, rfl, rfl, fun _ => trivial⟩
  | .num n, t, h => by
    simp only [typeExpr] at h; cases h
    exact Or.inl ⟨_, rfl, rfl, fun _ => trivial⟩
  | .str s, t, h => by
    simp only [typeExpr] at h; cases h
    exact Or.inl ⟨_, rfl, rfl, fun _ => trivial⟩
  | .portion x, t, h => by
    simp only [typeExpr] at h
    split at h
    · rename_i p hp
      cases h
      obtain ⟨r, rfl⟩ := parsePortionGo_specific hp
      exact Or.inl ⟨.portion (.specific r), by simp [evalExpr, hp], rfl, fun _ => trivial⟩
    · cases h
  | .var x, t, h => by
    simp only [typeExpr] at h
    split at h
    · rename_i t' hl
      cases h
      obtain ⟨v, hv, ht⟩ := henv x t hl
      exact Or.inl ⟨v, by simp [evalExpr, hv], ht, fun hok => hok (x, v) (lookup_mem env x v hv)⟩
    · cases h
  | .mon a n, t, h => by
    simp only [typeExpr] at h
    split at h
    · cases h
    · rename_i ta hta
      split at h
      · rename_i heq
        cases h
        subst heq
        rcases evalExpr_typed ds env henv a .asset hta with ⟨v, hv, hty, _⟩ | ⟨k, hk⟩
        · obtain ⟨s, rfl⟩ := val_asset hty
          exact Or.inl ⟨.monetary s (some n), by simp [evalExpr, hv], rfl, fun _ => trivial⟩
        · exact Or.inr ⟨k, by simp [evalExpr, hk]⟩
      · cases h
  | .add l r, t, h => by
    simp only [typeExpr] at h
    split at h
    · cases h
    · rename_i hl
      split at h
      · cases h
      · rename_i rt hr
        split at h
        · rename_i heq
          cases h; subst heq
          rcases evalExpr_typed ds env henv l .number hl with ⟨v, hv, hty, _⟩ | ⟨k, hk⟩
          · rcases evalExpr_typed ds env henv r .number hr with ⟨w, hw, hty', _⟩ | ⟨k, hk⟩
            · obtain ⟨x, rfl⟩ := val_number hty
              obtain ⟨y, rfl⟩ := val_number hty'
              exact Or.inl ⟨.number (x + y), by simp [evalExpr, hv, hw], rfl, fun _ => trivial⟩
            · exact Or.inr ⟨k, by simp [evalExpr, hv, hk]⟩
          · exact Or.inr ⟨k, by simp [evalExpr, hk]⟩
        · cases h
    · rename_i hl
      split at h
      · cases h
      · rename_i rt hr
        split at h
        · rename_i heq
          cases h; subst heq
          rcases evalExpr_typed ds env henv l .monetary hl with ⟨v, hv, hty, _⟩ | ⟨k, hk⟩
          · rcases evalExpr_typed ds env henv r .monetary hr with ⟨w, hw, hty', _⟩ | ⟨k, hk⟩
            · obtain ⟨a1, x, rfl⟩ := val_monetary hty
              obtain ⟨a2, y, rfl⟩ := val_monetary hty'
              by_cases ha : a1 = a2
              · subst ha
                exact Or.inl ⟨.monetary a1 (some (nilAsZero x + nilAsZero y)), by simp [evalExpr, hv, hw], rfl,
                  fun _ => trivial⟩
              · exact Or.inr ⟨"add-asset", by simp [evalExpr, hv, hw, ha]⟩
            · exact Or.inr ⟨k, by simp [evalExpr, hv, hk]⟩
          · exact Or.inr ⟨k, by simp [evalExpr, hk]⟩
        · cases h
    · cases h
  | .sub l r, t, h => by
    simp only [typeExpr] at h
    split at h
    · cases h
    · rename_i hl
      split at h
      · cases h
      · rename_i rt hr
        split at h
        · rename_i heq
          cases h; subst heq
          rcases evalExpr_typed ds env henv l .number hl with ⟨v, hv, hty, _⟩ | ⟨k, hk⟩
          · rcases evalExpr_typed ds env henv r .number hr with ⟨w, hw, hty', _⟩ | ⟨k, hk⟩
            · obtain ⟨x, rfl⟩ := val_number hty
              obtain ⟨y, rfl⟩ := val_number hty'
              exact Or.inl ⟨.number (x - y), by simp [evalExpr, hv, hw], rfl, fun _ => trivial⟩
            · exact Or.inr ⟨k, by simp [evalExpr, hv, hk]⟩
          · exact Or.inr ⟨k, by simp [evalExpr, hk]⟩
        · cases h
    · rename_i hl
      split at h
      · cases h
      · rename_i rt hr
        split at h
        · rename_i heq
          cases h; subst heq
          rcases evalExpr_typed ds env henv l .monetary hl with ⟨v, hv, hty, _⟩ | ⟨k, hk⟩
          · rcases evalExpr_typed ds env henv r .monetary hr with ⟨w, hw, hty', _⟩ | ⟨k, hk⟩
            · obtain ⟨a1, x, rfl⟩ := val_monetary hty
              obtain ⟨a2, y, rfl⟩ := val_monetary hty'
              by_cases ha : a1 = a2
              · subst ha
                exact Or.inl ⟨.monetary a1 (some (nilAsZero x - nilAsZero y)), by simp [evalExpr, hv, hw], rfl,
                  fun _ => trivial⟩
              · exact Or.inr ⟨"sub-asset", by simp [evalExpr, hv, hw, ha]⟩
            · exact Or.inr ⟨k, by simp [evalExpr, hv, hk]⟩
          · exact Or.inr ⟨k, by simp [evalExpr, hk]⟩
        · cases h
    · cases h

/-! Derived forms -/

theorem evalExpr_nf {ds : Decls} {env : Env} (henv : EnvTyped ds env) {e : Expr} {t : Ty}
    (h : typeExpr ds e = .ok t) : NF (evalExpr env e) := by
  rcases evalExpr_typed ds env henv e t h with ⟨v, hv, _⟩ | ⟨k, hk⟩
  · rw [hv]; exact NF.ok _
  · rw [hk]; exact NF.run _ _

theorem evalAccount_typed {ds : Decls} {env : Env} (henv : EnvTyped ds env) {e : Expr}
    (h : typeExpr ds e = .ok .account) :
    (∃ a, evalAccount env e = .ok a) ∨ (∃ k, evalAccount env e = .error (.run "exec" k)) := by
  rcases evalExpr_typed ds env henv e _ h with ⟨v, hv, hty, _⟩ | ⟨k, hk⟩
  · obtain ⟨a, rfl⟩ := val_account hty
    exact Or.inl ⟨a, by simp [evalAccount, hv]⟩
  · exact Or.inr ⟨k, by simp [evalAccount, hk]⟩

theorem evalAccount_nf {ds : Decls} {env : Env} (henv : EnvTyped ds env) {e : Expr}
    (h : typeExpr ds e = .ok .account) : NF (evalAccount env e) := by
  rcases evalAccount_typed henv h with ⟨a, ha⟩ | ⟨k, hk⟩
  · rw [ha]; exact NF.ok _
  · rw [hk]; exact NF.run _ _

theorem evalAssetE_nf {ds : Decls} {env : Env} (henv : EnvTyped ds env) {e : Expr}
    (h : typeExpr ds e = .ok .asset) : NF (evalAssetE env e) := by
  rcases evalExpr_typed ds env henv e _ h with ⟨v, hv, hty, _⟩ | ⟨k, hk⟩
  · obtain ⟨a, rfl⟩ := val_asset hty
    simp only [evalAssetE, hv]; exact NF.ok _
  · simp only [evalAssetE, hk]; exact NF.run _ _

/-- A typed monetary expression evaluates to a monetary with a non-nil amount (in a
    well-formed environment), or to a runtime error. -/
theorem evalMonetary_typed {ds : Decls} {env : Env} (henv : EnvTyped ds env) (hok : EnvValsOK env)
    {e : Expr} (h : typeExpr ds e = .ok .monetary) :
    (∃ a v, evalMonetary env e = .ok (a, some v)) ∨ (∃ k, evalMonetary env e = .error (.run "exec" k)) := by
  rcases evalExpr_typed ds env henv e _ h with ⟨v, hv, hty, hvok⟩ | ⟨k, hk⟩
  · obtain ⟨a, amt, rfl⟩ := val_monetary hty
    have := hvok hok
    cases amt with
    | none => exact absurd this (by simp [ValOK])
    | some x => exact Or.inl ⟨a, x, by simp [evalMonetary, hv]⟩
  · exact Or.inr ⟨k, by simp [evalMonetary, hk]⟩

/-- Without the well-formedness of values: still no fault. -/
theorem evalMonetary_nf {ds : Decls} {env : Env} (henv : EnvTyped ds env) {e : Expr}
    (h : typeExpr ds e = .ok .monetary) : NF (evalMonetary env e) := by
  rcases evalExpr_typed ds env henv e _ h with ⟨v, hv, hty, _⟩ | ⟨k, hk⟩
  · obtain ⟨a, amt, rfl⟩ := val_monetary hty
    simp only [evalMonetary, hv]; exact NF.ok _
  · simp only [evalMonetary, hk]; exact NF.run _ _

theorem leftmost_typed {ds : Decls} : (e : Expr) → typeExpr ds e = .ok .monetary →
    typeExpr ds e.leftmost = .ok .monetary
  | .add l r, h => by
    simp only [Expr.leftmost]
    apply leftmost_typed l
    simp only [typeExpr] at h
    split at h
    · cases h
    · split at h
      · cases h
      · split at h <;> cases h
    · assumption
    · cases h
  | .sub l r, h => by
    simp only [Expr.leftmost]
    apply leftmost_typed l
    simp only [typeExpr] at h
    split at h
    · cases h
    · split at h
      · cases h
      · split at h <;> cases h
    · assumption
    · cases h
  | .acct _, h => by simpa [Expr.leftmost] using h
  | .asset _, h => by simpa [Expr.leftmost] using h
  | .num _, h => by simpa [Expr.leftmost] using h
  | .str _, h => by simpa [Expr.leftmost] using h
  | .portion _, h => by simpa [Expr.leftmost] using h
  | .mon _ _, h => by simpa [Expr.leftmost] using h
  | .var _, h => by simpa [Expr.leftmost] using h

theorem leftmostAsset_nf {ds : Decls} {env : Env} (henv : EnvTyped ds env) {e : Expr}
    (h : typeExpr ds e = .ok .monetary) : NF (leftmostAsset env e) := by
  rcases evalExpr_typed ds env henv e.leftmost _ (leftmost_typed e h) with ⟨v, hv, hty, _⟩ | ⟨k, hk⟩
  · obtain ⟨a, amt, rfl⟩ := val_monetary hty
    simp only [leftmostAsset, hv]; exact NF.ok _
  · simp only [leftmostAsset, hk]; exact NF.run _ _

end Ledger.Machine
