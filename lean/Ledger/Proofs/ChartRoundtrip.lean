import Ledger.Chart.Model

/-!
Helper lemmas for C30: `unmarshal (marshal c) = .ok c` for every valid chart, by
mutual structural recursion over the nested chart tree (no depth bound).
-/
namespace Ledger.Chart

/-! ### keys -/

theorem isSegChar_ne_dollar {c : Char} (h : isSegChar c = true) : c ≠ '$' := by
  intro e; subst e; revert h; decide
theorem isSegChar_ne_dot {c : Char} (h : isSegChar c = true) : c ≠ '.' := by
  intro e; subst e; revert h; decide

theorem validName_cons {k : Key} (h : validName k = true) :
    ∃ c r, k = c :: r ∧ isSegChar c = true := by
  cases k with
  | nil => simp [validName] at h
  | cons c r => exact ⟨c, r, rfl, by simp [validName] at h; exact h.1⟩

theorem isProp_of_validName {k : Key} (h : validName k = true) : isProp k = false := by
  obtain ⟨c, r, rfl, hc⟩ := validName_cons h
  have := isSegChar_ne_dot hc
  unfold isProp
  split
  · rename_i heq; cases heq; contradiction
  · rfl

theorem isVar_of_validName {k : Key} (h : validName k = true) : isVar k = false := by
  obtain ⟨c, r, rfl, hc⟩ := validName_cons h
  have := isSegChar_ne_dollar hc
  unfold isVar
  split
  · rename_i heq; cases heq; contradiction
  · rfl

theorem validateSegment_of_validName {k : Key} (h : validName k = true) :
    validateSegment k = true := by
  obtain ⟨c, r, rfl, hc⟩ := validName_cons h
  have h1 := isSegChar_ne_dollar hc
  have h2 := isSegChar_ne_dot hc
  unfold validateSegment
  split
  · rename_i heq; cases heq; contradiction
  · rename_i heq; cases heq; contradiction
  · exact h

theorem ne_of_isProp {k k' : Key} (h : isProp k = false) (h' : isProp k' = true) : k ≠ k' := by
  intro e; subst e; rw [h] at h'; cases h'

theorem lookup_append' {α} (k : Key) (l1 l2 : List (Key × α)) :
    (l1 ++ l2).lookup k = match l1.lookup k with | some v => some v | none => l2.lookup k := by
  induction l1 with
  | nil => simp [List.lookup]
  | cons kv rest ih =>
    obtain ⟨k', v⟩ := kv
    simp only [List.cons_append, List.lookup_cons]
    split <;> simp_all

/-! ### metadata -/

theorem metaEntries_rt (m : List (Key × Option String)) :
    unmarshalMetaEntries (m.map marshalMetaEntry) = .ok m := by
  induction m with
  | nil => rfl
  | cons kv rest ih =>
    obtain ⟨k, d⟩ := kv
    cases d with
    | none =>
      simp only [List.map_cons, marshalMetaEntry, unmarshalMetaEntries, unmarshalMetaEntry,
        findDefault, ih]
      rfl
    | some v =>
      simp only [List.map_cons, marshalMetaEntry, unmarshalMetaEntries, unmarshalMetaEntry,
        findDefault, ih]
      rfl

theorem meta_rt (m : List (Key × Option String)) :
    unmarshalMeta (marshalMeta m) = .ok (some m) := by
  simp only [marshalMeta, unmarshalMeta, metaEntries_rt]
  rfl

/-! ### the property members (`.metadata`, `.self`, `.pattern`) -/

def accOfAccount (hc : Bool) : Option AccountSchema → Acc
  | none => {}
  | some a => { self := hc, md := a.metadata.map some }

theorem members_pattern (ops : RegexOps) (pat : Option String) :
    unmarshalMembers ops (marshalPattern pat) = .ok {} := by
  cases pat with
  | none => simp [marshalPattern, unmarshalMembers, pure, Except.pure]
  | some p =>
    simp only [marshalPattern, unmarshalMembers]
    simp [isProp, keyPattern, keySelf, keyMetadata, keyRules, pure, Except.pure]

theorem members_self (ops : RegexOps) (hc : Bool) (pat : Option String) :
    unmarshalMembers ops ((if hc then [(keySelf, JTree.obj [])] else []) ++ marshalPattern pat)
      = .ok { self := hc } := by
  cases hc with
  | false => simpa using members_pattern ops pat
  | true =>
    simp only [ite_true, List.cons_append, List.nil_append, unmarshalMembers, members_pattern]
    simp [isProp, keySelf, JTree.fields?, pure, Except.pure, bind, Except.bind]

theorem members_account (ops : RegexOps) (hc : Bool) (acct : Option AccountSchema)
    (pat : Option String) :
    unmarshalMembers ops (marshalAccount hc acct ++ marshalPattern pat)
      = .ok (accOfAccount hc acct) := by
  cases acct with
  | none => simpa [marshalAccount, accOfAccount] using members_pattern ops pat
  | some a =>
    obtain ⟨md⟩ := a
    cases md with
    | none => simpa [marshalAccount, accOfAccount] using members_self ops hc pat
    | some m =>
      simp only [marshalAccount, accOfAccount, List.cons_append, List.nil_append,
        unmarshalMembers, members_self, meta_rt]
      simp [isProp, keySelf, keyMetadata, pure, Except.pure, bind, Except.bind]

/-! ### no member of a marshalled valid segment is called `.pattern` -/

theorem lookup_marshalFixed (ops : RegexOps) (k : Key) (hk : isProp k = true) :
    (fixed : List (Key × Segment)) → validFixed ops fixed → (marshalFixed fixed).lookup k = none
  | [], _ => by simp [marshalFixed]
  | (k', s) :: rest, h => by
    simp only [validFixed] at h
    have hne : k ≠ k' := (ne_of_isProp (isProp_of_validName h.1) hk).symm
    simp only [marshalFixed, List.lookup_cons]
    have : (k == k') = false := by simpa using hne
    rw [this]
    exact lookup_marshalFixed ops k hk rest h.2.2

theorem lookup_pattern_marshalSeg (ops : RegexOps) (s : Segment) (h : s.Valid ops) :
    (marshalSeg s).lookup keyPattern = none := by
  obtain ⟨fixed, var, acct⟩ := s
  simp only [Segment.Valid] at h
  simp only [marshalSeg, lookup_append', lookup_marshalFixed ops keyPattern rfl fixed h.1]
  have hv : (marshalVar var).lookup keyPattern = none := by
    cases var with
    | none => simp [marshalVar]
    | some v =>
      obtain ⟨label, pat, seg⟩ := v
      simp [marshalVar, List.lookup, keyPattern]
  have ha : ∀ hc, (marshalAccount hc acct).lookup keyPattern = none := by
    intro hc
    cases acct with
    | none => simp [marshalAccount]
    | some a =>
      obtain ⟨md⟩ := a
      cases md <;> cases hc <;> simp [marshalAccount, List.lookup, keyPattern, keyMetadata, keySelf]
  simp only [hv, ha]

theorem readPattern_marshalSeg (ops : RegexOps) (s : Segment) (h : s.Valid ops)
    (pat : Option String) (hp : ∀ p, pat = some p → ops.compiles p = true) :
    readPattern ops (marshalSeg s ++ marshalPattern pat) = .ok pat := by
  unfold readPattern
  rw [lookup_append', lookup_pattern_marshalSeg ops s h]
  cases pat with
  | none => simp [marshalPattern, pure, Except.pure]
  | some p => simp [marshalPattern, hp p rfl, pure, Except.pure]

/-! ### segments -/

def accOf : Segment → Acc
  | .mk fixed var acct =>
    { accOfAccount (!fixed.isEmpty || var.isSome) acct with fixed := fixed, var := var }

theorem finish_accOf (ops : RegexOps) (s : Segment) (h : s.Valid ops) : (accOf s).finish = .ok s := by
  obtain ⟨fixed, var, acct⟩ := s
  simp only [Segment.Valid] at h
  obtain ⟨_, _, hacc⟩ := h
  cases acct with
  | none =>
    have hc : (fixed.isEmpty && var.isNone) = false := by
      rcases hacc rfl with h | h
      · cases fixed <;> simp_all
      · cases var <;> simp_all
    simp [accOf, accOfAccount, Acc.finish, hc, pure, Except.pure]
  | some a =>
    obtain ⟨md⟩ := a
    cases hf : fixed.isEmpty <;> cases hv : var.isSome <;> cases md <;>
      simp_all [accOf, accOfAccount, Acc.finish, pure, Except.pure, Option.join]

mutual
theorem seg_members_rt (ops : RegexOps) : (s : Segment) → s.Valid ops → (pat : Option String) →
    unmarshalMembers ops (marshalSeg s ++ marshalPattern pat) = .ok (accOf s)
  | .mk fixed var acct, h, pat => by
    simp only [Segment.Valid] at h
    obtain ⟨hf, hv, _⟩ := h
    have ha := members_account ops (!fixed.isEmpty || var.isSome) acct pat
    have hvar := var_rt ops var hv _ _ ha (by cases acct <;> rfl)
    have hfix := fixed_rt ops fixed hf _ _ hvar
    simp only [marshalSeg, List.append_assoc]
    rw [hfix]
    have : (accOfAccount (!fixed.isEmpty || var.isSome) acct).fixed = [] := by cases acct <;> rfl
    simp [accOf, this]
theorem fixed_rt (ops : RegexOps) : (fixed : List (Key × Segment)) → validFixed ops fixed →
    (tail : List (Key × JTree)) → (accT : Acc) → unmarshalMembers ops tail = .ok accT →
    unmarshalMembers ops (marshalFixed fixed ++ tail) = .ok { accT with fixed := fixed ++ accT.fixed }
  | [], _, tail, accT, ht => by simpa [marshalFixed] using ht
  | (k, s) :: rest, h, tail, accT, ht => by
    simp only [validFixed] at h
    obtain ⟨hk, hs, hrest⟩ := h
    have ih := fixed_rt ops rest hrest tail accT ht
    have hseg := seg_members_rt ops s hs none
    simp only [marshalPattern, List.append_nil] at hseg
    have hrp := readPattern_marshalSeg ops s hs none (by simp)
    simp only [marshalPattern, List.append_nil] at hrp
    simp only [marshalFixed, List.cons_append, unmarshalMembers, isProp_of_validName hk,
      validateSegment_of_validName hk, isVar_of_validName hk, JTree.fields?, hrp, unmarshalSeg,
      hseg, ih]
    simp [bind, Except.bind, pure, Except.pure, finish_accOf ops s hs]
theorem var_rt (ops : RegexOps) : (var : Option VarSegment) → validVar ops var →
    (tail : List (Key × JTree)) → (accT : Acc) → unmarshalMembers ops tail = .ok accT →
    accT.var = none →
    unmarshalMembers ops (marshalVar var ++ tail) = .ok { accT with var := var }
  | none, _, tail, accT, ht, hnone => by
    simp only [marshalVar, List.nil_append, ht, ← hnone]
  | some (.mk label pat s), h, tail, accT, ht, hnone => by
    simp only [validVar] at h
    obtain ⟨hl, hp, hs⟩ := h
    have hseg := seg_members_rt ops s hs pat
    have hrp := readPattern_marshalSeg ops s hs pat hp
    have hprop : isProp ('$' :: label) = false := rfl
    have hvs : validateSegment ('$' :: label) = true := hl
    have hvar : isVar ('$' :: label) = true := rfl
    simp only [marshalVar, List.cons_append, List.nil_append, unmarshalMembers, hprop, hvs, hvar,
      JTree.fields?, hrp, unmarshalSeg, hseg, ht]
    simp [bind, Except.bind, pure, Except.pure, finish_accOf ops s hs, hnone]
end

theorem seg_rt (ops : RegexOps) (s : Segment) (h : s.Valid ops) :
    unmarshalSeg ops (.obj (marshalSeg s)) = .ok s := by
  have hseg := seg_members_rt ops s h none
  simp only [marshalPattern, List.append_nil] at hseg
  simp [unmarshalSeg, hseg, bind, Except.bind, finish_accOf ops s h]

theorem root_rt (ops : RegexOps) : (c : Chart) → validFixed ops c →
    unmarshalRoot ops (marshalFixed c) = .ok c
  | [], _ => by simp [marshalFixed, unmarshalRoot, pure, Except.pure]
  | (k, s) :: rest, h => by
    simp only [validFixed] at h
    obtain ⟨hk, hs, hrest⟩ := h
    have ih := root_rt ops rest hrest
    have hl := lookup_pattern_marshalSeg ops s hs
    simp only [marshalFixed, unmarshalRoot, validateSegment_of_validName hk, isVar_of_validName hk,
      isProp_of_validName hk, JTree.fields?, hl, seg_rt ops s hs, ih]
    simp [bind, Except.bind, pure, Except.pure]

end Ledger.Chart
