import Ledger.Proofs.ChartRegex
import Ledger.Chart.Posting

/-! Helper lemmas for C28 (validators = `Lang` of the generated patterns). -/
namespace Ledger.Chart
open Ledger.Regex

theorem matchAnchored_lang {pattern : Re} {s : List Char} (h : matchAnchored pattern s = true) :
    ∃ body, pattern.unanchor = some body ∧ Lang body s := by
  unfold matchAnchored at h
  split at h
  · rename_i body hb
    exact ⟨body, hb, (accepts_iff body s).1 h⟩
  · cases h

theorem dropFirstChr_spec {r b : Re} {c : Char} (h : r.dropFirstChr c = some b) :
    r = .cat (Re.chr c) b := by
  unfold Re.dropFirstChr at h
  split at h
  · rename_i lo hi rest
    split at h
    · rename_i hc
      simp only [Bool.and_eq_true, decide_eq_true_eq] at hc
      cases h
      rw [hc.1, hc.2]; rfl
    · cases h
  · cases h

/-- a posting no validator accepts: padded source, asset outside the pattern, negative amount -/
def badPosting : RawPosting :=
  { source := [' ', 'b', 'a', 'n', 'k', '\n'], destination := "users:001".toList,
    asset := "USD/".toList, amount := some (-5) }

end Ledger.Chart
