import Ledger.Proofs.SqlAcMeta

/-!
# The revision of `update_account_metadata_history`

`coalesce((SELECT revision + 1 FROM accounts_metadata WHERE accounts_metadata.accounts_address = new.address AND
accounts_metadata.ledger = new.ledger ORDER BY revision DESC LIMIT 1), 1)`, evaluated by LeanPG on ANY `accounts_metadata` table of
well-typed rows: one more than the largest revision stored for the account, or 1 (`NextRev`).
-/
open Ledger Ledger.Sql Ledger.Generated Ledger.Core
namespace Ledger.Sql

/-- the typed content of the rows visible in `v` -/
def AmView (v : View) (rows : List Ver) (tbl : List AmR) : Prop :=
  (rows.filter (fun r => r.visible v)).map (·.vals) = tbl.map amVals

theorem AmView.of_row {v : View} {rows : List Ver} {tbl : List AmR} (h : AmView v rows tbl) (r : Ver)
    (hr : r ∈ rows) (hv : r.visible v = true) : ∃ y ∈ tbl, r.vals = amVals y := by
  have : r.vals ∈ (rows.filter (fun r => r.visible v)).map (·.vals) :=
    List.mem_map.mpr ⟨r, List.mem_filter.mpr ⟨hr, hv⟩, rfl⟩
  rw [h] at this
  obtain ⟨y, hy, e⟩ := List.mem_map.mp this
  exact ⟨y, hy, e.symm⟩

def amDec : List Value → Option AmR
  | [.int q, .text l, .json md, .int rv, .ts dt, .text a] => some { seq := q, ledger := l, metadata := md, revision := rv, date := dt, address := a }
  | _ => none

theorem amDec_vals (y : AmR) : amDec (amVals y) = some y := by cases y; rfl

/-- is the stored row a revision of the account of `a`? -/
def amCand (a : AcR) (y : AmR) : Bool := decide (y.address = a.address) && decide (y.ledger = a.ledger)

/-- `rv` is the next revision given the stored revisions `cands` of the account -/
def NextRev (cands : List Int) (rv : Int) : Prop :=
  (cands = [] ∧ rv = 1) ∨ (∃ m ∈ cands, rv = m + 1 ∧ ∀ c ∈ cands, c ≤ m)

def amScope (b : String) (rid : Nat) (y : AmR) : Scope :=
  { alias := "accounts_metadata", cols := amCols, vals := amVals y, src := some (amFull b, rid) }

def amRevW (a : AcR) (sc : Scope) : Bool :=
  match amDec sc.vals with
  | some y => amCand a y
  | none => false

def amRevProj (sc : Scope) : List Value :=
  match amDec sc.vals with
  | some y => [.int (y.revision + 1)]
  | none => []

def amRevKey (o : OutRow) : List Value :=
  match o.locals with
  | [sc] => match amDec sc.vals with
    | some y => [.int y.revision]
    | none => []
  | _ => []

def amRevOrder : List OrderItem := [OrderItem.mk (Expr.col "" "revision") true NullsOrder.dflt]

def amRevWhere : Expr :=
  Expr.binop BinOp.and (Expr.binop BinOp.eq (Expr.col "accounts_metadata" "accounts_address") (Expr.col "new" "address"))
    (Expr.binop BinOp.eq (Expr.col "accounts_metadata" "ledger") (Expr.col "new" "ledger"))

def amRevItem : Expr := Expr.binop BinOp.add (Expr.col "" "revision") (Expr.int 1)

theorem amRevQuery_eq : amRevQuery =
    Query.mk [] (SetExpr.select (Select.mk false [] [SelItem.expr amRevItem ""] [FromItem.table "" "accounts_metadata" ""] (some amRevWhere) [] none))
      amRevOrder (some (Expr.int 1)) none LockMode.none := rfl

theorem lastComponent_am : lastComponent "accounts_metadata" = "accounts_metadata" := by decide

/-- ties between equal revisions are not ties: the projected values are equal too -/
theorem hasTieR_rev : ∀ (l : List (List Value × OutRow)),
    (∀ p ∈ l, ∃ (q : Int), p.1 = [.int q] ∧ p.2.vals = [.int (q + 1)]) → hasTieR l = .ok false := by
  intro l
  induction l with
  | nil => intro _; rfl
  | cons p rest ih =>
    intro h
    cases rest with
    | nil => rfl
    | cons q rest' =>
      obtain ⟨q1, hk1, hv1⟩ := h p (by simp)
      obtain ⟨q2, hk2, hv2⟩ := h q (by simp)
      obtain ⟨k1, r1⟩ := p
      obtain ⟨k2, r2⟩ := q
      simp only at hk1 hk2 hv1 hv2
      subst hk1 hk2
      simp only [hasTieR, hv1, hv2, sameGroupKey_int1, bind, Except.bind]
      have : (decide (q1 = q2) && !decide (q1 + 1 = q2 + 1)) = false := by
        by_cases e : q1 = q2
        · subst e; simp
        · simp [e]
      simp only [this, Bool.false_eq_true, if_false]
      exact ih (fun r hr => h r (by simp [hr]))

theorem lookup_am_q (env : Env) (sc : Scope) (hl : env.locals = [sc]) (ha : sc.alias = "accounts_metadata") (c : String) (v : Value)
    (h : lookupIn sc.cols sc.vals c = some v) : lookupColumn env "accounts_metadata" c = .ok v := by
  simp [lookupColumn, Env.scopes, findScope, hl, ha, lastComponent_am, h]
  rfl

theorem lookup_new_ac_outer (env : Env) (sc : Scope) (a : AcR) (old : Option AcR) (fd : Bool) (hl : env.locals = [sc])
    (ha : sc.alias = "accounts_metadata") (ho : env.outer = (acPlEnv a old fd).outer) (c : String) (v : Value)
    (h : lookupIn acCols a.vals c = some v) : lookupColumn env "new" c = .ok v := by
  have e1 : ("accounts_metadata" == "new") = false := by decide
  have e2 : ("" == "new") = false := by decide
  simp [lookupColumn, Env.scopes, findScope, hl, ha, ho, acPlEnv, lastComponent_new, h, e1, e2]
  rfl

/-- **the revision expression** on any table -/
theorem exec_amRevExpr (q : Nat) (b : String) (a : AcR) (old : Option AcR) (fd : Bool) (s : St) (hs : TxState s) (hsp : s.searchPath = b)
    (nr : Nat) (rows : List Ver) (hT : s.w.table? (amFull b) = some ((amT b nr).withRows rows))
    (tbl : List AmR) (hview : AmView (cv s) rows tbl) :
    ∃ rv, (evalExpr (cbs (q + 7)) s.w.types (acPlEnv a old fd) amRevExpr).exec s = (.ok (.int rv), s) ∧
      NextRev ((tbl.filter (amCand a)).map (·.revision)) rv := by
  have hq : (qualify "" "accounts_metadata").exec s = (.ok (amFull b), s) := by simp [qualify, hsp, amFull]
  have hfrom := exec_evalFromList_table q (acPlEnv a old fd) "" "accounts_metadata" "" (amFull b) _ s hs (by rfl) hq hT
  rw [scan_eq] at hfrom
  simp only [show ("" : String).isEmpty = true from by decide, if_true, withRows_rows] at hfrom
  generalize hScs : (rows.filter (fun r => r.visible (cv s))).reverse.map (rowScopeOf ((amT b nr).withRows rows) "accounts_metadata") = scs at hfrom
  have hsc : ∀ sc ∈ scs, ∃ rid, ∃ y ∈ tbl, sc = amScope b rid y := by
    intro sc hscm
    rw [← hScs] at hscm
    obtain ⟨r, hr, rfl⟩ := List.mem_map.mp hscm
    have hr' := List.mem_filter.mp (List.mem_reverse.mp hr)
    obtain ⟨y, hy, hv⟩ := hview.of_row r hr'.1 hr'.2
    exact ⟨r.rid, y, hy, by simp [rowScopeOf, amScope, hv]; exact ⟨rfl, rfl⟩⟩
  -- the decoded scopes are the table, reversed
  have hdec : scs.filterMap (fun sc => amDec sc.vals) = tbl.reverse := by
    rw [← hScs]
    have h1 : ∀ (rs : List Ver), (rs.map (rowScopeOf ((amT b nr).withRows rows) "accounts_metadata")).filterMap (fun sc => amDec sc.vals) =
        (rs.map (·.vals)).filterMap amDec := by
      intro rs
      induction rs with
      | nil => rfl
      | cons r rs ih => simp only [List.map_cons, List.filterMap_cons, rowScopeOf, ih]
    rw [h1, List.map_reverse, hview, ← List.map_reverse]
    generalize tbl.reverse = tv
    induction tv with
    | nil => rfl
    | cons p tv ih => simp [List.filterMap_cons, amDec_vals, ih]
  have hout : ∀ o ∈ (scs.filter (amRevW a)).map (outRowOf amRevProj), ∃ rid, ∃ y ∈ tbl, o = outRowOf amRevProj (amScope b rid y) ∧ amCand a y = true := by
    intro o ho
    obtain ⟨sc, hscm, rfl⟩ := List.mem_map.mp ho
    have hm := List.mem_filter.mp hscm
    obtain ⟨rid, y, hy, rfl⟩ := hsc sc hm.1
    refine ⟨rid, y, hy, rfl, ?_⟩
    simpa [amRevW, amScope, amDec_vals] using hm.2
  have hnames : outNames [(amRevItem, "")] = ["?column?"] := rfl
  obtain ⟨sorted, tie, hsortEq, hperm, hpw, htie⟩ := exec_sortOut' (q + 2) (acPlEnv a old fd) ["?column?"]
    ((scs.filter (amRevW a)).map (outRowOf amRevProj)) amRevOrder (by simp [amRevOrder]) s amRevKey seqCmp seqKeyOk
    (by
      intro o ho
      obtain ⟨rid, y, _, rfl, _⟩ := hout o ho
      simp only [amRevOrder, exec_mapM_cons, List.mapM_nil, orderKeyM, colIndex, colIndex.go, exec_bind, exec_pure, evalExpr]
      simp only [show ("?column?" == "revision") = false from by decide]
      simp only [outRowOf]
      rw [lookup_local_unq _ (amScope b rid y) rfl "revision" (.int y.revision) (by cases y; rfl)]
      simp [exec_liftR_ok, amRevKey, amScope, amDec_vals])
    (by
      have : orderDescs amRevOrder = [true] ∧ orderNulls amRevOrder = [NullsOrder.dflt] := ⟨rfl, rfl⟩
      rw [this.1, this.2]; exact seqCmpOk)
    (by
      intro o ho
      obtain ⟨rid, y, _, rfl, _⟩ := hout o ho
      exact ⟨y.revision, by simp [amRevKey, outRowOf, amScope, amDec_vals]⟩)
    (fun t => t = false)
    (by
      intro lst hl
      refine ⟨false, ?_, rfl⟩
      apply hasTieR_rev
      intro pr hpr
      obtain ⟨o, ho, rfl⟩ := List.mem_map.mp ((hl.mem_iff).mp hpr)
      obtain ⟨rid, y, _, rfl, _⟩ := hout o ho
      exact ⟨y.revision, by simp [amRevKey, outRowOf, amScope, amDec_vals], by simp [outRowOf, amRevProj, amScope, amDec_vals]⟩)
  subst htie
  have hset : (evalSetExpr (q + 5) (acPlEnv a old fd)
      (SetExpr.select (Select.mk false [] [SelItem.expr amRevItem ""] [FromItem.table "" "accounts_metadata" ""] (some amRevWhere) [] none))
      amRevOrder).exec s = (.ok (["?column?"], sorted), s) := by
    rw [evalSetExpr]
    have := exec_evalSelect_simple (q + 3) (acPlEnv a old fd) [(amRevItem, "")] [FromItem.table "" "accounts_metadata" ""] amRevWhere amRevOrder s scs
      (amRevW a) amRevProj hfrom ?_ ?_ ?_ ?_ sorted false (by rw [hnames]; simpa using hsortEq)
    · rw [hnames] at this; simpa using this
    · -- WHERE
      intro sc hscm
      obtain ⟨rid, y, _, rfl⟩ := hsc sc hscm
      have c1 := lookup_am_q ({ locals := [amScope b rid y], outer := (acPlEnv a old fd).outer, ctes := (acPlEnv a old fd).ctes, group := (acPlEnv a old fd).group, wins := (acPlEnv a old fd).wins } : Env) (amScope b rid y) rfl rfl "accounts_address" (.text y.address)
        (by cases y; rfl)
      have c2 := lookup_am_q ({ locals := [amScope b rid y], outer := (acPlEnv a old fd).outer, ctes := (acPlEnv a old fd).ctes, group := (acPlEnv a old fd).group, wins := (acPlEnv a old fd).wins } : Env) (amScope b rid y) rfl rfl "ledger" (.text y.ledger)
        (by cases y; rfl)
      have c3 := lookup_new_ac_outer ({ locals := [amScope b rid y], outer := (acPlEnv a old fd).outer, ctes := (acPlEnv a old fd).ctes, group := (acPlEnv a old fd).group, wins := (acPlEnv a old fd).wins } : Env) (amScope b rid y) a old fd rfl rfl rfl "address"
        (.text a.address) (by cases a; rfl)
      have c4 := lookup_new_ac_outer ({ locals := [amScope b rid y], outer := (acPlEnv a old fd).outer, ctes := (acPlEnv a old fd).ctes, group := (acPlEnv a old fd).group, wins := (acPlEnv a old fd).wins } : Env) (amScope b rid y) a old fd rfl rfl rfl "ledger"
        (.text a.ledger) (by cases a; rfl)
      have hw : amRevW a (amScope b rid y) = amCand a y := by simp [amRevW, amScope, amDec_vals]
      simp only [amRevWhere, evalExpr, exec_bind, c1, c2, c3, c4, exec_liftR_ok, evalBinop_eq_text, truth_bool, exec_pure, hw, amCand]
      by_cases h1 : y.address = a.address <;> by_cases h2 : y.ledger = a.ledger <;>
        simp [h1, h2, ofTruth, and3, truth_bool, exec_bind, exec_liftR_ok, evalBinop_eq_text, c2, c4]
    · rfl
    · rfl
    · -- projection
      intro sc hscm _
      obtain ⟨rid, y, _, rfl⟩ := hsc sc hscm
      have c1 := lookup_local_unq ({ locals := [amScope b rid y], outer := (acPlEnv a old fd).outer, ctes := (acPlEnv a old fd).ctes, group := none, wins := [] } : Env) (amScope b rid y) rfl
        "revision" (.int y.revision) (by cases y; rfl)
      have hp : amRevProj (amScope b rid y) = [.int (y.revision + 1)] := by simp [amRevProj, amScope, amDec_vals]
      simp only [List.map_cons, List.map_nil, evalExprs, amRevItem, evalExpr, exec_bind, c1, exec_liftR_ok, evalBinop_add_int, exec_pure, hp]
  have hqry := exec_evalQuery_limit (q + 4) (acPlEnv a old fd) _ amRevOrder 1 (by omega) s s ["?column?"] sorted hset
  have hsub : (cbs (q + 7)).sub amRevQuery (acPlEnv a old fd) = evalQuery (q + 6) (acPlEnv a old fd) amRevQuery := by
    cases old <;> rfl
  have hco : ((("" : String).isEmpty || "" == "pg_catalog") && "coalesce" == "coalesce") = true := by decide
  rw [← amRevQuery_eq] at hqry
  have hqry' : (evalQuery (q + 6) (acPlEnv a old fd) amRevQuery).exec s =
      (.ok { cols := ["?column?"], rows := (sorted.take 1).map (fun x => x.vals) }, s) := hqry
  -- the candidates, typed
  have hcands : ∀ o ∈ sorted, ∃ y ∈ tbl, amCand a y = true ∧ o.vals = [.int (y.revision + 1)] ∧ amRevKey o = [.int y.revision] := by
    intro o ho
    obtain ⟨rid, y, hy, rfl, hc⟩ := hout o ((hperm.mem_iff).mp ho)
    exact ⟨y, hy, hc, by simp [outRowOf, amRevProj, amScope, amDec_vals], by simp [amRevKey, outRowOf, amScope, amDec_vals]⟩
  have hall : ∀ y ∈ tbl, amCand a y = true → ∃ o ∈ sorted, amRevKey o = [.int y.revision] := by
    intro y hy hc
    have hmem : y ∈ scs.filterMap (fun sc => amDec sc.vals) := by rw [hdec]; exact List.mem_reverse.mpr hy
    obtain ⟨sc, hscm, hd⟩ := List.mem_filterMap.mp hmem
    refine ⟨outRowOf amRevProj sc, (hperm.mem_iff).mpr (List.mem_map.mpr ⟨sc, List.mem_filter.mpr ⟨hscm, by simp [amRevW, hd, hc]⟩, rfl⟩), ?_⟩
    simp [amRevKey, outRowOf, hd]
  cases hsd : sorted with
  | nil =>
    refine ⟨1, ?_, Or.inl ⟨?_, rfl⟩⟩
    · unfold amRevExpr
      simp only [evalExpr, evalCoalesce, hco, if_true, exec_bind, hsub, hqry', hsd, List.take_nil, List.map_nil, exec_pure, Value.isNull, Bool.false_eq_true, if_false]
    · rw [List.map_eq_nil_iff, List.filter_eq_nil_iff]
      intro y hy hc
      obtain ⟨o, ho, _⟩ := hall y hy hc
      rw [hsd] at ho
      cases ho
  | cons o rest =>
    obtain ⟨y, hy, hc, hv, hk⟩ := hcands o (by rw [hsd]; simp)
    refine ⟨y.revision + 1, ?_, Or.inr ⟨y.revision, List.mem_map.mpr ⟨y, List.mem_filter.mpr ⟨hy, hc⟩, rfl⟩, rfl, ?_⟩⟩
    · unfold amRevExpr
      simp only [evalExpr, evalCoalesce, hco, if_true, exec_bind, hsub, hqry', hsd, List.take_succ_cons, List.take_zero, List.map_cons, List.map_nil,
        hv, exec_pure, Value.isNull, Bool.false_eq_true, if_false]
    · intro c hcm
      obtain ⟨y', hy', rfl⟩ := List.mem_map.mp hcm
      have hy'm := List.mem_filter.mp hy'
      obtain ⟨o', ho', hk'⟩ := hall y' hy'm.1 hy'm.2
      rw [hsd] at ho' hpw
      rcases List.mem_cons.mp ho' with e | e
      · subst e
        rw [hk] at hk'
        simp only [List.cons.injEq, Value.int.injEq, and_true] at hk'
        omega
      · have := (List.pairwise_cons.mp hpw).1 o' e
        rw [hk', hk] at this
        have hnlt : ¬ (y.revision < y'.revision) := fun h => this ((seqCmp_lt _ _).mpr h)
        omega

end Ledger.Sql
