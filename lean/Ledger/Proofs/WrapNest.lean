import Ledger.Proofs.WrapEvents

/-!
The first-write path of `handleState` *nested* inside an atomic bulk's
transaction (`controllerFacade.BeginTX` returns a facade, so the first write of an
atomic bulk on an initializing ledger opens a savepoint inside the bulk's
transaction): invariants `BInv` (element boundary) and `Nest` (savepoint open)
and their preservation by the wrapper methods involved (for C31).
-/
namespace Ledger.Wrap
open List

/-- exemption of `t1` and of every transaction allocated after it -/
def exFrom (t1 : Nat) : Nat → Bool := fun t => decide (t1 ≤ t)
/-- exemption of every transaction allocated after `t1` -/
def exAbove (t1 : Nat) : Nat → Bool := fun t => decide (t1 < t)

/-- A state change that touches only exempted transactions keeps `InvE`. -/
theorem InvE.frame {ex : Nat → Bool} {s s' : St} (h : InvE ex s)
    (hb : (specOf s'.trace).bad = (specOf s.trace).bad)
    (hp : (specOf s'.trace).pub = (specOf s.trace).pub)
    (hd : (specOf s'.trace).dur = (specOf s.trace).dur)
    (hne : ∀ t, ex t = false → s'.opn t = s.opn t ∧ (specOf s'.trace).par t = (specOf s.trace).par t ∧
      (specOf s'.trace).pend t = (specOf s.trace).pend t ∧ s'.queue (.tx t) = s.queue (.tx t))
    (hf : ∀ t, s'.nT < t → s'.opn t = false ∧ s'.queue (.tx t) = [])
    (hl : s'.lockTx = s.lockTx) : InvE ex s' := by
  constructor
  · rw [hb]; exact h.bad
  · rw [hp, hd]; exact h.pub
  · intro t ho hx
    obtain ⟨h1, h2, _, _⟩ := hne t hx
    rw [h2]; rw [h1] at ho; exact h.par t ho hx
  · intro t ho hx
    obtain ⟨h1, _, h3, h4⟩ := hne t hx
    rw [h3, h4]; rw [h1] at ho; exact h.queue t ho hx
  · exact hf
  · rw [hl]; exact h.lockF

/-- Fewer exemptions are fine when the transactions concerned are closed, or
    satisfy the clauses anyway. -/
theorem InvE.change {ex ex' : Nat → Bool} {s : St} (h : InvE ex s)
    (hc : ∀ t, ex' t = false → ex t = true → s.opn t = true →
      (specOf s.trace).par t = 0 ∧ s.queue (.tx t) = (specOf s.trace).pend t) : InvE ex' s := by
  constructor
  · exact h.bad
  · exact h.pub
  · intro t ho hx
    cases hex : ex t with
    | false => exact h.par t ho hex
    | true => exact (hc t hx hex ho).1
  · intro t ho hx
    cases hex : ex t with
    | false => exact h.queue t ho hex
    | true => exact (hc t hx hex ho).2
  · exact h.fresh
  · exact h.lockF

theorem InvE.weaken {ex ex' : Nat → Bool} {s : St} (h : InvE ex s)
    (hw : ∀ t, ex' t = false → ex t = false) : InvE ex' s :=
  h.change (fun t hx hex _ => by rw [hw t hx] at hex; cases hex)

-- specification effects of single items
theorem spec_write_in (tr : List Item) (t : Nat) (k : Kind) (w : Nat) (ht : t ≠ 0) :
    specOf (tr ++ [.write t k false w .ok]) =
      { specOf tr with pend := upd (specOf tr).pend t ((specOf tr).pend t ++ [(k, w)]) } := by
  rw [specOf_snoc]; simp [Spec.step, ht]

theorem spec_begin (tr : List Item) (t p : Nat) :
    specOf (tr ++ [.begin t p .ok]) =
      { specOf tr with par := upd (specOf tr).par t p, pend := upd (specOf tr).pend t [] } := by
  rw [specOf_snoc]; rfl

theorem spec_commit_in (tr : List Item) (t : Nat) (hp : (specOf tr).par t ≠ 0) :
    specOf (tr ++ [.commit t .ok]) =
      { specOf tr with pend := upd (upd (specOf tr).pend ((specOf tr).par t)
          ((specOf tr).pend ((specOf tr).par t) ++ (specOf tr).pend t)) t [] } := by
  rw [specOf_snoc]; simp [Spec.step, hp]

theorem spec_clear (tr : List Item) (t : Nat) (it : Item)
    (hit : it = .commit t .fail ∨ it = .rollback t .ok ∨ it = .rollback t .fail) :
    specOf (tr ++ [it]) = { specOf tr with pend := upd (specOf tr).pend t [] } := by
  rw [specOf_snoc]
  rcases hit with rfl | rfl | rfl <;> rfl

/-- Inside an atomic bulk whose transaction is `t1` (element boundary): `t1` is
    open, every later transaction is closed with an empty queue; `cl` says the
    bulk is still *clean*: the queue of the wrapper that opened `t1` is exactly
    `t1`'s pending set (so committing `t1` now would publish exactly what becomes
    durable).  After a failed inner transaction it is not clean any more — and the
    bulker is bound to roll back. -/
structure BInv (cl : Prop) (s : St) (t1 : Nat) : Prop where
  e : InvE (exFrom t1) s
  c : cl → InvE (exAbove t1) s
  o1 : s.opn t1 = true
  lo : 1 ≤ t1
  hi : t1 ≤ s.nT
  above : ∀ t, t1 < t → s.opn t = false ∧ s.queue (.tx t) = []

theorem BInv.weaken {cl cl' : Prop} {s : St} {t1 : Nat} (h : BInv cl s t1) (hw : cl' → cl) :
    BInv cl' s t1 :=
  ⟨h.e, fun hc => h.c (hw hc), h.o1, h.lo, h.hi, h.above⟩

theorem BInv.emit_inert {cl : Prop} {s : St} {t1 : Nat} (h : BInv cl s t1) (it : Item)
    (hi : it.inert = true) : BInv cl (s.emit it) t1 :=
  ⟨h.e.emit_inert it hi, fun hc => (h.c hc).emit_inert it hi, h.o1, h.lo, h.hi, h.above⟩

/-- The first-write path is running inside the bulk: `t2` is the savepoint opened
    by `handleState` inside `t1`. -/
structure Nest (cl : Prop) (s : St) (t1 t2 : Nat) : Prop where
  e : InvE (exFrom t1) s
  o1 : s.opn t1 = true
  o2 : s.opn t2 = true
  lo : 1 ≤ t1
  lt : t1 < t2
  hi : t2 ≤ s.nT
  p2 : (specOf s.trace).par t2 = t1
  q2 : s.queue (.tx t2) = []
  above : ∀ t, t1 < t → t ≠ t2 → s.opn t = false ∧ s.queue (.tx t) = []
  qn : cl → (specOf s.trace).par t1 = 0 ∧
    s.queue (.tx t1) = (specOf s.trace).pend t1 ++ (specOf s.trace).pend t2
  lk : s.lockTx true = true

theorem Nest.emit_inert {cl : Prop} {s : St} {t1 t2 : Nat} (h : Nest cl s t1 t2) (it : Item)
    (hi : it.inert = true) : Nest cl (s.emit it) t1 t2 := by
  have hs : specOf (s.emit it).trace = specOf s.trace := by
    simp only [St.emit, specOf_snoc]; exact step_inert _ _ hi
  exact ⟨h.e.emit_inert it hi, h.o1, h.o2, h.lo, h.lt, h.hi, by rw [hs]; exact h.p2, h.q2, h.above,
    fun hc => by rw [hs]; exact h.qn hc, h.lk⟩

theorem Nest.bump {cl : Prop} {s : St} {t1 t2 : Nat} (h : Nest cl s t1 t2) :
    Nest cl { s with nK := s.nK + 1 } t1 t2 :=
  ⟨InvE.of_eq h.e rfl rfl rfl rfl rfl, h.o1, h.o2, h.lo, h.lt, h.hi, h.p2, h.q2, h.above, h.qn, h.lk⟩

theorem exFrom_lt {t1 t : Nat} (h : exFrom t1 t = false) : t < t1 := by
  simpa [exFrom] using h

theorem exFrom_ge {t1 t : Nat} (h : t1 ≤ t) : exFrom t1 t = true := by
  simpa [exFrom] using h

/-- The first-write path's `BeginTX` inside the bulk transaction (a savepoint). -/
theorem nest_begin {cl : Prop} {s : St} {t1 : Nat} {c1 : W} (h : BInv cl s t1)
    (hu : c1.u = .tx t1 .none) (hlk : s.lockTx true = true) :
    (∃ e, (wBegin s c1).1 = .error e ∧ BInv cl (wBegin s c1).2 t1 ∧ Ext s (wBegin s c1).2) ∨
    ((wBegin s c1).1 = .ok (.node (.tx (s.nT + 1)) true (.tx (s.nT + 1) (.tx t1 .none)) c1) ∧
      Nest cl (wBegin s c1).2 t1 (s.nT + 1) ∧ Ext s (wBegin s c1).2) := by
  have hl : c1.u.live s.opn = true := by rw [hu]; simp [UH.live, h.o1]
  cases hf : s.faults.begin with
  | true =>
    rw [wBegin_fail hl hf]
    exact Or.inl ⟨_, rfl, h.emit_inert _ rfl, Ext.emit _ _⟩
  | false =>
    rw [wBegin_ok hl hf, hu]
    refine Or.inr ⟨rfl, ?_, ⟨Nat.le_succ _, rfl, rfl, id⟩⟩
    have hi := h.hi
    have hlo := h.lo
    have hσ : specOf ({ s with nT := s.nT + 1, opn := upd s.opn (s.nT + 1) true }.emit
        (.begin (s.nT + 1) (UH.tx t1 UH.none).id .ok)).trace =
        { specOf s.trace with par := upd (specOf s.trace).par (s.nT + 1) t1,
                              pend := upd (specOf s.trace).pend (s.nT + 1) [] } := by
      simp only [St.emit, UH.id]; exact spec_begin _ _ _
    have ht12 : t1 ≠ s.nT + 1 := by omega
    constructor
    · refine h.e.frame (by rw [hσ]) (by rw [hσ]) (by rw [hσ]) ?_ ?_ rfl
      · intro t hx
        have := exFrom_lt hx
        have hne : t ≠ s.nT + 1 := by omega
        rw [hσ]
        simp only [St.emit]
        exact ⟨upd_other _ _ _ _ hne, upd_other _ _ _ _ hne, upd_other _ _ _ _ hne, trivial⟩
      · intro t ht
        simp only [St.emit] at ht ⊢
        have hne : t ≠ s.nT + 1 := by omega
        rw [upd_other _ _ _ _ hne]
        exact h.e.fresh t (by omega)
    · simp only [St.emit]; rw [upd_other _ _ _ _ ht12]; exact h.o1
    · simp [St.emit]
    · exact hlo
    · omega
    · exact Nat.le_refl _
    · rw [hσ]; simp
    · exact (h.e.fresh _ (Nat.lt_succ_self _)).2
    · intro t ht hne
      simp only [St.emit]
      rw [upd_other _ _ _ _ hne]
      exact h.above t ht
    · intro hc
      have hcl := h.c hc
      have hx1 : exAbove t1 t1 = false := by simp [exAbove]
      rw [hσ]
      simp only [St.emit]
      rw [upd_other _ _ _ _ ht12, upd_other _ _ _ _ ht12, upd_same]
      exact ⟨hcl.par t1 h.o1 hx1, by rw [hcl.queue t1 h.o1 hx1]; simp⟩
    · exact hlk

/-- A write through the wrapper locked inside the savepoint: pending in `t2`,
    queued on the wrapper that opened `t1`. -/
theorem nest_write {cl : Prop} {s : St} {t1 t2 : Nat} {c3 : W} (h : Nest cl s t1 t2)
    (hu : c3.u = .tx t2 (.tx t1 .none)) (hs : c3.sink = some (.tx t1)) (k : Kind) (w : Nat) :
    Nest cl (wWrite s c3 k false w).2 t1 t2 ∧ Ext s (wWrite s c3 k false w).2 := by
  have hl : c3.u.live s.opn = true := by rw [hu]; simp [UH.live, h.o1, h.o2]
  cases hsc : s.script w with
  | false => rw [wWrite_fail k false w hl hsc]; exact ⟨h.emit_inert _ rfl, Ext.emit _ _⟩
  | true =>
    rw [wWrite_ok k w hl hsc]
    simp only [handleEvent, hs, hu, UH.id]
    refine ⟨?_, ⟨Nat.le_refl _, rfl, rfl, id⟩⟩
    have hlt := h.lt
    have hlo := h.lo
    have ht20 : t2 ≠ 0 := by omega
    have ht12 : t1 ≠ t2 := by omega
    have hσ : specOf (s.emit (.write t2 k false w .ok)).trace =
        { specOf s.trace with pend := upd (specOf s.trace).pend t2 ((specOf s.trace).pend t2 ++ [(k, w)]) } := by
      simp only [St.emit]; exact spec_write_in _ _ _ _ ht20
    have hq : ∀ t, t ≠ t1 → updQ (s.emit (.write t2 k false w .ok)).queue (.tx t1)
        ((s.emit (.write t2 k false w .ok)).queue (.tx t1) ++ [(k, w)]) (.tx t) = s.queue (.tx t) := by
      intro t hne
      rw [updQ_other _ _ _ _ (by intro he; cases he; exact hne rfl)]
      rfl
    constructor
    · refine h.e.frame (by show (specOf (s.emit _).trace).bad = _; rw [hσ])
        (by show (specOf (s.emit _).trace).pub = _; rw [hσ])
        (by show (specOf (s.emit _).trace).dur = _; rw [hσ]) ?_ ?_ rfl
      · intro t hx
        have := exFrom_lt hx
        refine ⟨rfl, ?_, ?_, hq t (by omega)⟩
        · show (specOf (s.emit _).trace).par t = _; rw [hσ]
        · show (specOf (s.emit _).trace).pend t = _; rw [hσ]
          exact upd_other _ _ _ _ (by omega)
      · intro t ht
        have ht' : s.nT < t := ht
        have := h.hi
        refine ⟨(h.e.fresh t ht').1, ?_⟩
        show updQ _ _ _ (.tx t) = []
        rw [hq t (by omega)]
        exact (h.e.fresh t ht').2
    · exact h.o1
    · exact h.o2
    · exact hlo
    · exact hlt
    · exact h.hi
    · show (specOf (s.emit _).trace).par t2 = t1; rw [hσ]; exact h.p2
    · show updQ _ _ _ (.tx t2) = []; rw [hq t2 (by omega)]; exact h.q2
    · intro t ht hne
      refine ⟨(h.above t ht hne).1, ?_⟩
      show updQ _ _ _ (.tx t) = []
      rw [hq t (by omega)]
      exact (h.above t ht hne).2
    · intro hc
      obtain ⟨hp, hqq⟩ := h.qn hc
      refine ⟨by show (specOf (s.emit _).trace).par t1 = 0; rw [hσ]; exact hp, ?_⟩
      show updQ _ _ _ (.tx t1) = (specOf (s.emit _).trace).pend t1 ++ (specOf (s.emit _).trace).pend t2
      rw [updQ_same, hσ]
      simp only [St.emit]
      rw [upd_other _ _ _ _ ht12, upd_same, hqq, List.append_assoc]
    · exact h.lk

/-- What remains once the savepoint is gone (released, failed or rolled back). -/
theorem nest_closed {cl cl' : Prop} {s s' : St} {t1 t2 : Nat} (h : Nest cl s t1 t2)
    (hbad : (specOf s'.trace).bad = (specOf s.trace).bad)
    (hpub : (specOf s'.trace).pub = (specOf s.trace).pub)
    (hdur : (specOf s'.trace).dur = (specOf s.trace).dur)
    (hpar : (specOf s'.trace).par = (specOf s.trace).par)
    (hpend : ∀ t, t ≠ t1 → t ≠ t2 → (specOf s'.trace).pend t = (specOf s.trace).pend t)
    (hopn : s'.opn = upd s.opn t2 false)
    (hq : ∀ t, t ≠ t2 → s'.queue (.tx t) = s.queue (.tx t)) (hq2 : s'.queue (.tx t2) = [])
    (hnT : s'.nT = s.nT) (hlt : s'.lockTx = s.lockTx)
    (hcl : cl' → cl ∧ (specOf s'.trace).pend t1 = (specOf s.trace).pend t1 ++ (specOf s.trace).pend t2) :
    BInv cl' s' t1 := by
  have hlt12 := h.lt
  have ht12 : t1 ≠ t2 := by omega
  have he : InvE (exFrom t1) s' := by
    refine h.e.frame hbad hpub hdur ?_ ?_ hlt
    · intro t hx
      have := exFrom_lt hx
      refine ⟨by rw [hopn]; exact upd_other _ _ _ _ (by omega), by rw [hpar],
        hpend t (by omega) (by omega), hq t (by omega)⟩
    · intro t ht
      rw [hnT] at ht
      have := h.hi
      rw [hopn, upd_other _ _ _ _ (by omega), hq t (by omega)]
      exact h.e.fresh t ht
  have ho1 : s'.opn t1 = true := by rw [hopn, upd_other _ _ _ _ ht12]; exact h.o1
  refine ⟨he, ?_, ho1, h.lo, by rw [hnT]; have := h.hi; omega, ?_⟩
  · intro hc
    obtain ⟨hc0, hp1⟩ := hcl hc
    obtain ⟨hp, hqq⟩ := h.qn hc0
    refine he.change ?_
    intro t hx hex _
    have ht : t = t1 := by
      have h1 : ¬ t1 < t := by simpa [exAbove] using hx
      have h2 : t1 ≤ t := by simpa [exFrom] using hex
      omega
    subst ht
    exact ⟨by rw [hpar]; exact hp, by rw [hq t (by omega), hqq, hp1]⟩
  · intro t ht
    by_cases h2 : t = t2
    · subst h2; rw [hopn, upd_same]; exact ⟨rfl, hq2⟩
    · rw [hopn, upd_other _ _ _ _ h2, hq t h2]; exact h.above t ht h2

/-- `Commit` of the savepoint (through the wrapper that opened it). -/
theorem nest_commit {cl : Prop} {s : St} {t1 t2 : Nat} {c2 : W} (h : Nest cl s t1 t2)
    (hu : c2.u = .tx t2 (.tx t1 .none)) (hid : c2.id = .tx t2) :
    BInv (cl ∧ (wCommit s c2).1 = .ok) (wCommit s c2).2 t1 ∧ Ext s (wCommit s c2).2 := by
  have hl : c2.u.live s.opn = true := by rw [hu]; simp [UH.live, h.o1, h.o2]
  have hlt := h.lt
  have hlo := h.lo
  have h0 : c2.u.id ≠ 0 := by rw [hu]; simp [UH.id]; omega
  have hidu : c2.u.id = t2 := by rw [hu]; rfl
  have ht12 : t1 ≠ t2 := by omega
  cases hf : commitFails s c2 with
  | true =>
    rw [wCommit_fail h0 hl hf, hidu]
    refine ⟨?_, ⟨Nat.le_refl _, rfl, rfl, id⟩⟩
    have hσ : specOf ({ s with opn := upd s.opn t2 false }.emit (.commit t2 .fail)).trace =
        { specOf s.trace with pend := upd (specOf s.trace).pend t2 [] } := by
      simp only [St.emit]; exact spec_clear _ _ _ (Or.inl rfl)
    refine nest_closed h (by rw [hσ]) (by rw [hσ]) (by rw [hσ]) (by rw [hσ]) ?_ rfl (fun _ _ => rfl)
      h.q2 rfl rfl ?_
    · intro t _ h2; rw [hσ]; exact upd_other _ _ _ _ h2
    · intro hc; cases hc.2
  | false =>
    rw [wCommit_ok h0 hl hf, hidu, hid, h.q2]
    simp only [publishAll]
    refine ⟨?_, ⟨Nat.le_refl _, rfl, rfl, id⟩⟩
    have hp2 : (specOf s.trace).par t2 ≠ 0 := by rw [h.p2]; omega
    have hσ : specOf ({ s with opn := upd s.opn t2 false }.emit (.commit t2 .ok)).trace =
        { specOf s.trace with pend := upd (upd (specOf s.trace).pend t1
            ((specOf s.trace).pend t1 ++ (specOf s.trace).pend t2)) t2 [] } := by
      simp only [St.emit]
      rw [spec_commit_in _ _ hp2, h.p2]
    refine nest_closed h (by rw [hσ]) (by rw [hσ]) (by rw [hσ]) (by rw [hσ]) ?_ rfl (fun _ _ => rfl)
      h.q2 rfl rfl ?_
    · intro t h1 h2; rw [hσ]; simp only []; rw [upd_other _ _ _ _ h2, upd_other _ _ _ _ h1]
    · intro hc
      refine ⟨hc.1, ?_⟩
      rw [hσ]; simp only []; rw [upd_other _ _ _ _ ht12, upd_same]

/-- `Rollback` of the savepoint (the deferred one of `handleState`). -/
theorem nest_rollback {cl : Prop} {s : St} {t1 t2 : Nat} {c2 : W} (h : Nest cl s t1 t2)
    (hu : c2.u = .tx t2 (.tx t1 .none)) (hid : c2.id = .tx t2) :
    BInv False (wRollback s c2).2 t1 ∧ Ext s (wRollback s c2).2 := by
  have hl : c2.u.live s.opn = true := by rw [hu]; simp [UH.live, h.o1, h.o2]
  have hlt := h.lt
  have hlo := h.lo
  have h0 : c2.u.id ≠ 0 := by rw [hu]; simp [UH.id]; omega
  have hidu : c2.u.id = t2 := by rw [hu]; rfl
  rw [wRollback_live h0 hl, hidu, hid]
  refine ⟨?_, ⟨Nat.le_refl _, rfl, rfl, id⟩⟩
  have hσ : specOf ({ s with queue := updQ s.queue (.tx t2) [], opn := upd s.opn t2 false }.emit
      (.rollback t2 (if s.faults.rollback then .fail else .ok))).trace =
      { specOf s.trace with pend := upd (specOf s.trace).pend t2 [] } := by
    simp only [St.emit]
    cases s.faults.rollback
    · exact spec_clear _ _ _ (Or.inr (Or.inl rfl))
    · exact spec_clear _ _ _ (Or.inr (Or.inr rfl))
  refine nest_closed h (by rw [hσ]) (by rw [hσ]) (by rw [hσ]) (by rw [hσ]) ?_ rfl ?_ ?_ rfl rfl ?_
  · intro t _ h2; rw [hσ]; exact upd_other _ _ _ _ h2
  · intro t h2
    show updQ s.queue (.tx t2) [] (.tx t) = _
    exact updQ_other _ _ _ _ (by intro he; cases he; exact h2 rfl)
  · show updQ s.queue (.tx t2) [] (.tx t2) = []
    exact updQ_same _ _ _
  · intro hc; cases hc

end Ledger.Wrap
