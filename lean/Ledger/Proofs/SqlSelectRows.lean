import Ledger.Proofs.SqlNested

/-!
# SELECT over joined rows / CTEs: generalisations of `exec_evalSelect_simple`
-/
namespace Ledger.Sql

/-- the output row of a joined input row -/
def outRowOfL (proj : List Scope → List Value) (L : List Scope) : OutRow :=
  { vals := proj L, srcs := L.filterMap (·.src), locals := L, group := none, wins := [] }

/-- `SELECT e₁ [AS a₁], … FROM … [WHERE c] ORDER BY …` without aggregates, windows, DISTINCT, over ANY input rows -/
theorem exec_evalSelect_rows (n : Nat) (env : Env) (es : List (Expr × String)) (from_ : List FromItem) (wher : Option Expr)
    (order : List OrderItem) (s : St) (Ls : List (List Scope)) (w : List Scope → Bool) (proj : List Scope → List Value)
    (hfrom : (evalFromList n env from_ [[]]).exec s = (.ok Ls, s))
    (hwhere : ∀ c, wher = some c → ∀ L ∈ Ls, (do
        let v ← evalExpr (cbs n) s.w.types { env with locals := L } c
        pure ((← liftR v.truth) == some true)).exec s = (.ok (w L), s))
    (hwnone : wher = none → ∀ L ∈ Ls, w L = true)
    (hagg : (Expr.anyHasAgg (es.map (·.1)) || order.any (fun o => o.exprOf.hasAgg)) = false)
    (hwin : Expr.winsList (es.map (·.1)) ++ Expr.winsList (order.map OrderItem.exprOf) = [])
    (hproj : ∀ L ∈ Ls, w L = true →
      (evalExprs (cbs n) s.w.types { env with locals := L, group := none, wins := [] } (es.map (·.1))).exec s = (.ok (proj L), s))
    (sorted : List OutRow) (tie : Bool)
    (hsort : (sortOut n env (outNames es) ((Ls.filter w).map (outRowOfL proj)) order).exec s = (.ok (outNames es, sorted), s.tie tie)) :
    (evalSelect (n + 1) env (Select.mk false [] (es.map (fun p => SelItem.expr p.1 p.2)) from_ wher [] none) order).exec s =
      (.ok (outNames es, sorted), s.tie tie) := by
  have hF : ∀ (F : (List String × List Expr) → SelItem → M (List String × List Expr))
      (hF : ∀ acc e a s, (F acc (.expr e a)).exec s = (.ok (acc.1 ++ [if a.isEmpty then exprOutName e else a], acc.2 ++ [e]), s)),
      ((es.map (fun p => SelItem.expr p.1 p.2)).foldlM F ([], [])).exec s = (.ok (outNames es, es.map (·.1)), s) := by
    intro F hF
    have := exec_foldlM_exprItems F hF es ([], []) s
    simpa using this
  have hmz := map_zip_range (List.map (fun L => (L, (none : Option (List (List Scope))))) (List.filter w Ls))
      (fun u => outRowOfL proj u.1)
  have hfe : ((fun (u : List Scope × Option (List (List Scope))) => outRowOfL proj u.1) ∘ (fun L => (L, none))) = outRowOfL proj := by
    funext L; rfl
  rw [evalSelect]
  cases hw : wher with
  | none =>
    have hfl : Ls.filter w = Ls := List.filter_eq_self.mpr (hwnone hw)
    simp only [exec_bind, exec_typeEnv, hfrom, exec_pure]
    rw [← hfl]
    rw [hF _ (by intro acc e a s'; rfl)]
    simp only [List.isEmpty_nil, Bool.not_true, Bool.false_or, hagg, Bool.or_false, Bool.false_eq_true, if_false, exec_pure, hwin,
      List.foldlM_nil, exec_bind]
    rw [exec_mapM_pure _ (fun (x : Nat × List Scope × Option (List (List Scope))) => outRowOfL proj x.2.1)]
    · rw [hmz]
      simp only [List.map_map, hfe, hsort]
    · intro x hx
      obtain ⟨i, u⟩ := x
      have hx2 := List.of_mem_zip hx
      obtain ⟨L, hL, hxe⟩ := List.mem_map.mp hx2.2
      subst hxe
      have hLm := List.mem_filter.mp hL
      have hp := hproj L hLm.1 hLm.2
      simp only [List.map_nil, exec_bind, hp, exec_pure]
      rfl
  | some c =>
    have hfilter := exec_filterM _ w Ls s (hwhere c hw)
    simp only [exec_bind, exec_typeEnv, hfrom, hfilter]
    rw [hF _ (by intro acc e a s'; rfl)]
    simp only [List.isEmpty_nil, Bool.not_true, Bool.false_or, hagg, Bool.or_false, Bool.false_eq_true, if_false, exec_pure, hwin,
      List.foldlM_nil, exec_bind]
    rw [exec_mapM_pure _ (fun (x : Nat × List Scope × Option (List (List Scope))) => outRowOfL proj x.2.1)]
    · rw [hmz]
      simp only [List.map_map, hfe, hsort]
    · intro x hx
      obtain ⟨i, u⟩ := x
      have hx2 := List.of_mem_zip hx
      obtain ⟨L, hL, hxe⟩ := List.mem_map.mp hx2.2
      subst hxe
      have hLm := List.mem_filter.mp hL
      have hp := hproj L hLm.1 hLm.2
      simp only [List.map_nil, exec_bind, hp, exec_pure]
      rfl

end Ledger.Sql

/-! ### `IN` over text values -/

namespace Ledger.Sql

theorem compareValues_text (x y : String) : compareValues (.text x) (.text y) = .ok (some (cmpStr x y)) := by
  simp [compareValues, compareScalar]; rfl

theorem inValuesAux_text (x : String) : ∀ (ys : List String) (sn : Bool),
    inValuesAux (.text x) (ys.map Value.text) sn = .ok (if ys.contains x then some true else (if sn then none else some false)) := by
  intro ys
  induction ys with
  | nil => intro sn; rfl
  | cons y ys ih =>
    intro sn
    simp only [List.map_cons, inValuesAux, compareValues_text, bind, Except.bind]
    by_cases h : x = y
    · subst h
      have : cmpStr x x = Ordering.eq := by simp [cmpStr]
      simp [this, pure, Except.pure]
    · have hne : cmpStr x y ≠ Ordering.eq := by
        intro e
        have := cmpStr_eq' x y
        rw [e] at this
        simp at this
        exact h this
      have hc : (y :: ys).contains x = ys.contains x := by
        simp [h]
      rw [hc]
      cases hcm : cmpStr x y with
      | eq => exact absurd hcm hne
      | lt => exact ih sn
      | gt => exact ih sn

theorem inValues_text (x : String) (ys : List String) :
    inValues (.text x) (ys.map Value.text) = .ok (some (ys.contains x)) := by
  unfold inValues
  rw [inValuesAux_text]
  cases ys.contains x <;> rfl

end Ledger.Sql

/-! ### the last component of `<bucket>.<table>` -/

namespace Ledger.Sql

theorem splitOnChar_ne_nil (sep : Char) : ∀ (cs cur : List Char), splitOnChar sep cs cur ≠ [] := by
  intro cs
  induction cs with
  | nil => intro cur; simp [splitOnChar]
  | cons c cs ih =>
    intro cur
    simp only [splitOnChar]
    split
    · simp
    · exact ih _

/-- the last component of `xs ++ "." ++ tail` when `tail` has no dot -/
theorem getLast_splitOnChar_append (tail : List Char) (ht : ∀ c ∈ tail, (c == '.') = false) :
    ∀ (xs cur : List Char), (splitOnChar '.' (xs ++ '.' :: tail) cur).getLast? = some tail := by
  have htail : ∀ (t cur : List Char), (∀ c ∈ t, (c == '.') = false) → splitOnChar '.' t cur = [cur.reverse ++ t] := by
    intro t
    induction t with
    | nil => intro cur _; simp [splitOnChar]
    | cons c cs ih =>
      intro cur h
      have hc := h c (by simp)
      simp only [splitOnChar, hc, Bool.false_eq_true, if_false]
      rw [ih _ (fun x hx => h x (by simp [hx]))]
      simp
  intro xs
  induction xs with
  | nil =>
    intro cur
    simp only [List.nil_append, splitOnChar, show (('.' : Char) == '.') = true from rfl, if_true]
    rw [htail tail [] ht]
    simp
  | cons x xs ih =>
    intro cur
    simp only [List.cons_append, splitOnChar]
    split
    · rw [List.getLast?_cons_of_ne_nil]
      · exact ih []
      · exact splitOnChar_ne_nil _ _ _
    · exact ih _

theorem lastComponent_dot_accounts (b : String) : lastComponent (b ++ "." ++ "accounts") = "accounts" := by
  unfold lastComponent lastDotted
  have : (b ++ "." ++ "accounts").toList = b.toList ++ '.' :: "accounts".toList := by
    simp [String.toList_append]
  rw [this, getLast_splitOnChar_append "accounts".toList (by decide) b.toList []]
  rfl

end Ledger.Sql
