import Ledger.Proofs.InterpSrc

/-!
`src_sim` / `srcs_sim`: the simulation of sources, by mutual structural induction.
-/
namespace Ledger.Interp
open Ledger.Machine

/-- Balances after a source that was consumed entirely: the machine has withdrawn the
    whole funding, the interpreter has pushed all its units. -/
theorem rel_after_full {P : List (String × String)} {c : String} {b b1 : Balances} {f : Funding}
    {ist ist1 : IState} (hrel : Rel P b ist.bal) (hwf : b.WF) (hc : f.asset = c)
    (hok : SrcOK b b1 [f]) (hp : Pushed c ist ist1 (units f.parts)) : Rel P b1 ist1.bal := by
  refine hrel.delta hwf hok.delta ?_
  intro a c' _ _
  rw [hp.bal]
  simp only [inFlight, fl_eq_count a c' f (hok.nonneg f (by simp)), hc]
  by_cases h : c = c'
  · subst h; simp; omega
  · have : ¬ c' = c := fun x => h x.symm
    simp [h, this]

mutual
  theorem src_sim {env ienv : Env} (heq : EnvEq env ienv) (henv : EnvOK env)
      {P : List (String × String)} {c : String} :
      (s : Source) → srcWf env c s = true → LeavesIn P env c s.neededAccts →
      ∀ (b : Balances) (ist : IState) (amt : Int), 0 ≤ amt → ist.asset = c → b.WF → HasP P b →
        (0 < amt → Rel P b ist.bal) →
      ∃ f b1, evalSource Cfg.fixed env c s b = .ok (f, b1) ∧ f.asset = c ∧
        (∀ e, s.fallback = some e → ∃ w, evalAccount env e = .ok w) ∧
        (∀ x ∈ takeExt amt.toNat (units f.parts) (fbOf env s.fallback), validAccount x = true) ∧
        ∃ sent ist', tryUpTo ienv s amt ist = .ok (sent, ist') ∧
          Pushed c ist ist' (takeExt amt.toNat (units f.parts) (fbOf env s.fallback)) ∧
          sent = ((takeExt amt.toNat (units f.parts) (fbOf env s.fallback)).length : Int)
    | .account e od, hwf, hin, b, ist, amt, hamt, hc, hbwf, hhas, hrel => by
      simp only [srcWf, leafWf, Bool.and_eq_true] at hwf
      obtain ⟨hl, a, ha, hva⟩ := okAcct_spec hwf.1
      have hwf2 := hwf.2
      by_cases hw : e.isWorld = true
      · -- `@world`
        rw [if_pos hw] at hwf2
        have he := isWorld_eq hw
        subst he
        have ha' : a = "world" := by
          have := evalAccount_world env; rw [ha] at this; cases this; rfl
        subst ha'
        cases od with
        | none =>
          have s1 := (withdrawAlways_spec b "world" c 0).1
          refine ⟨⟨c, [(withdrawAlways b "world" c 0).1]⟩, (withdrawAlways b "world" c 0).2, ?_, rfl, ?_, ?_, ?_⟩
          · simp [evalSource, ha, hw]
          · intro e' he'; simp [Source.fallback, hw] at he'; subst he'; exact ⟨_, ha⟩
          · intro x hx
            simp only [s1, Source.fallback, hw, fbOf, ha, units_single, if_true] at hx
            simp only [takeExt, Int.toNat_zero, List.replicate_zero, List.take_nil, List.nil_append] at hx
            rw [List.eq_of_mem_replicate hx]; exact hva
          · obtain ⟨sent, ist', h1, h2, h3⟩ := leaf_unbounded heq henv hl ha ist amt hamt hc (some 0) (Or.inl rfl)
            refine ⟨sent, ist', by simpa [tryUpTo] using h1, ?_, ?_⟩
            · simpa [s1, Source.fallback, hw, fbOf, ha] using h2
            · simpa [s1, Source.fallback, hw, fbOf, ha] using h3
        | upTo x => simp [odIsNone] at hwf2
        | unbounded => simp [odIsNone] at hwf2
      · -- a bounded or unbounded account other than `@world`
        rw [if_neg hw] at hwf2
        simp only [Bool.and_eq_true] at hwf2
        have hne : a ≠ "world" := by
          have := hwf2.1; simp only [notWorld, ha] at this; simpa using this
        have hwB : e.isWorld = false := by simpa using hw
        cases od with
        | none =>
          have hP : (a, c) ∈ P := by
            obtain ⟨a', h1, h2⟩ := hin e (by simp [Source.neededAccts, hwB])
            rw [ha] at h1; cases h1; exact h2
          obtain ⟨p, b1, h1, h2, hv', sent, ist', h3, h4, h5⟩ :=
            leaf_bounded heq henv hl ha hne hP (o := 0) (by omega) b ist amt hamt hc hhas hrel
          refine ⟨⟨c, [p]⟩, b1, ?_, rfl, ?_, ?_, sent, ist', by simpa [tryUpTo] using h3, ?_, ?_⟩
          · simp [evalSource, ha, hwB, h1]
          · intro e' he'; simp [Source.fallback, hwB] at he'
          · intro x hx
            rw [hv' x (by simpa [Source.fallback, hwB, fbOf] using hx)]; exact hva
          · simpa [Source.fallback, hwB, fbOf] using h4
          · simpa [Source.fallback, hwB, fbOf] using h5
        | upTo x =>
          obtain ⟨hlx, v, hv, hv0⟩ := okCap_spec (by simpa [odWf] using hwf2.2)
          have hP : (a, c) ∈ P := by
            obtain ⟨a', h1, h2⟩ := hin e (by simp [Source.neededAccts, hwB])
            rw [ha] at h1; cases h1; exact h2
          obtain ⟨p, b1, h1, h2, hv', sent, ist', h3, h4, h5⟩ :=
            leaf_bounded heq henv hl ha hne hP (o := v) hv0 b ist amt hamt hc hhas hrel
          have hmo : evalMonOf ienv ist.asset x = .ok v := by
            rw [hc]; exact evalMonOf_agree heq henv hlx hv
          have hmax : max v 0 = v := by omega
          refine ⟨⟨c, [p]⟩, b1, ?_, rfl, ?_, ?_, sent, ist', ?_, ?_, ?_⟩
          · simp [evalSource, ha, hv, checkOverdraft, Cfg.fixed, nilAsZero, h1]
          · intro e' he'; simp [Source.fallback] at he'
          · intro x hx
            rw [hv' x (by simpa [Source.fallback, fbOf] using hx)]; exact hva
          · simp only [tryUpTo, hmo, hmax]; exact h3
          · simpa [Source.fallback, fbOf] using h4
          · simpa [Source.fallback, fbOf] using h5
        | unbounded =>
          have s1 := (withdrawAlways_spec b a c 0).1
          refine ⟨⟨c, [(withdrawAlways b a c 0).1]⟩, (withdrawAlways b a c 0).2, ?_, rfl, ?_, ?_, ?_⟩
          · simp [evalSource, ha]
          · intro e' he'; simp [Source.fallback] at he'; subst he'; exact ⟨_, ha⟩
          · intro x hx
            simp only [s1, Source.fallback, fbOf, ha, units_single] at hx
            simp only [takeExt, Int.toNat_zero, List.replicate_zero, List.take_nil, List.nil_append] at hx
            rw [List.eq_of_mem_replicate hx]; exact hva
          · obtain ⟨sent, ist', h1, h2, h3⟩ := leaf_unbounded heq henv hl ha ist amt hamt hc none (Or.inr rfl)
            refine ⟨sent, ist', by simpa [tryUpTo] using h1, ?_, ?_⟩
            · simpa [s1, Source.fallback, fbOf, ha] using h2
            · simpa [s1, Source.fallback, fbOf, ha] using h3
    | .maxed m s, hwf, hin, b, ist, amt, hamt, hc, hbwf, hhas, hrel => by
      simp only [srcWf, Bool.and_eq_true] at hwf
      obtain ⟨hlm, cap, hcap, hcap0⟩ := okCap_spec hwf.1
      have hmin : max (min amt cap) 0 = min amt cap := by omega
      obtain ⟨f, b1, h1, h2, h3, hval, sent, ist', h4, h5, h6⟩ :=
        src_sim heq henv s hwf.2 (by simpa [Source.neededAccts] using hin) b ist (min amt cap)
          (by omega) hc hbwf hhas (fun h => hrel (by omega))
      have hn := (evalSource_ok Cfg.fixed env c s b f b1 h1).1.nonneg f (by simp)
      obtain ⟨g, b2, g1, g2, g3⟩ := takeMaxStep_units (b := b1) hn h2 hcap0 h3
      have hmo : evalMonOf ienv ist.asset m = .ok cap := by
        rw [hc]; exact evalMonOf_agree heq henv hlm hcap
      have hX : takeExt amt.toNat (units g.parts) (fbOf env (Source.maxed m s).fallback) =
          takeExt (min amt cap).toNat (units f.parts) (fbOf env s.fallback) := by
        simp only [Source.fallback, fbOf, takeExt_none, g3, take_takeExt]
        congr 1; omega
      refine ⟨g, b2, ?_, g2, ?_, ?_, sent, ist', ?_, ?_, ?_⟩
      · simp [evalSource, h1, hcap, g1]
      · intro e' he'; simp [Source.fallback] at he'
      · rw [hX]; exact hval
      · simp only [tryUpTo, hmo, hmin]; exact h4
      · rw [hX]; exact h5
      · rw [hX]; exact h6
    | .inorder ss, hwf, hin, b, ist, amt, hamt, hc, hbwf, hhas, hrel => by
      simp only [srcWf, Bool.and_eq_true, Bool.not_eq_true'] at hwf
      obtain ⟨fs, b1, h1, h2, h2', h3, hval, left', ist', h4, h5, h6⟩ :=
        srcs_sim heq henv ss hwf.2 (by simpa [Source.neededAccts] using hin) b ist amt hamt hc hbwf hhas hrel
      have hne := h2' hwf.1
      have hnn : ∀ f ∈ fs, partsNonneg f.parts :=
        (evalSources_ok Cfg.fixed env c ss b fs b1 h1).1.nonneg
      -- `assemble`
      obtain ⟨l, hl⟩ : ∃ l, fs.getLast? = some l := by
        cases hg : fs.getLast? with
        | none => exact absurd (List.getLast?_eq_none_iff.mp hg) hne
        | some l => exact ⟨l, rfl⟩
      have hlc : l.asset = c := h2 l (List.mem_of_getLast? hl)
      have hall : fs.all (fun f => f.asset = l.asset) = true := by
        rw [List.all_eq_true]; intro f hf; simp [h2 f hf, hlc]
      refine ⟨⟨l.asset, concatAll fs⟩, b1, ?_, hlc, ?_, ?_, amt - left', ist', ?_, ?_, ?_⟩
      · simp [evalSource, h1, assemble, hl, hall]
      · simpa [Source.fallback] using h3
      · simpa [Source.fallback, concatAll_units fs hnn] using hval
      · simp [tryUpTo, h4]
      · simpa [Source.fallback, concatAll_units fs hnn] using h5
      · simp only [Source.fallback, concatAll_units fs hnn]; omega
  theorem srcs_sim {env ienv : Env} (heq : EnvEq env ienv) (henv : EnvOK env)
      {P : List (String × String)} {c : String} :
      (ss : SourceList) → srcsWf env c ss = true → LeavesIn P env c ss.neededAccts →
      ∀ (b : Balances) (ist : IState) (left : Int), 0 ≤ left → ist.asset = c → b.WF → HasP P b →
        (0 < left → Rel P b ist.bal) →
      ∃ fs b1, evalSources Cfg.fixed env c ss b = .ok (fs, b1) ∧ (∀ f ∈ fs, f.asset = c) ∧
        (isNilSrc ss = false → fs ≠ []) ∧
        (∀ e, ss.fallback = some e → ∃ w, evalAccount env e = .ok w) ∧
        (∀ x ∈ takeExt left.toNat (unitsAll fs) (fbOf env ss.fallback), validAccount x = true) ∧
        ∃ left' ist', tryUpToList ienv ss left ist = .ok (left', ist') ∧
          Pushed c ist ist' (takeExt left.toNat (unitsAll fs) (fbOf env ss.fallback)) ∧
          left' = left - ((takeExt left.toNat (unitsAll fs) (fbOf env ss.fallback)).length : Int)
    | .nil, _, _, b, ist, left, _, _, _, _, _ => by
      refine ⟨[], b, rfl, by simp, by simp [isNilSrc], by simp [SourceList.fallback],
        by simp [unitsAll, SourceList.fallback, fbOf, takeExt], left, ist, rfl, ?_, ?_⟩
      · simpa [unitsAll, SourceList.fallback, fbOf, takeExt] using Pushed.refl c ist
      · simp [unitsAll, SourceList.fallback, fbOf, takeExt]
    | .cons s rest, hwf, hin, b, ist, left, hleft, hc, hbwf, hhas, hrel => by
      simp only [srcsWf, Bool.and_eq_true, Bool.or_eq_true] at hwf
      obtain ⟨⟨hws, hwr⟩, hlast⟩ := hwf
      have hin' : LeavesIn P env c (s.neededAccts ++ rest.neededAccts) := by
        simpa [SourceList.neededAccts] using hin
      obtain ⟨f, b1, h1, h2, h3, hval1, sent, ist1, h4, h5, h6⟩ :=
        src_sim heq henv s hws hin'.left b ist left hleft hc hbwf hhas hrel
      have hok := (evalSource_ok Cfg.fixed env c s b f b1 h1).1
      have hn := hok.nonneg f (by simp)
      have hsent : sent ≤ left := by
        have := takeExt_length_le left.toNat (units f.parts) (fbOf env s.fallback)
        omega
      have hrel1 : 0 < left - sent → Rel P b1 ist1.bal := by
        intro hpos
        cases hfb : s.fallback with
        | some e =>
          obtain ⟨w, hw⟩ := h3 e hfb
          rw [hfb] at h6
          simp only [fbOf, hw, takeExt_length_some] at h6
          omega
        | none =>
          rw [hfb] at h5 h6
          simp only [fbOf, takeExt_none] at h5 h6
          have hlen : (units f.parts).length ≤ left.toNat := by
            simp only [List.length_take] at h6; omega
          rw [List.take_of_length_le hlen] at h5
          exact rel_after_full (hrel (by omega)) hbwf h2 hok h5
      obtain ⟨fs, b2, r1, r2, _, r3, hval2, left', ist2, r4, r5, r6⟩ :=
        srcs_sim heq henv rest hwr hin'.right b1 ist1 (left - sent) (by omega)
          (h5.asset.trans hc) (hok.delta.wf hbwf) (hhas.delta hbwf hok.delta) hrel1
      have hX : takeExt left.toNat (units f.parts) (fbOf env s.fallback) ++
            takeExt (left - sent).toNat (unitsAll fs) (fbOf env rest.fallback) =
          takeExt left.toNat (unitsAll (f :: fs)) (fbOf env (SourceList.cons s rest).fallback) := by
        cases rest with
        | nil =>
          simp only [evalSources] at r1
          cases r1
          simp [unitsAll, SourceList.fallback, fbOf, takeExt]
        | cons s' r' =>
          have hnone : s.fallback = none := by
            rcases hlast with h | h
            · simp [isNilSrc] at h
            · simpa using h
          rw [hnone] at h6
          simp only [hnone, fbOf, takeExt_none, SourceList.fallback, unitsAll] at h6 ⊢
          have e1 : (left - sent).toNat = left.toNat - ((units f.parts).take left.toNat).length := by
            omega
          rw [e1]
          exact takeExt_append _ _ _ _
      refine ⟨f :: fs, b2, ?_, ?_, by simp, ?_, ?_, left', ist2, ?_, ?_, ?_⟩
      · simp [evalSources, h1, r1]
      · intro g hg
        rcases List.mem_cons.mp hg with rfl | hg
        · exact h2
        · exact r2 g hg
      · intro e he
        cases rest with
        | nil => exact h3 e (by simpa [SourceList.fallback] using he)
        | cons s' r' => exact r3 e (by simpa [SourceList.fallback] using he)
      · rw [← hX]
        intro x hx
        rcases List.mem_append.mp hx with hx | hx
        · exact hval1 x hx
        · exact hval2 x hx
      · simp [tryUpToList, h4, r4]
      · rw [← hX]; exact h5.trans r5
      · rw [← hX, List.length_append]; omega
end

end Ledger.Interp
