import Ledger.Proofs.SqlAcMetaDrain
import Ledger.Proofs.SqlAccountsSpec

/-!
# `UpsertAccounts` with ACCOUNT_METADATA_HISTORY = SYNC

`accounts` carries, for the ledger, the AFTER UPDATE ROW trigger `update_account_metadata_history` and the AFTER INSERT ROW trigger
`insert_account_metadata_history` (other ledgers' triggers are skipped by their WHEN clause). The statement of `SqlAccountsStmt.lean`
queues one trigger per updated and per inserted row; they are drained at the end of the statement, in queue order (updates first),
each as a nested command appending a revision to `accounts_metadata` (`SqlAcMetaDrain.lean`).
-/
open Ledger Ledger.Sql Ledger.Generated Ledger.Core
namespace Ledger.Sql

/-! ### AFTER UPDATE ROW triggers with a ledger WHEN clause -/

theorem exec_triggerApplies_ledgerU (n : Nat) (t : Table) (tr : TriggerDef) (setCols : List String) (nv ov : List Value) (s : St)
    (name ln : String) (hof : tr.ofCols = []) (hw : tr.when_ = some (ledgerIs name))
    (hl : lookupIn t.colNames nv "ledger" = some (.text ln)) :
    (triggerApplies (n + 1) t tr setCols (some nv) (some ov)).exec s = (.ok (decide (ln = name)), s) := by
  rw [triggerApplies]
  have hlk : lookupColumn { outer := [({ alias := "new", cols := t.colNames, vals := nv } : Scope), { alias := "old", cols := t.colNames, vals := ov }] }
      "new" "ledger" = .ok (.text ln) := by
    simp [lookupColumn, Env.scopes, findScope, lastComponent_new, hl]
    rfl
  have hin : (evalExpr (cbs n) s.w.types { outer := [({ alias := "new", cols := t.colNames, vals := nv } : Scope),
      { alias := "old", cols := t.colNames, vals := ov }] } (ledgerIs name)).exec
      (s.withSP (schemaOf t.name)) = (.ok (.bool (decide (ln = name))), s.withSP (schemaOf t.name)) := by
    simp only [ledgerIs, evalExpr, exec_bind, hlk, exec_liftR_ok, exec_pure, evalBinop_eq_text]
  have := exec_withSearchPath (schemaOf t.name) _ s _ _ hin
  rw [withSP_withSP_self] at this
  simp only [hof, List.isEmpty_nil, Bool.not_true, Bool.and_false, Bool.false_and, Bool.false_eq_true, if_false, hw, exec_bind, exec_typeEnv,
    List.cons_append, List.nil_append, this, truth_bool, exec_liftR_ok, exec_pure]
  cases decide (ln = name) <;> rfl

/-- a per-ledger UPDATE trigger that is not for ledger `ln` -/
def OtherLedgerTrigU (ln : String) (x : TriggerDef) : Prop :=
  ∃ name, x.ofCols = [] ∧ x.when_ = some (ledgerIs name) ∧ name ≠ ln

theorem exec_afterFold_othersU (n : Nat) (t : Table) (setCols : List String) (nv ov : List Value) (ln : String)
    (hl : lookupIn t.colNames nv "ledger" = some (.text ln)) (s : St) :
    ∀ (L : List TriggerDef), (∀ x ∈ L, OtherLedgerTrigU ln x) →
      (L.foldlM (afterStep (n + 1) t setCols (some nv) (some ov)) ()).exec s = (.ok (), s) := by
  intro L
  induction L with
  | nil => intro _; simp
  | cons x xs ih =>
    intro h
    obtain ⟨name, h1, h2, h3⟩ := h x (by simp)
    have ha := exec_triggerApplies_ledgerU n t x setCols nv ov s name ln h1 h2 hl
    have hd : decide (ln = name) = false := by simp; exact fun e => h3 e.symm
    rw [hd] at ha
    simp only [exec_foldlM_cons, afterStep, exec_bind, ha, Bool.false_eq_true, if_false, exec_pure]
    exact ih (fun y hy => h y (by simp [hy]))

theorem exec_queueAfter_oneU (n : Nat) (t : Table) (setCols : List String) (nv ov : List Value) (ln : String) (s : St)
    (L1 L2 : List TriggerDef) (tr : TriggerDef)
    (hL : sortTriggers (t.triggers.filter (fun x => x.timing == .after && x.event == .update)) = L1 ++ tr :: L2)
    (h1 : ∀ x ∈ L1, OtherLedgerTrigU ln x) (h2 : ∀ x ∈ L2, OtherLedgerTrigU ln x)
    (hof : tr.ofCols = []) (hw : tr.when_ = some (ledgerIs ln))
    (hl : lookupIn t.colNames nv "ledger" = some (.text ln)) :
    (queueAfter (n + 2) t .update setCols (some nv) (some ov)).exec s =
      (.ok (), s.addQ [{ fname := tr.fname, table := t.name, new := some nv, old := some ov }]) := by
  rw [queueAfter_eq, hL]
  have ha := exec_triggerApplies_ledgerU n t tr setCols nv ov s ln ln hof hw hl
  simp only [decide_true] at ha
  simp only [List.foldlM_append, exec_bind, exec_afterFold_othersU n t setCols nv ov ln hl s L1 h1, exec_foldlM_cons]
  have hstep : (afterStep (n + 1) t setCols (some nv) (some ov) () tr).exec s =
      (.ok (), s.addQ [{ fname := tr.fname, table := t.name, new := some nv, old := some ov }]) := by
    simp only [afterStep, exec_bind, ha, if_true, exec_modify]
    rfl
  simp only [hstep, exec_afterFold_othersU n t setCols nv ov ln hl _ L2 h2]

/-! ### the queue of the statement -/

/-- the queued triggers of the updated rows, in scan order -/
def acUpdItems (l : String) (ds : List DbR) (ts : List Ver) : List AmItem :=
  ts.filterMap (fun r =>
    match acDec r.vals with
    | some a => if (ds.find? (updCond l a)).isSome then some { upd := true, a := updOf l ds a, old := some a } else none
    | none => none)

/-- the queued triggers of the inserted rows -/
def acInsItems (l : String) (D : List DbR) : List AmItem := D.map (fun d => { upd := false, a := insRow l d, old := none })

def pendU (b fU l : String) (ds : List DbR) (r : Ver) : List PendingTrig :=
  [{ fname := fU, table := acFull b, new := some (acUpdF l ds r.vals), old := some r.vals }]

def pendI (b fI : String) (a : AcR) : List PendingTrig := [{ fname := fI, table := acFull b, new := some a.vals, old := none }]

theorem updQ_items (b fI fU l : String) (ds : List DbR) : ∀ (ts : List Ver), (∀ r ∈ ts, ∃ a : AcR, r.vals = a.vals) →
    updQ (fun v => (acMatch l ds v).isSome) (pendU b fU l ds) ts = (acUpdItems l ds ts).map (amPending b fI fU) := by
  intro ts
  induction ts with
  | nil => intro _; rfl
  | cons r rest ih =>
    intro h
    obtain ⟨a, ha⟩ := h r (by simp)
    have ih' := ih (fun x hx => h x (by simp [hx]))
    unfold updQ at ih' ⊢
    rw [List.flatMap_cons, ih', ha]
    simp only [acMatch_vals, acUpdItems, List.filterMap_cons, ha, acDec_vals]
    cases hf : ds.find? (updCond l a) with
    | none => simp
    | some d =>
      simp only [Option.map_some, Option.isSome_some, if_true, List.map_cons, pendU, amPending, ha, acUpdF_vals l ds a d hf, updOf, hf,
        Option.map_some]
      rfl

theorem acInsQ_items (b fI fU l : String) (D : List DbR) : acInsQ l (pendI b fI) D = (acInsItems l D).map (amPending b fI fU) := by
  induction D with
  | nil => rfl
  | cons d rest ih =>
    simp only [acInsQ, List.flatMap_cons, acInsItems, List.map_cons] at ih ⊢
    rw [ih]
    rfl

/-- the hypotheses on the state in which `UpsertAccounts` runs, ACCOUNT_METADATA_HISTORY on -/
structure UpsertStateH (s : St) (b l : String) (trigs : List TriggerDef) (nr : Nat) (rows : List Ver)
    (AU1 AU2 : List TriggerDef) (trU : TriggerDef) (AI1 AI2 : List TriggerDef) (trI : TriggerDef) (fnI fnU : PlFunc)
    (nrH : Nat) (rowsH : List Ver) (sqH : Seq) (tblH : List AmR) : Prop where
  tbl : AcTblState s b trigs nr rows
  q0 : s.afterQ = []
  noInsB : trigs.filter (fun tr => tr.timing == .before && tr.event == .insert) = []
  sortedU : sortTriggers (trigs.filter (fun x => x.timing == .after && x.event == .update)) = AU1 ++ trU :: AU2
  othersU1 : ∀ x ∈ AU1, OtherLedgerTrigU l x
  othersU2 : ∀ x ∈ AU2, OtherLedgerTrigU l x
  ofU : trU.ofCols = []
  whenU : trU.when_ = some (ledgerIs l)
  sortedI : sortTriggers (trigs.filter (fun x => x.timing == .after && x.event == .insert)) = AI1 ++ trI :: AI2
  othersI1 : ∀ x ∈ AI1, OtherLedgerTrig l x
  othersI2 : ∀ x ∈ AI2, OtherLedgerTrig l x
  evI : trI.event = .insert
  whenI : trI.when_ = some (ledgerIs l)
  stat : AmStatic s.w.funcs b trI.fname trU.fname fnI fnU
  hist : AmState s b nrH rowsH sqH
  histView : AmView (latestView s.w s.xid) rowsH tblH
  histFresh : Fresh s.xid s.nextCid rowsH

end Ledger.Sql

namespace Ledger.Sql
open Ledger.Generated.WriteSql
open Ledger.Generated.WriteSql.P (AccountRow)

/-- **`UpsertAccounts`, metadata history on** -/
theorem exec_runStmt_upsertAccounts_hist (k : Nat) (env : Env) (b l : String) (id : Nat) (trigs : List TriggerDef) (nr : Nat) (rows : List Ver)
    (AU1 AU2 : List TriggerDef) (trU : TriggerDef) (AI1 AI2 : List TriggerDef) (trI : TriggerDef) (fnI fnU : PlFunc)
    (nrH : Nat) (rowsH : List Ver) (sqH : Seq) (tblH : List AmR)
    (s : St) (hst : UpsertStateH s b l trigs nr rows AU1 AU2 trU AI1 AI2 trI fnI fnU nrH rowsH sqH tblH) (henv : env.ctes = [])
    (pm : List (AccountRow × DbR)) (hlits : ∀ x ∈ pm, DbLit s.w.types x.1 x.2) (hnd : ((pm.map (·.2)).map (·.address)).Nodup)
    (items : List AmItem)
    (hitems : items = acUpdItems l (pm.map (·.2)) ((rows.filter (fun r => r.visible (latestView s.w s.xid))).reverse) ++
      acInsItems l ((pm.map (·.2)).filter (fun d => !(exAddrs b l trigs nr rows (cv s) (pm.map (·.2))).contains d.address)))
    (hnc : s.nextCid + 2 * items.length ≤ 1000000000) (hrange : sqH.next + items.length ≤ 9223372036854775807) :
    ∃ res : DmlResult,
      ((P.upsertAccounts b l id (pm.map (·.1))).mapM (runStmt (k + 19) env)).exec s =
        (.ok [res],
         amDrainSt b s.xid
           (s.withTable ((acT b trigs (nr + ((pm.map (·.2)).filter (fun d => !(exAddrs b l trigs nr rows (cv s) (pm.map (·.2))).contains d.address)).length)).withRows
             (acInsRows s.xid s.cid l nr (acUpdRows (latestView s.w s.xid) s.xid s.cid l (pm.map (·.2)) rows)
               ((pm.map (·.2)).filter (fun d => !(exAddrs b l trigs nr rows (cv s) (pm.map (·.2))).contains d.address)))))
           nrH sqH.next rowsH tblH items) := by
  have hcl : s.clearQ = s := clearQ_of_empty s hst.q0
  have htb := hst.tbl
  obtain ⟨res, stmt, hshape, hexec⟩ := exec_upsertAccounts_core k env b l id trigs nr rows s htb hst.noInsB
    (pendU b trU.fname l (pm.map (·.2))) (pendI b trI.fname) pm
    (by
      intro r a hv hm m rows' s'
      have hal : a.ledger = l := by
        rw [hv, acMatch_vals] at hm
        cases hf : (pm.map (·.2)).find? (updCond l a) with
        | none => rw [hf] at hm; cases hm
        | some d =>
          have := List.find?_some hf
          simp only [updCond, Bool.and_eq_true, decide_eq_true_eq] at this
          exact this.1.2
      have hl : lookupIn ((acT b trigs nr).withRows rows').colNames (acUpdF l (pm.map (·.2)) r.vals) "ledger" = some (.text l) := by
        obtain ⟨a', ha'⟩ := acUpdF_typed l (pm.map (·.2)) a
        have hk := acUpdF_key l (pm.map (·.2)) a
        rw [hv, ha']
        rw [ha', acKeyOf_vals] at hk
        have : a'.ledger = l := by rw [← hal]; exact (Prod.mk.inj hk).1
        rw [← this]
        cases a'; rfl
      exact exec_queueAfter_oneU (m + 1) ((acT b trigs nr).withRows rows') _ _ r.vals l s' AU1 AU2 trU hst.sortedU hst.othersU1 hst.othersU2
        hst.ofU hst.whenU hl)
    (by
      intro nr' rows' a s' hal
      have hl : lookupIn ((acT b trigs nr').withRows rows').colNames a.vals "ledger" = some (.text l) := by
        rw [← hal]; cases a; rfl
      exact exec_queueAfter_one (k + 7) ((acT b trigs nr').withRows rows') a.vals l s' AI1 AI2 trI hst.sortedI hst.othersI1 hst.othersI2
        hst.evI hst.whenI hl)
    henv hlits hnd
  rw [updQ_items b trI.fname trU.fname l (pm.map (·.2)) _ (by
      intro r hr
      exact htb.inv.typed r (List.mem_filter.mp (List.mem_reverse.mp hr)).1),
    acInsQ_items b trI.fname trU.fname, ← List.map_append, ← hitems] at hexec
  have hTA4 := withTable_table? s ((acT b trigs nr).withRows rows)
    ((acT b trigs (nr + ((pm.map (·.2)).filter (fun d => !(exAddrs b l trigs nr rows (cv s) (pm.map (·.2))).contains d.address)).length)).withRows
      (acInsRows s.xid s.cid l nr (acUpdRows (latestView s.w s.xid) s.xid s.cid l (pm.map (·.2)) rows)
        ((pm.map (·.2)).filter (fun d => !(exAddrs b l trigs nr rows (cv s) (pm.map (·.2))).contains d.address)))) htb.table
  generalize hS4 : s.withTable ((acT b trigs (nr + ((pm.map (·.2)).filter (fun d => !(exAddrs b l trigs nr rows (cv s) (pm.map (·.2))).contains d.address)).length)).withRows
    (acInsRows s.xid s.cid l nr (acUpdRows (latestView s.w s.xid) s.xid s.cid l (pm.map (·.2)) rows)
      ((pm.map (·.2)).filter (fun d => !(exAddrs b l trigs nr rows (cv s) (pm.map (·.2))).contains d.address)))) = S4 at hexec hTA4 ⊢
  have hq4 : S4.afterQ = [] := by rw [← hS4]; exact hst.q0
  have hx4 : S4.xid = s.xid := by rw [← hS4]; rfl
  -- the drain
  have hfold := exec_drainFold_am (k + 3) b trI.fname trU.fname fnI fnU items S4 nrH rowsH sqH tblH
    (by rw [← hS4]; exact htb.tx.withTable _)
    (by rw [← hS4]; exact hst.stat)
    (by rw [← hS4]; exact hnc)
    ⟨_, hTA4, rfl⟩
    { table := by
        rw [← hS4]
        have := withTable_table?_ne s ((acT b trigs (nr + ((pm.map (·.2)).filter (fun d => !(exAddrs b l trigs nr rows (cv s) (pm.map (·.2))).contains d.address)).length)).withRows
          (acInsRows s.xid s.cid l nr (acUpdRows (latestView s.w s.xid) s.xid s.cid l (pm.map (·.2)) rows)
            ((pm.map (·.2)).filter (fun d => !(exAddrs b l trigs nr rows (cv s) (pm.map (·.2))).contains d.address)))) (amFull b) (amFull_ne_acFull b)
        exact this.trans hst.hist.table
      seq := by rw [← hS4]; exact hst.hist.seq
      all := hst.hist.all
      lo := hst.hist.lo
      hi := hst.hist.hi }
    hrange
    (by rw [← hS4]; exact hst.histView)
    (by rw [← hS4]; exact hst.histFresh)
  rw [hx4] at hfold
  refine ⟨res, ?_⟩
  rw [hshape]
  simp only [exec_mapM_cons, List.mapM_nil, exec_pure]
  rw [runStmt]
  simp only [exec_bind, exec_get, exec_modify, exec_pure]
  rw [show ({ s with afterQ := [] } : St) = s.clearQ from rfl, hcl, hexec]
  simp only
  by_cases hQ : items = []
  · subst hQ
    simp only [List.map_nil, addQ_nil, amDrainSt]
    rw [drainAfter]
    simp only [exec_bind, exec_get, hq4, List.isEmpty_nil, if_true, exec_pure, hst.q0]
    rw [show ({ S4 with afterQ := [] } : St) = S4.clearQ from rfl, clearQ_of_empty S4 hq4]
  · have hX' : (amDrainSt b s.xid S4 nrH sqH.next rowsH tblH items).afterQ = [] := by
      rw [amDrainSt_afterQ]; exact hq4
    have hdr := exec_drainAfter_queue (k + 16) S4 _ hq4 hX' (items.map (amPending b trI.fname trU.fname)) (by simpa using hQ) hfold
    rw [hdr]
    simp only [exec_bind, exec_pure, hst.q0]
    rw [show ({ amDrainSt b s.xid S4 nrH sqH.next rowsH tblH items with afterQ := [] } : St) =
      (amDrainSt b s.xid S4 nrH sqH.next rowsH tblH items).clearQ from rfl, clearQ_of_empty _ hX']

end Ledger.Sql
