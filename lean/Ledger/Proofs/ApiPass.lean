import Ledger.Api.TxBody

/-!
Pass-through lemmas: every client-supplied request-level field of a create
transaction request reaches the controller call unchanged (C14 at the API
boundary: the reference; also timestamp, metadata, account metadata, runtime).
-/
namespace Ledger.Api

theorem txRequestToCore_fields (req : TxRequestV2) (force : Bool) (c : CreateCall)
    (h : txRequestToCore req force = .ok c) :
    c.reference = req.reference ∧ c.timestamp = req.timestamp ∧ c.metadata = req.metadata.getD [] ∧
    c.accountMetadata = req.accountMetadata ∧ c.runtime = req.runtime := by
  unfold txRequestToCore at h
  cases hv : validatePostings req.postings with
  | error e => simp [hv, bind, Except.bind] at h
  | ok ps =>
    simp only [hv, bind, Except.bind] at h
    split at h
    · simp only [pure, Except.pure] at h
      cases h
      simp
    · simp only [pure, Except.pure] at h
      cases h
      simp

theorem decTxRequestV2_fields (pt : String → Option String) (kvs : List (String × JVal)) (req : TxRequestV2)
    (h : decTxRequestV2 pt (.obj kvs) = .ok req) :
    decStr (getField kvs "reference") = .ok req.reference ∧
    decTime pt (getField kvs "timestamp") = .ok req.timestamp ∧
    decStrMap (getField kvs "metadata") = .ok req.metadata ∧
    decAccountMetadata (getField kvs "accountMetadata") = .ok req.accountMetadata ∧
    decStr (getField kvs "runtime") = .ok req.runtime := by
  unfold decTxRequestV2 at h
  simp only [bind, Except.bind, pure, Except.pure] at h
  cases h1 : decPostings (getField kvs "postings") <;> simp only [h1] at h <;> try cases h
  cases h2 : decScriptIn (getField kvs "script") <;> simp only [h2] at h <;> try cases h
  rename_i script
  cases h3 : decodeVarsV2D script.vars <;> simp only [h3] at h <;> try cases h
  cases h4 : decTime pt (getField kvs "timestamp") <;> simp only [h4] at h <;> try cases h
  cases h5 : decStr (getField kvs "reference") <;> simp only [h5] at h <;> try cases h
  cases h6 : decStrMap (getField kvs "metadata") <;> simp only [h6] at h <;> try cases h
  cases h7 : decAccountMetadata (getField kvs "accountMetadata") <;> simp only [h7] at h <;> try cases h
  cases h8 : decStr (getField kvs "runtime") <;> simp only [h8] at h <;> try cases h
  cases h9 : decBool (getField kvs "force") <;> simp only [h9] at h <;> try cases h
  simp

/-- v2 create: the call handed to the controller carries the request's fields. -/
theorem createV2_fields (pt : String → Option String) (qf : Bool) (kvs : List (String × JVal)) (c : CreateCall)
    (h : createV2 pt qf (.obj kvs) = .ok c) :
    decStr (getField kvs "reference") = .ok c.reference ∧
    decTime pt (getField kvs "timestamp") = .ok c.timestamp ∧
    (decStrMap (getField kvs "metadata")).map (·.getD []) = .ok c.metadata ∧
    decAccountMetadata (getField kvs "accountMetadata") = .ok c.accountMetadata ∧
    decStr (getField kvs "runtime") = .ok c.runtime := by
  unfold createV2 at h
  cases hd : decTxRequestV2 pt (.obj kvs) with
  | error e => simp [hd] at h
  | ok req =>
    simp only [hd] at h
    obtain ⟨r1, r2, r3, r4, r5⟩ := decTxRequestV2_fields pt kvs req hd
    split at h
    · cases h
    · split at h
      · cases h
      · cases hc : txRequestToCore req (req.force || qf) with
        | error e => simp [hc] at h
        | ok c' =>
          simp only [hc] at h
          cases h
          obtain ⟨c1, c2, c3, c4, c5⟩ := txRequestToCore_fields req _ c hc
          simp [r1, r2, r3, r4, r5, c1, c2, c3, c4, c5, Except.map]

/-- v1 create (postings form AND script form): reference, timestamp and metadata
    of the body reach the controller call. -/
theorem createV1_fields (pt : String → Option String) (kvs : List (String × JVal)) (c : CreateCall)
    (h : createV1 pt (.obj kvs) = .ok c) :
    decStr (getField kvs "reference") = .ok c.reference ∧
    decTime pt (getField kvs "timestamp") = .ok c.timestamp ∧
    (decStrMap (getField kvs "metadata")).map (·.getD []) = .ok c.metadata := by
  unfold createV1 at h
  simp only [bind, Except.bind, pure, Except.pure] at h
  cases h1 : decPostings (getField kvs "postings") <;> simp only [h1] at h <;> try cases h
  cases h2 : decScriptIn (getField kvs "script") <;> simp only [h2] at h <;> try cases h
  rename_i postings script
  by_cases hs : varsShapeOk script.vars
  · simp only [hs, Bool.not_true, Bool.false_eq_true, if_false] at h
    cases h4 : decTime pt (getField kvs "timestamp") <;> simp only [h4] at h <;> try cases h
    cases h5 : decStr (getField kvs "reference") <;> simp only [h5] at h <;> try cases h
    cases h6 : decStrMap (getField kvs "metadata") <;> simp only [h6] at h <;> try cases h
    split at h
    · cases h
    · split at h
      · cases hv : validatePostings postings <;> simp only [hv] at h
        · cases h
        · cases h; simp [Except.map]
      · cases hv : decodeVarsV1 script.vars <;> simp only [hv] at h
        · cases h; simp [Except.map]
        · cases h
        · cases h
  · simp [hs] at h

/-- Bulk `CREATE_TRANSACTION` elements: the element's idempotency key and the
    reference / timestamp / metadata of its `data` reach the controller call. -/
theorem bulkCreate_fields (pt : String → Option String) (kvs dk : List (String × JVal)) (ik : String) (c : CreateCall)
    (hdata : getField kvs "data" = some (.obj dk))
    (h : bulkElement pt (.obj kvs) = .call ik (.create c)) :
    decStr (getField kvs "ik") = .ok ik ∧
    decStr (getField dk "reference") = .ok c.reference ∧
    decTime pt (getField dk "timestamp") = .ok c.timestamp ∧
    (decStrMap (getField dk "metadata")).map (·.getD []) = .ok c.metadata := by
  unfold bulkElement at h
  cases ha : decStr (getField kvs "action") <;> cases hi : decStr (getField kvs "ik") <;>
    simp only [ha, hi, hdata] at h <;> try cases h
  rename_i action ik'
  by_cases hact : action = "CREATE_TRANSACTION"
  · simp only [hact, if_true] at h
    cases hd : decTxRequestV2 pt (.obj dk) with
    | error e => simp [hd] at h
    | ok req =>
      simp only [hd] at h
      cases hc : txRequestToCore req req.force with
      | error e => simp [hc] at h
      | ok c' =>
        simp only [hc] at h
        cases h
        obtain ⟨r1, r2, r3, _, _⟩ := decTxRequestV2_fields pt dk req hd
        obtain ⟨c1, c2, c3, _, _⟩ := txRequestToCore_fields req _ c hc
        simp [r1, r2, r3, c1, c2, c3, Except.map]
  · exfalso
    simp only [hact, if_false] at h
    split at h
    · repeat (first | cases h | split at h)
    · split at h
      · repeat (first | cases h | split at h)
      · split at h
        · repeat (first | cases h | split at h)
        · cases h

end Ledger.Api
