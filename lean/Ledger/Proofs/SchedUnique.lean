import Ledger.Proofs.SchedBasic

/-!
# Unique indexes under any schedule (C13, C14, C16)

`transactions (ledger, id)`, `transactions (ledger, reference) where reference <> ''`,
`logs (ledger, id)`, `logs (ledger, idempotency_key)`: an entry is only ever appended when no entry
(committed, or in progress in ANY session) carries the same key — a committed conflict raises
23505, an in-progress one makes the statement wait — so the key stays unique among all entries,
committed or not, whatever the programs and the schedule.
-/
namespace Ledger.Sched

/-- two transaction rows are compatible with the unique indexes -/
def TxOk (a b : Tx) : Prop := a.l = b.l → a.id ≠ b.id ∧ (a.ref ≠ 0 → a.ref ≠ b.ref)

/-- two log rows are compatible with the unique indexes -/
def LgOk (a b : Lg) : Prop := a.l = b.l → a.id ≠ b.id ∧ (a.ik ≠ 0 → a.ik ≠ b.ik)

def UniqInv (w : World) : Prop := w.txs.Pairwise TxOk ∧ w.logs.Pairwise LgOk

theorem pairwise_map_flag {α : Type} (R : α → α → Prop) (f : α → α) (l : List α)
    (hf : ∀ a b, R a b → R (f a) (f b)) (h : l.Pairwise R) : (l.map f).Pairwise R := by
  induction h with
  | nil => exact List.Pairwise.nil
  | cons hall _ ih =>
    rw [List.map_cons]
    refine List.Pairwise.cons ?_ ih
    intro b hb
    obtain ⟨b', hb', rfl⟩ := List.mem_map.mp hb
    exact hf _ _ (hall b' hb')

theorem uniq_commit (w : World) (s : Sid) (h : UniqInv w) : UniqInv (w.commitTx s) := by
  constructor
  · refine pairwise_map_flag TxOk _ _ ?_ h.1
    intro a b hab
    unfold TxOk at *
    split <;> split <;> simpa using hab
  · refine pairwise_map_flag LgOk _ _ ?_ h.2
    intro a b hab
    unfold LgOk at *
    split <;> split <;> simpa using hab

theorem uniq_undo (w : World) (s : Sid) (b : Bool) (h : UniqInv w) : UniqInv (w.undo s b) :=
  ⟨h.1.filter _, h.2.filter _⟩

theorem uniq_rollback (w : World) (s : Sid) (h : UniqInv w) : UniqInv (w.rollbackTx s) :=
  uniq_undo w s false h

theorem uniq_fail (w : World) (s : Sid) (h : UniqInv w) : UniqInv (w.failTx s) := by
  unfold World.failTx
  simp only
  split
  · exact uniq_undo w s (decide ((w.sess s).sp > 0)) h
  · exact h

theorem find?_none_all {α : Type} (p : α → Bool) (l : List α) (h : l.find? p = none) : ∀ a ∈ l, p a = false := by
  intro a ha
  have := List.find?_eq_none.mp h a ha
  simpa using this

theorem insTx_done {w : World} {s : Sid} {l ref : Nat} {id : Option Nat} {w' : World} {o : Out}
    (h : insTx w s l ref id = .done w' o) :
    w.txs.find? (fun t => t.l = l && t.id = id.getD (w.txSeq l + 1)) = none ∧
    (if ref = 0 then none else w.txs.find? (fun t => t.l = l && t.ref = ref)) = none ∧
    w'.txs = w.txs ++ [{ l := l, id := id.getD (w.txSeq l + 1), ref := ref, by_ := s, com := false }] ∧
    w'.logs = w.logs := by
  unfold insTx at h
  dsimp only at h
  cases h1 : w.txs.find? (fun t => decide (t.l = l) && decide (t.id = id.getD (w.txSeq l + 1))) with
  | some t => rw [h1] at h; dsimp only at h; split at h <;> cases h
  | none =>
    rw [h1] at h; dsimp only at h
    cases h2 : (if ref = 0 then none else w.txs.find? (fun t => decide (t.l = l) && decide (t.ref = ref))) with
    | some t => rw [h2] at h; dsimp only at h; split at h <;> cases h
    | none =>
      rw [h2] at h; dsimp only at h
      injection h with hw _
      subst hw
      exact ⟨rfl, rfl, rfl, rfl⟩

theorem insTx_failed {w : World} {s : Sid} {l ref : Nat} {id : Option Nat} {w' : World} {e : Err}
    (h : insTx w s l ref id = .failed w' e) : w'.txs = w.txs ∧ w'.logs = w.logs := by
  unfold insTx at h
  dsimp only at h
  cases h1 : w.txs.find? (fun t => decide (t.l = l) && decide (t.id = id.getD (w.txSeq l + 1))) with
  | some t =>
    rw [h1] at h; dsimp only at h
    split at h
    · cases h
    · injection h with hw _; subst hw; exact ⟨rfl, rfl⟩
  | none =>
    rw [h1] at h; dsimp only at h
    cases h2 : (if ref = 0 then none else w.txs.find? (fun t => decide (t.l = l) && decide (t.ref = ref))) with
    | some t =>
      rw [h2] at h; dsimp only at h
      split at h
      · cases h
      · injection h with hw _; subst hw; exact ⟨rfl, rfl⟩
    | none => rw [h2] at h; cases h

theorem insLog_done {w : World} {s : Sid} {l ik hash : Nat} {sync : Bool} {id : Option Nat} {tx : Nat} {w' : World} {o : Out}
    (h : insLog w s l ik hash sync id tx = .done w' o) :
    w.logs.find? (fun e => e.l = l && e.id = id.getD (w.logSeq l + 1)) = none ∧
    (if ik = 0 then none else w.logs.find? (fun e => e.l = l && e.ik = ik)) = none ∧
    (∃ prev, w'.logs = w.logs ++ [{ l := l, id := id.getD (w.logSeq l + 1), ik := ik, hash := hash, prev := prev, tx := tx, by_ := s, com := false }]) ∧
    w'.txs = w.txs := by
  unfold insLog at h
  dsimp only at h
  cases h1 : w.logs.find? (fun e => decide (e.l = l) && decide (e.id = id.getD (w.logSeq l + 1))) with
  | some t => rw [h1] at h; dsimp only at h; split at h <;> cases h
  | none =>
    rw [h1] at h; dsimp only at h
    cases h2 : (if ik = 0 then none else w.logs.find? (fun e => decide (e.l = l) && decide (e.ik = ik))) with
    | some t => rw [h2] at h; dsimp only at h; split at h <;> cases h
    | none =>
      rw [h2] at h; dsimp only at h
      injection h with hw _
      subst hw
      exact ⟨rfl, rfl, ⟨_, rfl⟩, rfl⟩

theorem insLog_failed {w : World} {s : Sid} {l ik hash : Nat} {sync : Bool} {id : Option Nat} {tx : Nat} {w' : World} {e : Err}
    (h : insLog w s l ik hash sync id tx = .failed w' e) : w'.txs = w.txs ∧ w'.logs = w.logs := by
  unfold insLog at h
  dsimp only at h
  cases h1 : w.logs.find? (fun e => decide (e.l = l) && decide (e.id = id.getD (w.logSeq l + 1))) with
  | some t =>
    rw [h1] at h; dsimp only at h
    split at h
    · cases h
    · injection h with hw _; subst hw; exact ⟨rfl, rfl⟩
  | none =>
    rw [h1] at h; dsimp only at h
    cases h2 : (if ik = 0 then none else w.logs.find? (fun e => decide (e.l = l) && decide (e.ik = ik))) with
    | some t =>
      rw [h2] at h; dsimp only at h
      split at h
      · cases h
      · injection h with hw _; subst hw; exact ⟨rfl, rfl⟩
    | none => rw [h2] at h; cases h

/-- statements other than the two inserts leave `txs` and `logs` alone -/
theorem exec_other_lists (w : World) (s : Sid) (st : Stmt) (w' : World)
    (hst : (∀ l r i, st ≠ .insertTx l r i) ∧ (∀ l k h sy i t, st ≠ .insertLog l k h sy i t))
    (he : (∃ o, exec w s st = .done w' o) ∨ (∃ e, exec w s st = .failed w' e)) :
    w'.txs = w.txs ∧ w'.logs = w.logs := by
  cases st with
  | insertTx l r i => exact absurd rfl (hst.1 l r i)
  | insertLog l k h sy i t => exact absurd rfl (hst.2 l k h sy i t)
  | getBalances ps =>
    rcases he with ⟨o, he⟩ | ⟨e, he⟩ <;> (simp only [exec] at he; unfold getBal at he; repeat' split at he) <;>
      all_goals first | (cases he; done) | (cases he; exact ⟨rfl, rfl⟩)
  | updateVolumes ds =>
    rcases he with ⟨o, he⟩ | ⟨e, he⟩ <;> (simp only [exec] at he; unfold updVol at he; repeat' split at he) <;>
      all_goals first | (cases he; done) | (cases he; exact ⟨rfl, rfl⟩)
  | _ =>
    rcases he with ⟨o, he⟩ | ⟨e, he⟩ <;> (simp only [exec] at he; repeat' split at he) <;>
      all_goals first | (cases he; done) | (cases he; exact ⟨rfl, rfl⟩)

theorem uniq_exec (w : World) (s : Sid) (st : Stmt) (w' : World) (o : Out)
    (h : UniqInv w) (he : exec w s st = .done w' o) : UniqInv w' := by
  by_cases h1 : ∃ l r i, st = .insertTx l r i
  · obtain ⟨l, ref, id, rfl⟩ := h1
    simp only [exec] at he
    obtain ⟨hid, href, htxs, hlogs⟩ := insTx_done he
    unfold UniqInv
    rw [htxs, hlogs]
    refine ⟨?_, h.2⟩
    rw [List.pairwise_append]
    refine ⟨h.1, List.pairwise_singleton _ _, ?_⟩
    intro a ha b hb
    simp only [List.mem_singleton] at hb
    subst hb
    intro hl
    have h1 := find?_none_all _ _ hid a ha
    simp only [Bool.and_eq_false_iff, decide_eq_false_iff_not] at h1
    constructor
    · intro hcon
      rcases h1 with h1 | h1
      · exact h1 hl
      · exact h1 hcon
    · intro hr0 hcon
      have hreq : a.ref = ref := hcon
      by_cases hz : ref = 0
      · exact hr0 (hreq.trans hz)
      · rw [if_neg hz] at href
        have h2 := find?_none_all _ _ href a ha
        simp only [Bool.and_eq_false_iff, decide_eq_false_iff_not] at h2
        rcases h2 with h2 | h2
        · exact h2 hl
        · exact h2 hreq
  · by_cases h2 : ∃ l k hh sy i t, st = .insertLog l k hh sy i t
    · obtain ⟨l, ik, hash, sync, id, tx, rfl⟩ := h2
      simp only [exec] at he
      obtain ⟨hid, hik, ⟨prev, hlogs⟩, htxs⟩ := insLog_done he
      unfold UniqInv
      rw [htxs, hlogs]
      refine ⟨h.1, ?_⟩
      rw [List.pairwise_append]
      refine ⟨h.2, List.pairwise_singleton _ _, ?_⟩
      intro a ha b hb
      simp only [List.mem_singleton] at hb
      subst hb
      intro hl
      have h1 := find?_none_all _ _ hid a ha
      simp only [Bool.and_eq_false_iff, decide_eq_false_iff_not] at h1
      constructor
      · intro hcon
        rcases h1 with h1 | h1
        · exact h1 hl
        · exact h1 hcon
      · intro hr0 hcon
        have hreq : a.ik = ik := hcon
        by_cases hz : ik = 0
        · exact hr0 (hreq.trans hz)
        · rw [if_neg hz] at hik
          have h2 := find?_none_all _ _ hik a ha
          simp only [Bool.and_eq_false_iff, decide_eq_false_iff_not] at h2
          rcases h2 with h2 | h2
          · exact h2 hl
          · exact h2 hreq
    · have := exec_other_lists w s st w'
        ⟨fun l r i hc => h1 ⟨l, r, i, hc⟩, fun l k hh sy i t hc => h2 ⟨l, k, hh, sy, i, t, hc⟩⟩ (Or.inl ⟨o, he⟩)
      unfold UniqInv
      rw [this.1, this.2]
      exact h

theorem uniq_execF (w : World) (s : Sid) (st : Stmt) (w' : World) (e : Err)
    (h : UniqInv w) (he : exec w s st = .failed w' e) : UniqInv w' := by
  have : w'.txs = w.txs ∧ w'.logs = w.logs := by
    by_cases h1 : ∃ l r i, st = .insertTx l r i
    · obtain ⟨l, ref, id, rfl⟩ := h1
      simp only [exec] at he
      exact insTx_failed he
    · by_cases h2 : ∃ l k hh sy i t, st = .insertLog l k hh sy i t
      · obtain ⟨l, ik, hash, sync, id, tx, rfl⟩ := h2
        simp only [exec] at he
        exact insLog_failed he
      · exact exec_other_lists w s st w'
          ⟨fun l r i hc => h1 ⟨l, r, i, hc⟩, fun l k hh sy i t hc => h2 ⟨l, k, hh, sy, i, t, hc⟩⟩ (Or.inr ⟨e, he⟩)
  unfold UniqInv
  rw [this.1, this.2]
  exact h

theorem uniq_step (w : World) (s : Sid) (h : UniqInv w) : UniqInv (step w s) :=
  step_inv UniqInv s (fun _ _ h => h) (fun w h => uniq_commit w s h)
    (fun w h => uniq_rollback w s h) (fun w h => uniq_fail w s h)
    (fun w st w' o h he => uniq_exec w s st w' o h he)
    (fun w st w' e h he => uniq_execF w s st w' e h he) w h

theorem uniq_run (σ : Schedule) (w : World) (h : UniqInv w) : UniqInv (run σ w) :=
  run_inv UniqInv uniq_step σ w h

end Ledger.Sched
