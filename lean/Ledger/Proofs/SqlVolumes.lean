import Ledger.Proofs.SqlStore
import Ledger.Proofs.SqlValues
import Ledger.Proofs.SqlText
import Ledger.Generated.Schema
import Ledger.Generated.WriteSql

/-!
# `UpdateVolumes` over LeanPG: the evaluator on `accounts_volumes`

Specifications (`M.exec` equations) of the INSERT … ON CONFLICT DO UPDATE path of
the evaluator on the table `accounts_volumes` of `Ledger.Generated.Schema`, for any
row versions satisfying the storage invariants `AvInv`, any number of `VALUES` rows.
The statement's own shape (column order, SET expressions, RETURNING list) enters
only through `AvShape`, which `Ledger/Proofs/SqlVolumesStmt.lean` establishes for the
generated AST by evaluation.
-/
open Ledger.Sql Ledger.Generated
open Ledger.Generated.WriteSql.P (VolumeRow)

namespace Ledger.Sql

/-- `accounts_volumes` of bucket `b` with the given row versions -/
def avT (b : String) (rows : List Ver) (nextRid : Nat) : Table :=
  { Schema.tbl_accounts_volumes with name := b ++ "." ++ "accounts_volumes", rows := rows, nextRid := nextRid }

def avCols : List String := ["accounts_address", "asset", "input", "output", "ledger"]

theorem castTo_varchar (te : TypeEnv) (x : String) : castTo te (SqlType.mk "" "varchar" "" false) (.text x) = .ok (.text x) := by
  simp [castTo, castNonArray, castScalar, isIntType, Value.toText]
  rfl

theorem castTo_numeric_text (te : TypeEnv) (n : Int) : castTo te (SqlType.mk "" "numeric" "" false) (.text n.repr) = .ok (.int n) := by
  have h : parseIntText n.repr = .ok n := parseIntText_toString n
  simp [castTo, castNonArray, castScalar, isIntType, intRangeCheck, h]
  rfl

theorem castTo_numeric_int (te : TypeEnv) (n : Int) : castTo te (SqlType.mk "" "numeric" "" false) (.int n) = .ok (.int n) := by
  simp [castTo, castNonArray, castScalar, isIntType, intRangeCheck]
  rfl


theorem exec_buildRow_av (n : Nat) (b : String) (rs : List Ver) (nr : Nat) (s : St) (l a c : String) (i o : Int) :
    (buildRow (n + 1) (avT b rs nr) avCols [some (.text a), some (.text c), some (.text (toString i)), some (.text (toString o)), some (.text l)]).exec s
      = (.ok [.text l, .text a, .text c, .int i, .int o], s) := by
  simp [buildRow, exec_bind, avT, avCols, Schema.tbl_accounts_volumes, Table.colNames, exec_mapM_cons, exec_mapM_nil, List.lookup,
    castTo_varchar, castTo_numeric_text]


/-! ### keys -/

def avPkey : UniqueIdx := { name := "accounts_volumes_pkey", cols := ["ledger", "accounts_address", "asset"], pred := none, primary := true }

/-- does a row carry the key `(l, a, c)`? -/
def avKeyIs (l a c : String) : List Value → Bool
  | [.text l', .text a', .text c', _, _] => l' == l && a' == a && c' == c
  | _ => false

/-- all rows have the shape (varchar, varchar, varchar, numeric, numeric) -/
def AvTyped (rs : List Ver) : Prop :=
  ∀ r ∈ rs, ∃ l a c i o, r.vals = [.text l, .text a, .text c, .int i, .int o]

theorem sameGroupKey_text3 (l a c l' a' c' : String) :
    sameGroupKey [.text l', .text a', .text c'] [.text l, .text a, .text c] = .ok (l' == l && a' == a && c' == c) := by
  simp only [sameGroupKey, compareForSort_text, bind, Except.bind, cmpStr_eq]
  cases l' == l <;> cases a' == a <;> cases c' == c <;> rfl

theorem keyOf_av (b : String) (rs : List Ver) (nr : Nat) (x y z u v : Value) :
    keyOf (avT b rs nr) avPkey.cols [x, y, z, u, v] = [x, y, z] := by
  simp [keyOf, avT, avPkey, Schema.tbl_accounts_volumes, Table.colNames, lookupIn]

theorem exec_keyMatches_av (b : String) (rs : List Ver) (nr : Nat) (l a c : String) (r : Ver) (s : St)
    (ht : ∃ l a c i o, r.vals = [.text l, .text a, .text c, .int i, .int o]) :
    (keyMatches (avT b rs nr) avPkey [.text l, .text a, .text c] r).exec s = (.ok (avKeyIs l a c r.vals), s) := by
  obtain ⟨l', a', c', i, o, hv⟩ := ht
  simp only [keyMatches, hv, keyOf_av, sameGroupKey_text3, exec_bind, exec_liftR_ok, avKeyIs]
  cases h : (l' == l && a' == a && c' == c)
  · simp
  · simp [predHolds, avPkey]


theorem inProgressOther_solo (xid : Nat) (active : List Nat) (hsolo : ∀ x ∈ active, x = xid) (x : Nat) :
    inProgressOther xid active x = false := by
  unfold inProgressOther
  by_cases h : active.contains x = true
  · have : x = xid := hsolo x (by simpa using h)
    simp [this]
  · simp at h; simp [h]

/-- the rows `scanConflict` answers with: visible now, carrying the key, not the excluded row -/
def avHit (lv : View) (ex : Option Nat) (l a c : String) (r : Ver) : Bool :=
  !(some r.rid == ex) && (r.visible lv && avKeyIs l a c r.vals)

theorem exec_scanConflict_av (b : String) (rs : List Ver) (nr : Nat) (l a c : String) (ex : Option Nat)
    (lv : View) (xid : Nat) (active : List Nat) (hsolo : ∀ x ∈ active, x = xid) (s : St)
    (rows : List Ver) (ht : AvTyped rows) :
    (scanConflict (avT b rs nr) avPkey [.text l, .text a, .text c] ex lv xid active rows).exec s =
      (.ok (rows.find? (avHit lv ex l a c)), s) := by
  induction rows with
  | nil => simp [scanConflict]
  | cons r rest ih =>
    have ht' : AvTyped rest := fun x hx => ht x (by simp [hx])
    have hr := ht r (by simp)
    rw [scanConflict]
    simp only [inProgressOther_solo xid active hsolo, Bool.false_and, Bool.or_false, List.find?_cons, avHit]
    by_cases h1 : (some r.rid == ex) = true
    · simp [h1, ih ht', avHit]
    · have h1' : (some r.rid == ex) = false := by simpa using h1
      simp only [h1', Bool.false_eq_true, if_false, Bool.not_false, Bool.true_and]
      cases hv : r.visible lv
      · simp [ih ht', avHit]
      · simp only [Bool.not_true, Bool.false_eq_true, if_false, exec_bind, exec_keyMatches_av b rs nr l a c r s hr, Bool.true_and]
        cases hk : avKeyIs l a c r.vals
        · simp [ih ht', avHit]
        · simp


theorem exec_findConflict_av (b : String) (rs : List Ver) (nr : Nat) (l a c : String) (i o : Int) (ex : Option Nat)
    (s : St) (hsolo : ∀ x ∈ s.w.active, x = s.xid) (ht : AvTyped rs) :
    (findConflict (avT b rs nr) [avPkey] [.text l, .text a, .text c, .int i, .int o] ex).exec s =
      (.ok ((rs.find? (avHit (latestView s.w s.xid) ex l a c)).map (fun r => (avPkey, r))), s) := by
  have hk : keyOf (avT b rs nr) avPkey.cols [.text l, .text a, .text c, .int i, .int o] = [.text l, .text a, .text c] := keyOf_av ..
  have hrows : (avT b rs nr).rows = rs := rfl
  simp only [findConflict, exec_bind, predHolds, avPkey] at hk ⊢
  simp only [exec_pure, hk, hrows]
  simp only [List.any, Value.isNull, Bool.or_false, Bool.not_true, Bool.false_eq_true, if_false, exec_get, exec_bind]
  have := exec_scanConflict_av b rs nr l a c ex (latestView s.w s.xid) s.xid s.w.active hsolo s rs ht
  simp only [avPkey] at this
  rw [this]
  cases rs.find? (avHit (latestView s.w s.xid) ex l a c) <;> simp

theorem uniques_av (b : String) (rs : List Ver) (nr : Nat) : (avT b rs nr).uniques = [avPkey] := rfl

theorem exec_checkConstraints_av (b : String) (rs : List Ver) (nr : Nat) (l a c : String) (i o : Int) (s : St) :
    (checkConstraints (avT b rs nr) [.text l, .text a, .text c, .int i, .int o]).exec s = (.ok (), s) := by
  simp [checkConstraints, avT, Schema.tbl_accounts_volumes, notNullViolation, Value.isNull, checkChecks]

theorem exec_checkForeignKeys_av (b : String) (rs : List Ver) (nr : Nat) (vals : List Value) (s : St) :
    (checkForeignKeys (avT b rs nr) vals).exec s = (.ok (), s) := by
  simp [checkForeignKeys, avT, Schema.tbl_accounts_volumes, checkForeignKeysOf]

theorem exec_fireBefore_av (n : Nat) (b : String) (rs : List Ver) (nr : Nat) (ev : TrigEvent) (hev : ev ≠ .delete) (setCols : List String)
    (new : List Value) (old : Option (List Value)) (s : St) :
    (fireBefore (n + 1) (avT b rs nr) ev setCols (some new) old).exec s = (.ok (some new), s) := by
  have ht : (avT b rs nr).triggers = [] := rfl
  simp only [fireBefore, ht, List.filter_nil, sortTriggers, List.foldl_nil, List.foldlM_nil, exec_bind, exec_pure]
  cases ev <;> simp at hev ⊢

theorem exec_queueAfter_av (n : Nat) (b : String) (rs : List Ver) (nr : Nat) (ev : TrigEvent) (setCols : List String)
    (new old : Option (List Value)) (s : St) :
    (queueAfter (n + 1) (avT b rs nr) ev setCols new old).exec s = (.ok (), s) := by
  have ht : (avT b rs nr).triggers = [] := rfl
  simp only [queueAfter, ht, List.filter_nil, sortTriggers, List.foldl_nil, List.foldlM_nil, exec_pure]


/-! ### one source row -/

def avNew (xid cid rid : Nat) (l a c : String) (i o : Int) : Ver :=
  { rid := rid, xmin := xid, cmin := cid, vals := [.text l, .text a, .text c, .int i, .int o] }

/-- volumes stored in a row -/
def avVols : List Value → Int × Int
  | [_, _, _, .int i, .int o] => (i, o)
  | _ => (0, 0)

/-- The effect of one `VALUES` row `(l, a, c, i, o)` of `UpdateVolumes` on the row versions
    of `accounts_volumes` (and its row-id counter), and the RETURNING values. -/
def avStep (lv : View) (xid cid : Nat) (l a c : String) (i o : Int) (st : List Ver × Nat) : (List Ver × Nat) × (Int × Int) :=
  match st.1.find? (avHit lv none l a c) with
  | some ex =>
    ((avNew xid cid ex.rid l a c ((avVols ex.vals).1 + i) ((avVols ex.vals).2 + o) ::
        (st.1.map (lockRow lv xid cid ex.rid)).map (closeRow lv xid cid ex.rid), st.2),
     ((avVols ex.vals).1 + i, (avVols ex.vals).2 + o))
  | none => ((avNew xid cid st.2 l a c i o :: st.1, st.2 + 1), (i, o))

def avFull (b : String) : String := b ++ "." ++ "accounts_volumes"

theorem avT_name (b : String) (rs : List Ver) (nr : Nat) : (avT b rs nr).name = avFull b := rfl

/-- the scopes `ON CONFLICT DO UPDATE` evaluates its SET list in -/
def avConflictEnv (env : Env) (a : String) (b : String) (rs : List Ver) (nr : Nat) (old row : List Value) : Env :=
  { env with locals := [{ alias := a, cols := (avT b rs nr).colNames, vals := old },
                        { alias := "excluded", cols := (avT b rs nr).colNames, vals := row }] }

theorem exec_accReturning_av (m : Nat) (env : Env) (b alias : String) (returning : List SelItem) (acc : DmlAcc)
    (l a c : String) (x y : Int) (rs : List Ver) (nr : Nat) (s : St)
    (hretne : returning.isEmpty = false)
    (hret : ∀ m rs nr s x y, (evalReturning (m + 1) env (avT b rs nr) alias [.text l, .text a, .text c, .int x, .int y] [] returning).exec s =
        (.ok (["input", "output"], [.int x, .int y]), s)) :
    (accReturning (m + 2) env (avT b rs nr) alias [.text l, .text a, .text c, .int x, .int y] [] returning acc).exec s =
      (.ok { retCols := ["input", "output"], retRows := acc.retRows ++ [[.int x, .int y]], affected := acc.affected + 1 }, s) := by
  rw [accReturning]
  simp only [hretne, Bool.false_eq_true, if_false, exec_bind, hret, exec_pure]

theorem AvTyped_map (rs : List Ver) (f : Ver → Ver) (hf : ∀ r, (f r).vals = r.vals) (ht : AvTyped rs) : AvTyped (rs.map f) := by
  intro r hr
  obtain ⟨r0, hr0, rfl⟩ := List.mem_map.mp hr
  rw [hf]; exact ht r0 hr0

theorem AvTyped_cons (rs : List Ver) (xid cid rid : Nat) (l a c : String) (i o : Int) (ht : AvTyped rs) :
    AvTyped (avNew xid cid rid l a c i o :: rs) := by
  intro r hr
  rcases List.mem_cons.mp hr with rfl | h
  · exact ⟨l, a, c, i, o, rfl⟩
  · exact ht r h

/-- a typed row carrying the key `(l, a, c)` -/
theorem vals_of_keyIs (r : Ver) (l a c : String) (ht : ∃ l a c i o, r.vals = [.text l, .text a, .text c, .int i, .int o])
    (hk : avKeyIs l a c r.vals = true) : ∃ i o, r.vals = [.text l, .text a, .text c, .int i, .int o] := by
  obtain ⟨l', a', c', i, o, hv⟩ := ht
  rw [hv] at hk
  simp [avKeyIs] at hk
  obtain ⟨⟨h1, h2⟩, h3⟩ := hk
  subst h1 h2 h3
  exact ⟨i, o, hv⟩

theorem exec_insertVersion_av {s : St} {b : String} {rs : List Ver} {nr : Nat} (hT : s.w.table? (avFull b) = some (avT b rs nr))
    (l a c : String) (i o : Int) :
    (insertVersion (avFull b) [.text l, .text a, .text c, .int i, .int o]).exec s =
      (.ok nr, s.withTable (avT b (avNew s.xid s.cid nr l a c i o :: rs) (nr + 1))) :=
  exec_insertVersion hT _

theorem exec_lockVersion_av {s : St} {b : String} {rs : List Ver} {nr : Nat} (hT : s.w.table? (avFull b) = some (avT b rs nr)) (rid : Nat) :
    (lockVersion (avFull b) rid).exec s =
      (.ok (), s.withTable (avT b (rs.map (lockRow (latestView s.w s.xid) s.xid s.cid rid)) nr)) :=
  exec_lockVersion hT _

theorem exec_updateVersion_av {s : St} {b : String} {rs : List Ver} {nr : Nat} (hT : s.w.table? (avFull b) = some (avT b rs nr))
    (rid : Nat) (l a c : String) (i o : Int) :
    (updateVersion (avFull b) rid [.text l, .text a, .text c, .int i, .int o]).exec s =
      (.ok (), s.withTable (avT b (avNew s.xid s.cid rid l a c i o :: rs.map (closeRow (latestView s.w s.xid) s.xid s.cid rid)) nr)) :=
  exec_updateVersion hT _ _

theorem withTable_av_table? (s : St) (b : String) (rs rs' : List Ver) (nr nr' : Nat) (hT : s.w.table? (avFull b) = some (avT b rs nr)) :
    (s.withTable (avT b rs' nr')).w.table? (avFull b) = some (avT b rs' nr') :=
  withTable_table? s (avT b rs nr) (avT b rs' nr') hT

theorem withTable_withTable_av (s : St) (b : String) (rs rs' : List Ver) (nr nr' : Nat) :
    (s.withTable (avT b rs nr)).withTable (avT b rs' nr') = s.withTable (avT b rs' nr') :=
  withTable_withTable s _ _ rfl

theorem exec_insertRowStep_av (n : Nat) (env : Env) (b table alias : String) (tcols : List String)
    (target : List String) (tw : Option Expr) (cn : String) (sets : List SetItem) (returning : List SelItem)
    (sr : List (Option Value)) (acc : DmlAcc)
    (l a c : String) (i o : Int) (rs : List Ver) (nr : Nat) (s : St)
    (hT : s.w.table? (avFull b) = some (avT b rs nr))
    (hsolo : ∀ x ∈ s.w.active, x = s.xid) (ht : AvTyped rs)
    (hrow : ∀ m rs nr s, (buildRow (m + 1) (avT b rs nr) tcols sr).exec s = (.ok [.text l, .text a, .text c, .int i, .int o], s))
    (harb : ∀ rs nr s, (arbiterIndexes (avT b rs nr) target).exec s = (.ok [avPkey], s))
    (hsets : ∀ m rs nr s i0 o0,
      (applySets (m + 1) (avConflictEnv env (if alias.isEmpty then table else alias) b rs nr
          [.text l, .text a, .text c, .int i0, .int o0] [.text l, .text a, .text c, .int i, .int o])
          (avT b rs nr) [.text l, .text a, .text c, .int i0, .int o0] sets).exec s =
        (.ok [.text l, .text a, .text c, .int (i0 + i), .int (o0 + o)], s))
    (hretne : returning.isEmpty = false)
    (hret : ∀ m rs nr s x y, (evalReturning (m + 1) env (avT b rs nr) alias [.text l, .text a, .text c, .int x, .int y] [] returning).exec s =
        (.ok (["input", "output"], [.int x, .int y]), s))
    (hnot2 : ∀ r ∈ rs, avHit (latestView s.w s.xid) none l a c r = true → ¬(r.xmin = s.xid ∧ r.cmin = s.cid))
    (huniq : ∀ r1 ∈ rs, ∀ r2 ∈ rs, avHit (latestView s.w s.xid) none l a c r1 = true → avHit (latestView s.w s.xid) none l a c r2 = true → r1.rid = r2.rid) :
    (insertRowStep (n + 4) env (avFull b) table alias tcols (some (.mk target tw cn (.update sets none))) returning sr acc).exec s =
      (let r := avStep (latestView s.w s.xid) s.xid s.cid l a c i o (rs, nr)
       (.ok { retCols := ["input", "output"], retRows := acc.retRows ++ [[.int r.2.1, .int r.2.2]], affected := acc.affected + 1 },
        s.withTable (avT b r.1.1 r.1.2))) := by
  rw [insertRowStep]
  simp only [exec_bind, exec_getTable hT, hrow, exec_fireBefore_av _ _ _ _ .insert (by simp), exec_checkConstraints_av, harb,
    exec_findConflict_av b rs nr l a c i o none s hsolo ht, exec_pure]
  cases hf : rs.find? (avHit (latestView s.w s.xid) none l a c) with
  | none =>
    have hT2 := withTable_av_table? s b rs (avNew s.xid s.cid nr l a c i o :: rs) nr (nr + 1) hT
    simp only [Option.map_none, exec_bind, exec_pure, uniques_av, exec_findConflict_av b rs nr l a c i o none s hsolo ht, hf,
      exec_checkForeignKeys_av, exec_insertVersion_av hT, exec_getTable hT2, exec_queueAfter_av, exec_accReturning_av _ env b alias returning acc l a c i o _ _ _ hretne hret,
      avStep]
  | some ex =>
    have hmem : ex ∈ rs := List.mem_of_find?_eq_some hf
    have hhit : avHit (latestView s.w s.xid) none l a c ex = true := List.find?_some hf
    have hhit' := hhit
    simp only [avHit, Bool.and_eq_true] at hhit'
    obtain ⟨i0, o0, hv⟩ := vals_of_keyIs ex l a c (ht ex hmem) hhit'.2.2
    have hguard : (ex.xmin == s.xid && ex.cmin == s.cid) = false := by
      have := hnot2 ex hmem hhit
      cases h1 : (ex.xmin == s.xid) <;> cases h2 : (ex.cmin == s.cid) <;> simp_all
    -- the state after the row lock
    have hT1 := withTable_av_table? s b rs (rs.map (lockRow (latestView s.w s.xid) s.xid s.cid ex.rid)) nr nr hT
    have htL : AvTyped (rs.map (lockRow (latestView s.w s.xid) s.xid s.cid ex.rid)) := AvTyped_map rs _ (by simp) ht
    have hnone : (rs.map (lockRow (latestView s.w s.xid) s.xid s.cid ex.rid)).find? (avHit (latestView s.w s.xid) (some ex.rid) l a c) = none := by
      rw [List.find?_eq_none]
      intro x hx
      obtain ⟨r0, hr0, rfl⟩ := List.mem_map.mp hx
      simp only [avHit, lockRow_rid, lockRow_visible, lockRow_vals]
      by_cases hh : avHit (latestView s.w s.xid) none l a c r0 = true
      · have := huniq r0 hr0 ex hmem hh hhit
        simp [this]
      · simp only [avHit] at hh
        have hh' : (r0.visible (latestView s.w s.xid) && avKeyIs l a c r0.vals) = false := by simpa using hh
        simp [hh']
    have hsolo1 : ∀ x ∈ (s.withTable (avT b (rs.map (lockRow (latestView s.w s.xid) s.xid s.cid ex.rid)) nr)).w.active,
        x = (s.withTable (avT b (rs.map (lockRow (latestView s.w s.xid) s.xid s.cid ex.rid)) nr)).xid := hsolo
    have hfc := exec_findConflict_av b (rs.map (lockRow (latestView s.w s.xid) s.xid s.cid ex.rid)) nr l a c (i0 + i) (o0 + o) (some ex.rid) _ hsolo1 htL
    simp only [withTable_latestView, withTable_xid, hnone, Option.map_none] at hfc
    have hT2 := withTable_av_table? s b rs
      (avNew s.xid s.cid ex.rid l a c (i0 + i) (o0 + o) :: (rs.map (lockRow (latestView s.w s.xid) s.xid s.cid ex.rid)).map (closeRow (latestView s.w s.xid) s.xid s.cid ex.rid)) nr nr hT
    simp only [avConflictEnv] at hsets
    simp only [Option.map_some, exec_bind, exec_pure]
    rw [conflictUpdate]
    simp only [exec_bind, exec_typeEnv, exec_get, hguard, Bool.false_eq_true, if_false, exec_pure, exec_heldByOther_solo s hsolo, exec_lockVersion_av hT,
      Bool.not_true, hv, hsets, exec_fireBefore_av _ _ _ _ .update (by simp), exec_getTable hT1, exec_checkConstraints_av,
      uniques_av, hfc, exec_checkForeignKeys_av, exec_updateVersion_av hT1, withTable_withTable_av, withTable_xid, withTable_cid,
      withTable_latestView, exec_getTable hT2, exec_queueAfter_av,
      exec_accReturning_av _ env b alias returning acc l a c _ _ _ _ _ hretne hret, avStep, hf, avVols]

/-! ### the pure step: invariants and look-ups -/

theorem avHit_none (lv : View) (l a c : String) (r : Ver) :
    avHit lv none l a c r = (r.visible lv && avKeyIs l a c r.vals) := by
  simp [avHit]

theorem avKeyIs_iff (vals : List Value) (l a c : String) (ht : ∃ l a c i o, vals = [.text l, .text a, .text c, .int i, .int o]) :
    avKeyIs l a c vals = true ↔ vals.take 3 = [.text l, .text a, .text c] := by
  obtain ⟨l', a', c', i, o, rfl⟩ := ht
  simp [avKeyIs, and_assoc]

/-- storage invariants of `accounts_volumes` as seen by the running transaction:
    well-typed rows, row ids below the counter, and among the visible versions
    "same row id" coincides with "same primary key" -/
structure AvInv (lv : View) (rs : List Ver) (nr : Nat) : Prop where
  typed : AvTyped rs
  ridLt : ∀ r ∈ rs, r.rid < nr
  inj : ∀ r1 ∈ rs, ∀ r2 ∈ rs, r1.visible lv = true → r2.visible lv = true →
    (r1.rid = r2.rid ↔ r1.vals.take 3 = r2.vals.take 3)

/-- rows written by the running command carry a key of `done` -/
def AvDone (xid cid : Nat) (l : String) (rs : List Ver) (done : List (String × String)) : Prop :=
  ∀ r ∈ rs, r.xmin = xid → r.cmin = cid → ∃ k ∈ done, avKeyIs l k.1 k.2 r.vals = true

/-- the volumes the running transaction sees for a key -/
def avGet (lv : View) (rs : List Ver) (l a c : String) : Option (Int × Int) :=
  (rs.find? (avHit lv none l a c)).map (fun r => avVols r.vals)

theorem AvInv.uniq {lv : View} {rs : List Ver} {nr : Nat} (h : AvInv lv rs nr) (l a c : String) :
    ∀ r1 ∈ rs, ∀ r2 ∈ rs, avHit lv none l a c r1 = true → avHit lv none l a c r2 = true → r1.rid = r2.rid := by
  intro r1 h1 r2 h2 e1 e2
  simp only [avHit_none, Bool.and_eq_true] at e1 e2
  rw [h.inj r1 h1 r2 h2 e1.1 e2.1]
  rw [(avKeyIs_iff _ l a c (h.typed r1 h1)).mp e1.2, (avKeyIs_iff _ l a c (h.typed r2 h2)).mp e2.2]

theorem AvDone.not2 {xid cid : Nat} {l : String} {rs : List Ver} {done : List (String × String)} (h : AvDone xid cid l rs done)
    (ht : AvTyped rs) (lv : View) (a c : String) (hk : (a, c) ∉ done) :
    ∀ r ∈ rs, avHit lv none l a c r = true → ¬(r.xmin = xid ∧ r.cmin = cid) := by
  intro r hr e ⟨h1, h2⟩
  obtain ⟨k, hkd, hkk⟩ := h r hr h1 h2
  simp only [avHit_none, Bool.and_eq_true] at e
  have e1 := (avKeyIs_iff _ l a c (ht r hr)).mp e.2
  have e2 := (avKeyIs_iff _ l k.1 k.2 (ht r hr)).mp hkk
  rw [e1] at e2
  simp at e2
  apply hk
  rw [show (a, c) = k from Prod.ext e2.1 e2.2]
  exact hkd


theorem find?_ext_mem {α : Type} (p q : α → Bool) (l : List α) (h : ∀ x ∈ l, p x = q x) : l.find? p = l.find? q := by
  induction l with
  | nil => rfl
  | cons x xs ih =>
    simp only [List.find?_cons, h x (by simp)]
    rw [ih (fun y hy => h y (by simp [hy]))]

theorem avNew_visible (w : World) (xid cid rid : Nat) (l a c : String) (i o : Int) (hx : xid ≠ 0) (hc : cid < 1000000000) :
    (avNew xid cid rid l a c i o).visible (latestView w xid) = true := by
  simp [avNew, Ver.visible, xidVisible, latestView, hx, hc]

theorem avKeyIs_new (l a c l' a' c' : String) (i o : Int) :
    avKeyIs l' a' c' [.text l, .text a, .text c, .int i, .int o] = (l == l' && a == a' && c == c') := rfl

theorem avHit_new (w : World) (xid cid rid : Nat) (l a c l' a' c' : String) (i o : Int) (hx : xid ≠ 0) (hc : cid < 1000000000) :
    avHit (latestView w xid) none l' a' c' (avNew xid cid rid l a c i o) = (l == l' && a == a' && c == c') := by
  rw [avHit_none, avNew_visible w xid cid rid l a c i o hx hc]
  simp [avNew, avKeyIs]

theorem avVols_new (xid cid rid : Nat) (l a c : String) (i o : Int) : avVols (avNew xid cid rid l a c i o).vals = (i, o) := rfl

section step
variable (w : World) (xid cid : Nat) (hx : xid ≠ 0) (hc : cid < 1000000000)

/-- visibility and contents of an old row after the lock + close passes of an update -/
theorem avHit_closed (rid : Nat) (ex : Option Nat) (l a c : String) (r : Ver) (hx : xid ≠ 0) (hc : cid < 1000000000) :
    avHit (latestView w xid) ex l a c (closeRow (latestView w xid) xid cid rid (lockRow (latestView w xid) xid cid rid r)) =
      (avHit (latestView w xid) ex l a c r && !(r.rid == rid)) := by
  simp only [avHit, closeRow_rid, lockRow_rid, closeRow_vals, lockRow_vals, closeRow_visible w xid cid rid _ hx hc, lockRow_visible]
  cases (some r.rid == ex) <;> cases r.visible (latestView w xid) <;> cases avKeyIs l a c r.vals <;> cases (r.rid == rid) <;> rfl

/-- the key just written now reads old + excluded (or the inserted values) -/
theorem avGet_step_same (l a c : String) (i o : Int) (rs : List Ver) (nr : Nat) (hx : xid ≠ 0) (hc : cid < 1000000000) :
    avGet (latestView w xid) (avStep (latestView w xid) xid cid l a c i o (rs, nr)).1.1 l a c =
      some (avStep (latestView w xid) xid cid l a c i o (rs, nr)).2 ∧
    (avStep (latestView w xid) xid cid l a c i o (rs, nr)).2 =
      (match avGet (latestView w xid) rs l a c with
       | some v => (v.1 + i, v.2 + o)
       | none => (i, o)) := by
  unfold avStep avGet
  cases hf : rs.find? (avHit (latestView w xid) none l a c) with
  | none =>
    simp [List.find?_cons, avHit_new w xid cid _ l a c l a c _ _ hx hc, avVols_new]
  | some ex =>
    simp [List.find?_cons, avHit_new w xid cid _ l a c l a c _ _ hx hc, avVols_new]

/-- every other key (of this or another ledger) reads what it read before -/
theorem avGet_step_other (l a c : String) (i o : Int) (rs : List Ver) (nr : Nat) (hx : xid ≠ 0) (hc : cid < 1000000000)
    (hinv : AvInv (latestView w xid) rs nr) (l' a' c' : String) (hne : ¬(l = l' ∧ a = a' ∧ c = c')) :
    avGet (latestView w xid) (avStep (latestView w xid) xid cid l a c i o (rs, nr)).1.1 l' a' c' =
      avGet (latestView w xid) rs l' a' c' := by
  have hk : (l == l' && a == a' && c == c') = false := by
    cases h1 : (l == l') <;> cases h2 : (a == a') <;> cases h3 : (c == c') <;> simp_all
  unfold avStep avGet
  cases hf : rs.find? (avHit (latestView w xid) none l a c) with
  | none => simp [List.find?_cons, avHit_new w xid cid _ l a c l' a' c' _ _ hx hc, hk]
  | some ex =>
    have hmem : ex ∈ rs := List.mem_of_find?_eq_some hf
    have hhit : avHit (latestView w xid) none l a c ex = true := List.find?_some hf
    simp only [avHit_none, Bool.and_eq_true] at hhit
    simp only [List.find?_cons, avHit_new w xid cid _ l a c l' a' c' _ _ hx hc, hk, List.map_map, List.find?_map]
    have : rs.find? ((avHit (latestView w xid) none l' a' c') ∘ (closeRow (latestView w xid) xid cid ex.rid ∘ lockRow (latestView w xid) xid cid ex.rid)) =
        rs.find? (avHit (latestView w xid) none l' a' c') := by
      apply find?_ext_mem
      intro r hr
      simp only [Function.comp, avHit_closed w xid cid ex.rid none l' a' c' r hx hc]
      cases hh : avHit (latestView w xid) none l' a' c' r
      · rfl
      · -- a visible row with another key has another row id
        simp only [avHit_none, Bool.and_eq_true] at hh
        have hne' : ¬ r.rid = ex.rid := by
          intro e
          have := (hinv.inj r hr ex hmem hh.1 hhit.1).mp e
          rw [(avKeyIs_iff _ l' a' c' (hinv.typed r hr)).mp hh.2, (avKeyIs_iff _ l a c (hinv.typed ex hmem)).mp hhit.2] at this
          simp at this
          exact hne ⟨this.1.symm, this.2.1.symm, this.2.2.symm⟩
        simp [hne']
    rw [this]
    cases rs.find? (avHit (latestView w xid) none l' a' c') <;> simp

theorem avStep_typed (lv : View) (l a c : String) (i o : Int) (rs : List Ver) (nr : Nat) (ht : AvTyped rs) :
    AvTyped (avStep lv xid cid l a c i o (rs, nr)).1.1 := by
  unfold avStep
  cases hf : rs.find? (avHit lv none l a c) with
  | none => exact AvTyped_cons rs xid cid nr l a c i o ht
  | some ex =>
    exact AvTyped_cons _ xid cid ex.rid l a c _ _
      (AvTyped_map _ _ (by simp) (AvTyped_map _ _ (by simp) ht))

theorem avStep_inv (l a c : String) (i o : Int) (rs : List Ver) (nr : Nat) (hx : xid ≠ 0) (hc : cid < 1000000000)
    (hinv : AvInv (latestView w xid) rs nr) :
    AvInv (latestView w xid) (avStep (latestView w xid) xid cid l a c i o (rs, nr)).1.1
      (avStep (latestView w xid) xid cid l a c i o (rs, nr)).1.2 := by
  refine ⟨avStep_typed xid cid _ l a c i o rs nr hinv.typed, ?_, ?_⟩
  · unfold avStep
    cases hf : rs.find? (avHit (latestView w xid) none l a c) with
    | none =>
      intro r hr
      rcases List.mem_cons.mp hr with rfl | h
      · exact Nat.lt_succ_self _
      · exact Nat.lt_succ_of_lt (hinv.ridLt r h)
    | some ex =>
      have hmem : ex ∈ rs := List.mem_of_find?_eq_some hf
      intro r hr
      rcases List.mem_cons.mp hr with rfl | h
      · exact hinv.ridLt ex hmem
      · simp only [List.map_map, List.mem_map, Function.comp] at h
        obtain ⟨r0, hr0, rfl⟩ := h
        simpa using hinv.ridLt r0 hr0
  · unfold avStep
    cases hf : rs.find? (avHit (latestView w xid) none l a c) with
    | none =>
      have hnohit : ∀ r ∈ rs, avHit (latestView w xid) none l a c r = false := by
        intro r hr
        have := List.find?_eq_none.mp hf r hr
        simpa using this
      -- the new row against an old visible one: fresh row id, and no old visible row has the key
      have hnew : ∀ r ∈ rs, r.visible (latestView w xid) = true →
          (nr = r.rid ↔ [Value.text l, Value.text a, Value.text c] = r.vals.take 3) := by
        intro r hr hv
        constructor
        · intro e; have := hinv.ridLt r hr; omega
        · intro e
          have := hnohit r hr
          rw [avHit_none, hv, Bool.true_and] at this
          rw [(avKeyIs_iff _ l a c (hinv.typed r hr)).mpr e.symm] at this
          exact absurd this (by simp)
      intro r1 h1 r2 h2 v1 v2
      rcases List.mem_cons.mp h1 with rfl | h1' <;> rcases List.mem_cons.mp h2 with rfl | h2'
      · simp
      · exact hnew r2 h2' v2
      · have := hnew r1 h1' v1
        constructor
        · intro e; exact (this.mp e.symm).symm
        · intro e; exact (this.mpr e.symm).symm
      · exact hinv.inj r1 h1' r2 h2' v1 v2
    | some ex =>
      have hmem : ex ∈ rs := List.mem_of_find?_eq_some hf
      have hhit : avHit (latestView w xid) none l a c ex = true := List.find?_some hf
      simp only [avHit_none, Bool.and_eq_true] at hhit
      have hexk := (avKeyIs_iff _ l a c (hinv.typed ex hmem)).mp hhit.2
      -- an old row that is still visible after the update: it was visible and has another row id
      have hold : ∀ r0 ∈ rs, (closeRow (latestView w xid) xid cid ex.rid (lockRow (latestView w xid) xid cid ex.rid r0)).visible (latestView w xid) = true →
          r0.visible (latestView w xid) = true ∧ r0.rid ≠ ex.rid := by
        intro r0 _ hv
        rw [closeRow_visible w xid cid ex.rid _ hx hc, lockRow_visible, lockRow_rid] at hv
        simpa using hv
      have hnew : ∀ r0 ∈ rs, r0.visible (latestView w xid) = true → r0.rid ≠ ex.rid →
          (ex.rid = r0.rid ↔ [Value.text l, Value.text a, Value.text c] = r0.vals.take 3) := by
        intro r0 hr0 hv hne
        constructor
        · intro e; exact absurd e.symm hne
        · intro e
          have := (hinv.inj r0 hr0 ex hmem hv hhit.1).mpr (by rw [hexk]; exact e.symm)
          exact absurd this hne
      intro r1 h1 r2 h2 v1 v2
      simp only [List.map_map, List.mem_cons, List.mem_map, Function.comp] at h1 h2
      rcases h1 with rfl | ⟨q1, hq1, rfl⟩ <;> rcases h2 with rfl | ⟨q2, hq2, rfl⟩
      · simp
      · obtain ⟨hv, hne⟩ := hold q2 hq2 v2
        simpa [avNew] using hnew q2 hq2 hv hne
      · obtain ⟨hv, hne⟩ := hold q1 hq1 v1
        have := hnew q1 hq1 hv hne
        simp only [avNew, closeRow_rid, lockRow_rid, closeRow_vals, lockRow_vals, List.take]
        constructor
        · intro e; exact (this.mp e.symm).symm
        · intro e; exact (this.mpr e.symm).symm
      · obtain ⟨hv1, _⟩ := hold q1 hq1 v1
        obtain ⟨hv2, _⟩ := hold q2 hq2 v2
        simpa using hinv.inj q1 hq1 q2 hq2 hv1 hv2

theorem avStep_done (lv : View) (l a c : String) (i o : Int) (rs : List Ver) (nr : Nat) (done : List (String × String))
    (hd : AvDone xid cid l rs done) : AvDone xid cid l (avStep lv xid cid l a c i o (rs, nr)).1.1 ((a, c) :: done) := by
  unfold avStep
  have hnewk : ∀ rid i o, ∃ k ∈ (a, c) :: done, avKeyIs l k.1 k.2 (avNew xid cid rid l a c i o).vals = true :=
    fun rid i o => ⟨(a, c), by simp, by simp [avNew, avKeyIs]⟩
  cases hf : rs.find? (avHit lv none l a c) with
  | none =>
    intro r hr e1 e2
    rcases List.mem_cons.mp hr with rfl | h
    · exact hnewk _ _ _
    · obtain ⟨k, hk, hkk⟩ := hd r h e1 e2
      exact ⟨k, by simp [hk], hkk⟩
  | some ex =>
    intro r hr e1 e2
    simp only [List.map_map, List.mem_cons, List.mem_map, Function.comp] at hr
    rcases hr with rfl | ⟨q, hq, rfl⟩
    · exact hnewk _ _ _
    · simp only [closeRow_xmin, lockRow_xmin, closeRow_cmin, lockRow_cmin, closeRow_vals, lockRow_vals] at e1 e2 ⊢
      obtain ⟨k, hk, hkk⟩ := hd q hq e1 e2
      exact ⟨k, by simp [hk], hkk⟩

end step

/-! ### all rows of the statement -/

/-- the pure run over the `VALUES` rows: final row versions / row-id counter and the RETURNING values -/
def avRun (lv : View) (xid cid : Nat) (l : String) : List VolumeRow → List Ver × Nat → (List Ver × Nat) × List (Int × Int)
  | [], st => (st, [])
  | r :: rest, st =>
    ((avRun lv xid cid l rest (avStep lv xid cid l r.accounts_address r.asset r.input_ r.output_ st).1).1,
     (avStep lv xid cid l r.accounts_address r.asset r.input_ r.output_ st).2 ::
       (avRun lv xid cid l rest (avStep lv xid cid l r.accounts_address r.asset r.input_ r.output_ st).1).2)

def avKeyOf (r : VolumeRow) : String × String := (r.accounts_address, r.asset)

/-- what the proof needs to know about the shape of the rendered statement
    (established by evaluation for the generated AST) -/
structure AvShape (env : Env) (b table alias l : String) (tcols target : List String) (sets : List SetItem)
    (returning : List SelItem) (g : VolumeRow → List (Option Value)) : Prop where
  row : ∀ r m rs nr s, (buildRow (m + 1) (avT b rs nr) tcols (g r)).exec s =
    (.ok [.text l, .text r.accounts_address, .text r.asset, .int r.input_, .int r.output_], s)
  arb : ∀ rs nr s, (arbiterIndexes (avT b rs nr) target).exec s = (.ok [avPkey], s)
  sets : ∀ (r : VolumeRow) m rs nr s i0 o0,
    (applySets (m + 1) (avConflictEnv env (if alias.isEmpty then table else alias) b rs nr
        [.text l, .text r.accounts_address, .text r.asset, .int i0, .int o0]
        [.text l, .text r.accounts_address, .text r.asset, .int r.input_, .int r.output_])
        (avT b rs nr) [.text l, .text r.accounts_address, .text r.asset, .int i0, .int o0] sets).exec s =
      (.ok [.text l, .text r.accounts_address, .text r.asset, .int (i0 + r.input_), .int (o0 + r.output_)], s)
  retne : returning.isEmpty = false
  ret : ∀ (r : VolumeRow) m rs nr s x y,
    (evalReturning (m + 1) env (avT b rs nr) alias [.text l, .text r.accounts_address, .text r.asset, .int x, .int y] [] returning).exec s =
      (.ok (["input", "output"], [.int x, .int y]), s)

theorem exec_fold_av (n : Nat) (env : Env) (b table alias l : String) (tcols target : List String) (tw : Option Expr) (cn : String)
    (sets : List SetItem) (returning : List SelItem) (g : VolumeRow → List (Option Value))
    (sh : AvShape env b table alias l tcols target sets returning g)
    (s0 : St) (rs0 : List Ver) (nr0 : Nat) (hT0 : s0.w.table? (avFull b) = some (avT b rs0 nr0))
    (hsolo : ∀ x ∈ s0.w.active, x = s0.xid) (hx : s0.xid ≠ 0) (hc : s0.cid < 1000000000) :
    ∀ (rows : List VolumeRow) (rs : List Ver) (nr : Nat) (acc : DmlAcc) (done : List (String × String)),
      AvInv (latestView s0.w s0.xid) rs nr → AvDone s0.xid s0.cid l rs done →
      (rows.map avKeyOf).Nodup → (∀ r ∈ rows, avKeyOf r ∉ done) → acc.retCols = ["input", "output"] →
      ((rows.map g).foldlM (fun acc sr =>
          insertRowStep (n + 4) env (avFull b) table alias tcols (some (.mk target tw cn (.update sets none))) returning sr acc) acc).exec
          (s0.withTable (avT b rs nr)) =
        (.ok { retCols := ["input", "output"],
               retRows := acc.retRows ++ (avRun (latestView s0.w s0.xid) s0.xid s0.cid l rows (rs, nr)).2.map (fun p => [.int p.1, .int p.2]),
               affected := acc.affected + rows.length },
         s0.withTable (avT b (avRun (latestView s0.w s0.xid) s0.xid s0.cid l rows (rs, nr)).1.1
                             (avRun (latestView s0.w s0.xid) s0.xid s0.cid l rows (rs, nr)).1.2)) := by
  intro rows
  induction rows with
  | nil =>
    intro rs nr acc done _ _ _ _ hacc
    cases acc
    simp_all [avRun]
  | cons r rest ih =>
    intro rs nr acc done hinv hdone hnodup hnd hacc
    have hT := withTable_av_table? s0 b rs0 rs nr0 nr hT0
    have hstep := exec_insertRowStep_av n env b table alias tcols target tw cn sets returning (g r) acc l
      r.accounts_address r.asset r.input_ r.output_ rs nr (s0.withTable (avT b rs nr)) hT hsolo hinv.typed
      (sh.row r) sh.arb (sh.sets r) sh.retne (sh.ret r)
      (hdone.not2 hinv.typed _ _ _ (hnd r (by simp)))
      (hinv.uniq l r.accounts_address r.asset)
    simp only [withTable_latestView, withTable_xid, withTable_cid, withTable_withTable_av] at hstep
    simp only [List.map_cons, exec_foldlM_cons, hstep]
    have hnodup' := (List.nodup_cons.mp hnodup)
    have := ih _ _ { retCols := ["input", "output"], retRows := acc.retRows ++ [[Value.int (avStep (latestView s0.w s0.xid) s0.xid s0.cid l r.accounts_address r.asset r.input_ r.output_ (rs, nr)).2.1, Value.int (avStep (latestView s0.w s0.xid) s0.xid s0.cid l r.accounts_address r.asset r.input_ r.output_ (rs, nr)).2.2]], affected := acc.affected + 1 }
      (avKeyOf r :: done)
      (avStep_inv s0.w s0.xid s0.cid l r.accounts_address r.asset r.input_ r.output_ rs nr hx hc hinv)
      (avStep_done s0.xid s0.cid _ l r.accounts_address r.asset r.input_ r.output_ rs nr done hdone)
      hnodup'.2
      (by
        intro q hq hmem
        rcases List.mem_cons.mp hmem with e | e
        · exact hnodup'.1 (by rw [← e]; exact List.mem_map_of_mem hq)
        · exact hnd q (by simp [hq]) e)
      rfl
    rw [this]
    simp [avRun, Nat.add_assoc, Nat.add_comm 1]

theorem exec_mapM_values (m : Nat) (env : Env) (f : VolumeRow → List Expr) (g : VolumeRow → List (Option Value))
    (hsrc : ∀ r m s, (evalValuesRow (m + 1) env (f r)).exec s = (.ok (g r), s)) (rows : List VolumeRow) (s : St) :
    ((rows.map f).mapM (fun r => evalValuesRow (m + 1) env r)).exec s = (.ok (rows.map g), s) := by
  induction rows with
  | nil => simp
  | cons r rest ih => simp only [List.map_cons, exec_mapM_cons, hsrc, ih]

/-- `INSERT INTO accounts_volumes … VALUES rows ON CONFLICT (pkey) DO UPDATE …` as a whole -/
theorem exec_execInsert_av (n : Nat) (env : Env) (b alias l : String) (cols target : List String) (tw : Option Expr) (cn : String)
    (sets : List SetItem) (returning : List SelItem) (f : VolumeRow → List Expr) (g : VolumeRow → List (Option Value))
    (hb : b.isEmpty = false) (hcols : cols.isEmpty = false)
    (hsrc : ∀ r m s, (evalValuesRow (m + 1) env (f r)).exec s = (.ok (g r), s))
    (sh : AvShape env b "accounts_volumes" alias l cols target sets returning g)
    (s : St) (rs : List Ver) (nr : Nat) (hT : s.w.table? (avFull b) = some (avT b rs nr))
    (hsolo : ∀ x ∈ s.w.active, x = s.xid) (hx : s.xid ≠ 0) (hc : s.cid < 1000000000)
    (hinv : AvInv (latestView s.w s.xid) rs nr) (hfresh : AvDone s.xid s.cid l rs [])
    (rows : List VolumeRow) (hne : rows ≠ []) (hnodup : (rows.map avKeyOf).Nodup) :
    (execInsert (n + 5) env b "accounts_volumes" alias cols (.values (rows.map f))
        (some (.mk target tw cn (.update sets none))) returning).exec s =
      (.ok { rel := { cols := ["input", "output"],
                      rows := (avRun (latestView s.w s.xid) s.xid s.cid l rows (rs, nr)).2.map (fun p => [.int p.1, .int p.2]) },
             affected := rows.length },
       s.withTable (avT b (avRun (latestView s.w s.xid) s.xid s.cid l rows (rs, nr)).1.1
                          (avRun (latestView s.w s.xid) s.xid s.cid l rows (rs, nr)).1.2)) := by
  cases rows with
  | nil => exact absurd rfl hne
  | cons r rest =>
    have hq : (qualify b "accounts_volumes").exec s = (.ok (avFull b), s) := by
      simp [qualify, hb, avFull]
    have hnodup' := List.nodup_cons.mp hnodup
    have hstep := exec_insertRowStep_av n env b "accounts_volumes" alias cols target tw cn sets returning (g r) {} l
      r.accounts_address r.asset r.input_ r.output_ rs nr s hT hsolo hinv.typed
      (sh.row r) sh.arb (sh.sets r) sh.retne (sh.ret r)
      (hfresh.not2 hinv.typed _ _ _ (by simp))
      (hinv.uniq l r.accounts_address r.asset)
    have hfold := exec_fold_av n env b "accounts_volumes" alias l cols target tw cn sets returning g sh s rs nr hT hsolo hx hc rest
      _ _ { retCols := ["input", "output"], retRows := ({} : DmlAcc).retRows ++ [[Value.int (avStep (latestView s.w s.xid) s.xid s.cid l r.accounts_address r.asset r.input_ r.output_ (rs, nr)).2.1, Value.int (avStep (latestView s.w s.xid) s.xid s.cid l r.accounts_address r.asset r.input_ r.output_ (rs, nr)).2.2]], affected := ({} : DmlAcc).affected + 1 }
      [avKeyOf r]
      (avStep_inv s.w s.xid s.cid l r.accounts_address r.asset r.input_ r.output_ rs nr hx hc hinv)
      (avStep_done s.xid s.cid _ l r.accounts_address r.asset r.input_ r.output_ rs nr [] hfresh)
      hnodup'.2
      (by
        intro q hq hmem
        simp only [List.mem_singleton] at hmem
        exact hnodup'.1 (by rw [← hmem]; exact List.mem_map_of_mem hq))
      rfl
    rw [execInsert]
    have hmap := exec_mapM_values (n + 3) env f g hsrc (r :: rest) s
    simp only [hb, Bool.false_eq_true, if_false, exec_bind, hq, exec_getTable hT, hmap, hcols, exec_pure]
    simp only [List.map_cons, exec_foldlM_cons, hstep, hfold]
    simp [avRun, sh.retne, Nat.add_comm 1]

end Ledger.Sql
