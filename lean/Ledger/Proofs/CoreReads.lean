import Ledger.Proofs.CorePcev
import Ledger.Spec.Reads

/-! C05 algebra: sums over the `moves` table in a window equal the Spec fold; the latest
    effective move at or before a point in time carries the fold up to it. -/
set_option linter.unusedSectionVars false
namespace Ledger.Spec
open Ledger.Base Ledger.Core

/-! ### sums of volumes -/

def vsum : List Volumes → Volumes
  | [] => Volumes.zero
  | v :: l => v.add (vsum l)

theorem vsum_append (a b : List Volumes) : vsum (a ++ b) = (vsum a).add (vsum b) := by
  induction a with
  | nil => simp [vsum, Volumes.zero_add]
  | cons v a ih => simp only [List.cons_append, vsum, ih, Volumes.add_assoc]

theorem Volumes.add_comm (a b : Volumes) : a.add b = b.add a := by
  apply Volumes.ext' <;> simp only [Volumes.add] <;> omega

theorem foldl_add_eq (l : List Volumes) (v : Volumes) : l.foldl (fun acc d => acc.add d) v = v.add (vsum l) := by
  induction l generalizing v with
  | nil => simp [vsum, Volumes.add_zero]
  | cons d l ih => simp only [List.foldl_cons, ih, vsum, Volumes.add_assoc]

theorem sumDeltas_eq_vsum (l : List MoveRow) : sumDeltas l = vsum (l.map (·.delta)) := by
  unfold sumDeltas
  have : l.foldl (fun acc m => acc.add m.delta) Volumes.zero =
      (l.map (·.delta)).foldl (fun acc d => acc.add d) Volumes.zero := by
    rw [List.foldl_map]
  rw [this, foldl_add_eq, Volumes.zero_add]

/-! ### what the moves table says about the history -/

structure MoveSig where
  key : Key
  delta : Volumes
  ins : Int
  eff : Int
  tx : Nat
  deriving DecidableEq, Repr

def MoveRow.sig (r : MoveRow) : MoveSig := ⟨r.key, r.delta, r.insertionDate, r.effectiveDate, r.txId⟩

def postingSigs (ins eff : Int) (tx : Nat) : List Posting → List MoveSig
  | [] => []
  | p :: ps => ⟨p.srcKey, ⟨0, p.amount⟩, ins, eff, tx⟩ :: ⟨p.dstKey, ⟨p.amount, 0⟩, ins, eff, tx⟩ :: postingSigs ins eff tx ps

def recsSigs : List TxRec → List MoveSig
  | [] => []
  | t :: ts => postingSigs t.insertedAt t.timestamp t.id t.postings ++ recsSigs ts

theorem recsSigs_append (a b : List TxRec) : recsSigs (a ++ b) = recsSigs a ++ recsSigs b := by
  induction a with
  | nil => rfl
  | cons t a ih => simp [recsSigs, ih]

theorem recsSigs_map_congr (f : TxRec → TxRec)
    (hf : ∀ t, (f t).postings = t.postings ∧ (f t).insertedAt = t.insertedAt ∧ (f t).timestamp = t.timestamp ∧ (f t).id = t.id)
    (l : List TxRec) : recsSigs (l.map f) = recsSigs l := by
  induction l with
  | nil => rfl
  | cons t l ih =>
    obtain ⟨h1, h2, h3, h4⟩ := hf t
    simp [recsSigs, ih, h1, h2, h3, h4]

theorem sig_setEffective (t : List MoveRow) (n : MoveRow) : (setEffective t n).sig = n.sig := rfl

theorem sig_bump (n m : MoveRow) : (bump n m).sig = m.sig := by unfold bump; split <;> rfl

theorem sig_bumpAll (rs : List MoveRow) (m : MoveRow) : (bumpAll rs m).sig = m.sig := by
  induction rs generalizing m with
  | nil => rfl
  | cons r rs ih =>
    have : bumpAll (r :: rs) m = bumpAll rs (bump r m) := rfl
    rw [this, ih, sig_bump]

theorem sig_insertedRows (t news : List MoveRow) : (insertedRows t news).map MoveRow.sig = news.map MoveRow.sig := by
  induction news generalizing t with
  | nil => rfl
  | cons n ns ih => simp only [insertedRows, List.map_cons, ih, sig_setEffective]

theorem sig_insertMoves (table news : List MoveRow) :
    (insertMoves table news).map MoveRow.sig = table.map MoveRow.sig ++ news.map MoveRow.sig := by
  unfold insertMoves
  rw [insertPhase2_eq, insertPhase1_eq, List.map_map]
  have : (MoveRow.sig ∘ bumpAll (insertedRows table news)) = MoveRow.sig := by
    funext m; exact sig_bumpAll _ m
  rw [this, List.map_append, sig_insertedRows]

def moveSig (ins eff : Int) (tx : Nat) (m : Move) : MoveSig :=
  ⟨(m.account, m.asset), if m.isSource then ⟨0, m.amount⟩ else ⟨m.amount, 0⟩, ins, eff, tx⟩

theorem sig_toRows (s0 txId : Nat) (ins eff : Int) (ms : List Move) :
    (toRows s0 txId ins eff ms).map MoveRow.sig = ms.map (moveSig ins eff txId) := by
  induction ms generalizing s0 with
  | nil => rfl
  | cons m ms ih =>
    simp only [toRows, List.map_cons, ih]
    rfl

theorem sig_fwdMoves (ins eff : Int) (tx : Nat) (pre : PCV) (ps : List Posting) :
    (fwdMoves pre ps).map (moveSig ins eff tx) = postingSigs ins eff tx ps := by
  induction ps generalizing pre with
  | nil => rfl
  | cons p ps ih =>
    simp only [fwdMoves, List.map_cons, ih, postingSigs]
    rfl

/-- the moves table lists, in order, both sides of every committed posting with the
    transaction's dates -/
def MovesContent (st : Store) : Prop := st.moves.map MoveRow.sig = recsSigs st.txRecs

theorem MovesContent_applyOp {st st' : Store} (inv : MovesContent st) (o : StoreOp) (h : applyOp st o = .ok st') :
    MovesContent st' := by
  cases o with
  | commit t =>
    simp only [applyOp] at h
    unfold applyTx at h
    simp only [movesOf_returned] at h
    cases h
    unfold MovesContent at *
    simp only [Store.txRecs, List.map_append, List.map_cons, List.map_nil]
    rw [sig_insertMoves, sig_toRows, sig_fwdMoves, recsSigs_append, inv]
    simp [recsSigs, Store.txRecs]
  | lock keys => simp only [applyOp] at h; cases h; exact inv
  | saveAccountMeta a at_ md => simp only [applyOp] at h; cases h; exact inv
  | markReverted id a =>
    simp only [applyOp] at h; cases h
    unfold MovesContent at *
    rw [txRecs_markReverted, recsSigs_map_congr]
    · exact inv
    · intro t
      simp only [setReverted]
      split <;> exact ⟨rfl, rfl, rfl, rfl⟩

theorem MovesContent_runOpsFrom (ops : List StoreOp) {st st' : Store} (inv : MovesContent st)
    (h : runOpsFrom st ops = .ok st') : MovesContent st' := by
  induction ops generalizing st with
  | nil => simp only [runOpsFrom] at h; cases h; exact inv
  | cons o os ih =>
    simp only [runOpsFrom] at h
    cases h1 : applyOp st o with
    | error e => rw [h1] at h; simp at h
    | ok s1 => rw [h1] at h; exact ih (MovesContent_applyOp inv o h1) h

theorem MovesContent_runOps {ops : List StoreOp} {st : Store} (h : runOps ops = .ok st) : MovesContent st :=
  MovesContent_runOpsFrom ops (by simp [MovesContent, Store.txRecs, recsSigs]) h

/-! ### sums over selected moves -/

/-- sum of the deltas of the signatures of key `k` selected by `P ins eff tx` -/
def sigVolumesP (P : Int → Int → Nat → Bool) (k : Key) (sigs : List MoveSig) : Volumes :=
  vsum ((sigs.filter (fun s => s.key == k && P s.ins s.eff s.tx)).map (·.delta))

theorem sigVolumesP_append (P : Int → Int → Nat → Bool) (k : Key) (a b : List MoveSig) :
    sigVolumesP P k (a ++ b) = (sigVolumesP P k a).add (sigVolumesP P k b) := by
  simp [sigVolumesP, List.filter_append, vsum_append]

theorem sigVolumesP_postingSigs (P : Int → Int → Nat → Bool) (k : Key) (ins eff : Int) (tx : Nat) (ps : List Posting) :
    sigVolumesP P k (postingSigs ins eff tx ps) = if P ins eff tx then foldVolumes k ps else Volumes.zero := by
  induction ps with
  | nil => cases P ins eff tx <;> simp [postingSigs, sigVolumesP, vsum, foldVolumes, inSum, outSum, Volumes.zero]
  | cons p ps ih =>
    have e : postingSigs ins eff tx (p :: ps) =
        [⟨p.srcKey, ⟨0, p.amount⟩, ins, eff, tx⟩, ⟨p.dstKey, ⟨p.amount, 0⟩, ins, eff, tx⟩] ++ postingSigs ins eff tx ps := rfl
    rw [e, sigVolumesP_append, ih]
    simp only [sigVolumesP, List.filter_cons, List.filter_nil]
    cases P ins eff tx with
    | false => simp [vsum, Volumes.add, Volumes.zero]
    | true =>
      simp only [Bool.and_true, if_true]
      apply Volumes.ext'
      · by_cases h1 : p.srcKey = k <;> by_cases h2 : p.dstKey = k <;>
          simp [h1, h2, vsum, Volumes.add, Volumes.zero, foldVolumes, inSum]
      · by_cases h1 : p.srcKey = k <;> by_cases h2 : p.dstKey = k <;>
          simp [h1, h2, vsum, Volumes.add, Volumes.zero, foldVolumes, outSum]

/-- selecting moves by (insertion date, effective date, transaction id) = selecting the transactions -/
theorem sigVolumesP_recsSigs (P : Int → Int → Nat → Bool) (k : Key) (recs : List TxRec) :
    sigVolumesP P k (recsSigs recs) =
      volumesOf (recs.filter (fun t => P t.insertedAt t.timestamp t.id)) k := by
  induction recs with
  | nil => simp [recsSigs, sigVolumesP, vsum, volumesOf, allPostings, foldVolumes, inSum, outSum, Volumes.zero]
  | cons t ts ih =>
    simp only [recsSigs, sigVolumesP_append, ih, sigVolumesP_postingSigs]
    unfold volumesOf
    simp only [List.filter_cons]
    by_cases hw : P t.insertedAt t.timestamp t.id = true
    · simp only [hw, if_true, allPostings, foldVolumes_append]
    · simp [hw, Volumes.zero_add]

/-- sum of the deltas of the rows of key `k` selected by `P insertion_date effective_date transactions_id` -/
def movesVolumesP (P : Int → Int → Nat → Bool) (k : Key) (moves : List MoveRow) : Volumes :=
  sumDeltas (moves.filter fun m => m.key == k && P m.insertionDate m.effectiveDate m.txId)

theorem movesVolumesP_eq (P : Int → Int → Nat → Bool) (k : Key) (moves : List MoveRow) :
    movesVolumesP P k moves = sigVolumesP P k (moves.map MoveRow.sig) := by
  unfold movesVolumesP sigVolumesP
  rw [sumDeltas_eq_vsum, List.filter_map, List.map_map]
  rfl

/-- in every reachable store: sum over selected moves = fold over the selected transactions -/
theorem movesVolumesP_eq_fold {ops : List StoreOp} {st : Store} (h : runOps ops = .ok st)
    (P : Int → Int → Nat → Bool) (k : Key) :
    movesVolumesP P k st.moves = volumesOf (st.txRecs.filter (fun t => P t.insertedAt t.timestamp t.id)) k := by
  rw [movesVolumesP_eq, MovesContent_runOps h, sigVolumesP_recsSigs]

/-! ### window sums -/

def winSel (w : Window) (mode : DateMode) : Int → Int → Nat → Bool :=
  fun ins eff _ => w.contains (match mode with | .insertion => ins | .effective => eff)

theorem movesWindowVolumes_eq_P (moves : List MoveRow) (w : Window) (mode : DateMode) (k : Key) :
    movesWindowVolumes moves w mode k = movesVolumesP (winSel w mode) k moves := by
  unfold movesWindowVolumes movesVolumesP
  cases mode <;> rfl

/-- C05: the sum over the moves of an account/asset whose date lies in the window — the
    way the point-in-time SQL aggregates — equals the Spec fold `volumesAt`. -/
theorem movesWindowVolumes_eq_fold {ops : List StoreOp} {st : Store} (h : runOps ops = .ok st)
    (w : Window) (mode : DateMode) (k : Key) :
    movesWindowVolumes st.moves w mode k = volumesAt st.txRecs w mode k := by
  rw [movesWindowVolumes_eq_P, movesVolumesP_eq_fold h]
  unfold volumesAt txsIn
  cases mode <;> rfl

/-! ### the latest effective move carries the fold -/

theorem lastEffectiveMove_none {t : List MoveRow} {k : Key} {pit : Int} (h : lastEffectiveMove t k pit = none) :
    ∀ c ∈ t, ¬ (c.key = k ∧ c.effectiveDate ≤ pit) := by
  induction t with
  | nil => intro c hc; simp at hc
  | cons m r ih =>
    unfold lastEffectiveMove at h
    by_cases hc : m.key = k ∧ m.effectiveDate ≤ pit
    · rw [if_pos hc] at h
      cases hp : lastEffectiveMove r k pit with
      | none => rw [hp] at h; simp at h
      | some b => rw [hp] at h; simp at h
    · rw [if_neg hc] at h
      intro c hcm
      rcases List.mem_cons.mp hcm with rfl | hcm
      · exact hc
      · exact ih h c hcm

theorem lastEffectiveMove_some {t : List MoveRow} {k : Key} {pit : Int} {p : MoveRow}
    (h : lastEffectiveMove t k pit = some p) :
    p ∈ t ∧ p.key = k ∧ p.effectiveDate ≤ pit ∧
    ∀ c ∈ t, c.key = k → c.effectiveDate ≤ pit → c.notAfter p = true := by
  induction t generalizing p with
  | nil => simp [lastEffectiveMove] at h
  | cons m r ih =>
    unfold lastEffectiveMove at h
    by_cases hc : m.key = k ∧ m.effectiveDate ≤ pit
    · rw [if_pos hc] at h
      cases hp : lastEffectiveMove r k pit with
      | none =>
        rw [hp] at h
        simp only [Option.some.injEq] at h
        subst h
        refine ⟨List.mem_cons_self, hc.1, hc.2, ?_⟩
        intro c hcm hk hb
        rcases List.mem_cons.mp hcm with rfl | hcm
        · rw [notAfter_iff]; right; exact ⟨rfl, Nat.le_refl _⟩
        · exact absurd ⟨hk, hb⟩ (lastEffectiveMove_none hp c hcm)
      | some b =>
        rw [hp] at h
        simp only [Option.some.injEq] at h
        obtain ⟨hb1, hb2, hb3, hb4⟩ := ih hp
        by_cases hmb : m.before b = true
        · rw [if_pos hmb] at h
          subst h
          refine ⟨List.mem_cons_of_mem _ hb1, hb2, hb3, ?_⟩
          intro c hcm hk hb
          rcases List.mem_cons.mp hcm with rfl | hcm
          · rw [notAfter_iff]; rw [before_iff] at hmb; omega
          · exact hb4 c hcm hk hb
        · rw [if_neg hmb] at h
          subst h
          refine ⟨List.mem_cons_self, hc.1, hc.2, ?_⟩
          intro c hcm hk hb
          rcases List.mem_cons.mp hcm with rfl | hcm
          · rw [notAfter_iff]; right; exact ⟨rfl, Nat.le_refl _⟩
          · have h1 := hb4 c hcm hk hb
            rw [notAfter_iff] at h1 ⊢
            rw [before_iff] at hmb
            omega
    · rw [if_neg hc] at h
      obtain ⟨hb1, hb2, hb3, hb4⟩ := ih h
      refine ⟨List.mem_cons_of_mem _ hb1, hb2, hb3, ?_⟩
      intro c hcm hk hb
      rcases List.mem_cons.mp hcm with rfl | hcm
      · exact absurd ⟨hk, hb⟩ hc
      · exact hb4 c hcm hk hb

theorem filter_congr' {α : Type} {p q : α → Bool} {l : List α} (h : ∀ x ∈ l, p x = q x) : l.filter p = l.filter q := by
  induction l with
  | nil => rfl
  | cons x l ih =>
    simp only [List.filter_cons, h x List.mem_cons_self, ih (fun y hy => h y (List.mem_cons_of_mem _ hy))]

/-- Under `PCEV_Inv`, `first_value(post_commit_effective_volumes)` at `pit` is the sum of the
    deltas of the moves dated `≤ pit`. -/
theorem effectiveVolumesAt_eq_window {moves : List MoveRow} (hinv : PCEV_Inv moves) (k : Key) (pit : Int) :
    effectiveVolumesAt moves k pit = movesWindowVolumes moves { pit := some pit } .effective k := by
  have hsel : ∀ m : MoveRow, (m.key == k && Window.contains { pit := some pit } (m.date .effective)) = true ↔
      (m.key = k ∧ m.effectiveDate ≤ pit) := by
    intro m
    simp only [Window.contains, MoveRow.date, Bool.true_and, Bool.and_eq_true, beq_iff_eq]
    constructor
    · rintro ⟨a, b⟩; exact ⟨a, of_decide_eq_true b⟩
    · rintro ⟨a, b⟩; exact ⟨a, decide_eq_true b⟩
  unfold effectiveVolumesAt movesWindowVolumes
  cases hl : lastEffectiveMove moves k pit with
  | none =>
    simp only []
    have : moves.filter (fun m => m.key == k && Window.contains { pit := some pit } (m.date .effective)) = [] := by
      rw [List.filter_eq_nil_iff]
      intro m hm hc
      exact lastEffectiveMove_none hl m hm ((hsel m).mp hc)
    rw [this]; rfl
  | some p =>
    simp only []
    obtain ⟨h1, h2, h3, h4⟩ := lastEffectiveMove_some hl
    rw [hinv p h1]
    congr 1
    apply filter_congr'
    intro c hc
    rw [Bool.eq_iff_iff, hsel c]
    simp only [MoveRow.countsFor, Bool.and_eq_true, beq_iff_eq]
    constructor
    · rintro ⟨a, b⟩
      rw [notAfter_iff] at b
      exact ⟨a.trans h2, by omega⟩
    · rintro ⟨a, b⟩
      exact ⟨a.trans h2.symm, h4 c hc a b⟩


/-! ### aggregated balances -/

def aggFrom (m : Map String Volumes) (av : PCV) : Map String Volumes :=
  av.foldl (fun m e => m.insertWith Volumes.add e.1.2 e.2) m

def hasAsset (s : String) (av : PCV) : Bool := av.any (fun e => e.1.2 == s)

def sumVol (s : String) (av : PCV) : Volumes := ⟨inputsIn s av, outputsIn s av⟩

theorem sumVol_cons (s : String) (k : Key) (v : Volumes) (av : PCV) :
    sumVol s ((k, v) :: av) = (if k.2 = s then v else Volumes.zero).add (sumVol s av) := by
  unfold sumVol inputsIn outputsIn
  simp only [Map.sumBy]
  by_cases h : k.2 = s <;> simp [h, Volumes.add, Volumes.zero]

theorem get?_aggFrom {m : Map String Volumes} (hw : Map.WF m) (av : PCV) (s : String) :
    (aggFrom m av).get? s =
      match m.get? s with
      | some v0 => some (v0.add (sumVol s av))
      | none => if hasAsset s av then some (sumVol s av) else none := by
  induction av generalizing m with
  | nil =>
    simp only [aggFrom, List.foldl_nil, hasAsset, List.any_nil]
    cases m.get? s with
    | none => rfl
    | some v0 =>
      have : sumVol s [] = Volumes.zero := rfl
      simp [this, Volumes.add_zero]
  | cons e av ih =>
    obtain ⟨k, v⟩ := e
    have e1 : aggFrom m ((k, v) :: av) = aggFrom (m.insertWith Volumes.add k.2 v) av := rfl
    rw [e1, ih (Map.WF_insertWith _ _ _ hw), Map.get?_insertWith _ _ _ hw, sumVol_cons]
    by_cases hk : s = k.2
    · subst hk
      simp only [if_true]
      cases m.get? k.2 with
      | none => simp [hasAsset, Volumes.add]
      | some v0 => simp [Volumes.add_assoc]
    · have hk' : ¬ k.2 = s := fun e => hk e.symm
      simp only [if_neg hk, if_neg hk', Volumes.zero_add]
      cases m.get? s with
      | none =>
        have hb : (k.2 == s) = false := by simpa using hk'
        simp only [hasAsset, List.any_cons, hb, Bool.false_or]
        rfl
      | some v0 => rfl

/-- C01: every row of the aggregated-balances read (empty filter, no PIT) balances: total input
    of the asset = total output. -/
theorem aggregated_balanced {ops : List StoreOp} {st : Store} (h : runOps ops = .ok st) (s : String) (v : Volumes)
    (hv : (aggregatedVolumes st.accountsVolumes).get? s = some v) : v.input = v.output := by
  have hg := get?_aggFrom (m := []) Map.WF_nil st.accountsVolumes s
  have : aggregatedVolumes st.accountsVolumes = aggFrom [] st.accountsVolumes := rfl
  rw [this, hg] at hv
  simp only [Map.get?_nil] at hv
  have hnet := (StoreInv_runOps h).net s
  rw [netIn_eq] at hnet
  by_cases ha : hasAsset s st.accountsVolumes = true
  · simp only [ha, if_true, Option.some.injEq] at hv
    rw [← hv]
    simp only [sumVol]
    omega
  · simp [ha] at hv

theorem foldl_add_volumesAt (txs : List TxRec) (w : Window) (mode : DateMode) (s : String) (accts : List String) (v0 : Volumes) :
    (accts.foldl (fun acc a => acc.add (volumesAt txs w mode (a, s))) v0).balance =
      v0.balance + sumOver accts (fun a => balanceAt txs w mode (a, s)) := by
  induction accts generalizing v0 with
  | nil => simp [sumOver]
  | cons a accts ih =>
    simp only [List.foldl_cons, ih, sumOver_cons, balance_add, balanceAt]
    omega

end Ledger.Spec
