import Ledger.Proofs.SchedChain

/-!
# C34 (partial): when commit order = id order, the blocks stay complete

Under the discipline of `SchedChain` (the uncommitted rows of the ledger are a suffix with the largest
ids — what the SYNC advisory lock gives; HASH_LOGS=ASYNC does NOT give it, see the counterexample), every
block built by `create_blocks` covers exactly the committed log ids of its range, for ever.
-/
namespace Ledger.Sched

/-- what `mkBlocks` produces from a strictly increasing id list -/
theorem mkBlocks_spec (l size : Nat) (ids : List Nat) (hs : ids.Pairwise (· < ·)) :
    ∀ (fuel last : Nat) (b : Blk), b ∈ mkBlocks l size fuel last ids →
      b.l = l ∧ last ≤ b.from_ ∧ b.from_ < b.to ∧ b.to ∈ ids ∧ b.ids.Pairwise (· < ·) ∧
      ∀ i, i ∈ b.ids ↔ (i ∈ ids ∧ b.from_ < i ∧ i ≤ b.to) := by
  intro fuel
  induction fuel with
  | zero => intro last b hb; simp [mkBlocks] at hb
  | succ n ih =>
    intro last b hb
    unfold mkBlocks at hb
    simp only at hb
    split at hb
    · cases hb
    · rename_i top htop
      -- F = batch ++ rest, everything in rest above everything in batch
      have hF : (ids.filter (· > last)).Pairwise (· < ·) := hs.sublist List.filter_sublist
      have hsplit := List.take_append_drop size (ids.filter (· > last))
      have hcross : ∀ a ∈ (ids.filter (· > last)).take size, ∀ c ∈ (ids.filter (· > last)).drop size, a < c := by
        rw [← hsplit] at hF
        exact (List.pairwise_append.mp hF).2.2
      have htopmem : top ∈ (ids.filter (· > last)).take size := List.mem_of_getLast? htop
      have htopmax : ∀ a ∈ (ids.filter (· > last)).take size, a ≤ top := by
        intro a ha
        have hb' : ((ids.filter (· > last)).take size).Pairwise (· < ·) := hF.sublist (List.take_sublist _ _)
        obtain ⟨r, hr⟩ : ∃ r, (ids.filter (· > last)).take size = r ++ [top] := by
          rcases List.eq_nil_or_concat ((ids.filter (· > last)).take size) with h0 | ⟨r, e, hre⟩
          · rw [h0] at htop; cases htop
          · rw [List.concat_eq_append] at hre
            refine ⟨r, ?_⟩
            rw [hre] at htop ⊢
            simp at htop
            rw [htop]
        rw [hr] at ha hb'
        rcases List.mem_append.mp ha with ha | ha
        · exact Nat.le_of_lt ((List.pairwise_append.mp hb').2.2 a ha top (List.mem_singleton.mpr rfl))
        · rw [List.mem_singleton.mp ha]; exact Nat.le_refl _
      have htopF := List.mem_of_mem_take htopmem
      simp only [List.mem_filter, decide_eq_true_eq] at htopF
      cases hb with
      | head =>
        refine ⟨rfl, Nat.le_refl _, htopF.2, htopF.1, hF.sublist (List.take_sublist _ _), ?_⟩
        intro i
        constructor
        · intro hi
          have hiF := List.mem_of_mem_take hi
          simp only [List.mem_filter, decide_eq_true_eq] at hiF
          exact ⟨hiF.1, hiF.2, htopmax i hi⟩
        · intro ⟨hi1, hi2, hi3⟩
          have hiF : i ∈ ids.filter (· > last) := List.mem_filter.mpr ⟨hi1, by simpa using hi2⟩
          rw [← hsplit] at hiF
          rcases List.mem_append.mp hiF with h | h
          · exact h
          · exact absurd (hcross top htopmem i h) (Nat.not_lt.mpr hi3)
      | tail _ hm =>
        obtain ⟨h1, h2, h3, h4, h5, h6⟩ := ih top b hm
        exact ⟨h1, Nat.le_trans (Nat.le_of_lt htopF.2) h2, h3, h4, h5, h6⟩

theorem insertSorted_lt (a : Nat) (r : List Nat) (h : ∀ x ∈ r, a < x) : insertSorted a r = a :: r := by
  cases r with
  | nil => rfl
  | cons b t =>
    unfold insertSorted
    rw [if_pos (Nat.le_of_lt (h b (List.mem_cons_self ..)))]

theorem sortNat_of_sorted (xs : List Nat) (h : xs.Pairwise (· < ·)) : sortNat xs = xs := by
  induction xs with
  | nil => rfl
  | cons a r ih =>
    rw [List.pairwise_cons] at h
    unfold sortNat
    simp only [List.foldr_cons]
    have : List.foldr insertSorted [] r = r := ih h.2
    rw [this]
    exact insertSorted_lt a r h.1

end Ledger.Sched

namespace Ledger.Sched

theorem mkBlocks_ordered (l size : Nat) (ids : List Nat) (hs : ids.Pairwise (· < ·)) :
    ∀ (fuel last : Nat), (mkBlocks l size fuel last ids).Pairwise (fun a b => a.to ≤ b.from_) := by
  intro fuel
  induction fuel with
  | zero => intro last; simp [mkBlocks]
  | succ n ih =>
    intro last
    unfold mkBlocks
    simp only
    split
    · exact List.Pairwise.nil
    · rename_i top _
      rw [List.pairwise_cons]
      refine ⟨?_, ih top⟩
      intro b hb
      exact (mkBlocks_spec l size ids hs n top b hb).2.1

theorem pairwise_total {α : Type} (R : α → α → Prop) (l : List α) (h : l.Pairwise R) (a b : α)
    (ha : a ∈ l) (hb : b ∈ l) : a = b ∨ R a b ∨ R b a := by
  induction l with
  | nil => cases ha
  | cons x r ih =>
    rw [List.pairwise_cons] at h
    cases ha with
    | head =>
      cases hb with
      | head => exact Or.inl rfl
      | tail _ hb => exact Or.inr (Or.inl (h.1 b hb))
    | tail _ ha =>
      cases hb with
      | head => exact Or.inr (Or.inr (h.1 a ha))
      | tail _ hb => exact ih h.2 ha hb

/-- committed log ids of the ledger, in insertion (= id) order -/
def Cids (l₀ : Nat) (w : World) : List Nat := ((Lof l₀ w).filter (·.com)).map (·.id)

theorem cids_sorted (d : Disc) (w : World) (h : ChainInv d w) : (Cids d.l₀ w).Pairwise (· < ·) :=
  List.pairwise_map.mpr (h.inc.sublist List.filter_sublist)

/-- under the chain invariant an uncommitted row has a larger id than every committed one -/
theorem uncommitted_above_committed (d : Disc) (w : World) (h : ChainInv d w) (e : Lg) (he : e ∈ Lof d.l₀ w)
    (hec : e.com = false) (i : Nat) (hi : i ∈ Cids d.l₀ w) : i < e.id := by
  unfold Cids at hi
  obtain ⟨c, hc, rfl⟩ := List.mem_map.mp hi
  simp only [List.mem_filter] at hc
  have hboth : List.Pairwise (fun a b => a.id < b.id ∧ (b.com = true → a.com = true)) (Lof d.l₀ w) := by
    have h1 := h.inc
    have h2 : List.Pairwise (fun a b => b.com = true → a.com = true) (Lof d.l₀ w) := h.pre
    exact List.pairwise_and_iff.mpr ⟨h1, h2⟩
  rcases pairwise_total _ _ hboth c e hc.1 he with heq | hce | hec'
  · rw [heq, hec] at hc; cases hc.2
  · exact hce.1
  · have := hec'.2 hc.2
    rw [hec] at this; cases this

structure BInv (l₀ : Nat) (w : World) : Prop where
  /-- the digest of a block covers exactly the committed ids of its range -/
  bi : ∀ b ∈ w.blocks, b.l = l₀ → ∀ i, i ∈ b.ids ↔ (i ∈ Cids l₀ w ∧ b.from_ < i ∧ i ≤ b.to)
  bu : ∀ b ∈ w.blocks, b.l = l₀ → ∀ e ∈ Lof l₀ w, e.com = false → b.to < e.id
  bs : ∀ b ∈ w.blocks, b.l = l₀ → b.to ≤ w.logSeq l₀
  /-- ranges are disjoint and in order -/
  bd : (w.blocks.filter (fun b => b.l = l₀)).Pairwise (fun a b => a.to ≤ b.from_)

end Ledger.Sched

namespace Ledger.Sched

theorem binv_congr (l₀ : Nat) (w w' : World) (h : BInv l₀ w)
    (h1 : w'.logs = w.logs) (h2 : w.logSeq l₀ ≤ w'.logSeq l₀) (h3 : w'.blocks = w.blocks) : BInv l₀ w' := by
  have hL : Lof l₀ w' = Lof l₀ w := by unfold Lof; rw [h1]
  have hC : Cids l₀ w' = Cids l₀ w := by unfold Cids; rw [hL]
  refine ⟨by rw [h3, hC]; exact h.bi, by rw [h3, hL]; exact h.bu, ?_, by rw [h3]; exact h.bd⟩
  rw [h3]; intro b hb hl; exact Nat.le_trans (h.bs b hb hl) h2

theorem cids_commit (l₀ : Nat) (w : World) (t : Sid) (i : Nat) :
    i ∈ Cids l₀ (w.commitTx t) ↔ (i ∈ Cids l₀ w ∨ ∃ e ∈ Lof l₀ w, e.com = false ∧ e.by_ = t ∧ e.id = i) := by
  unfold Cids
  rw [lof_commit]
  simp only [List.mem_map, List.mem_filter]
  constructor
  · rintro ⟨x, ⟨hx, hxc⟩, rfl⟩
    obtain ⟨y, hy, rfl⟩ := hx
    rw [(flipCom_keys t y).2.1]
    cases hyc : y.com with
    | true => exact Or.inl ⟨y, ⟨hy, hyc⟩, rfl⟩
    | false =>
      right
      refine ⟨y, hy, hyc, ?_, rfl⟩
      unfold flipCom at hxc
      by_cases hyt : y.by_ = t
      · exact hyt
      · rw [if_neg hyt, hyc] at hxc; cases hxc
  · rintro (⟨y, ⟨hy, hyc⟩, rfl⟩ | ⟨y, hy, hyc, hyt, rfl⟩)
    · refine ⟨flipCom t y, ⟨⟨y, hy, rfl⟩, ?_⟩, (flipCom_keys t y).2.1⟩
      unfold flipCom; split <;> simp [hyc]
    · refine ⟨flipCom t y, ⟨⟨y, hy, rfl⟩, ?_⟩, (flipCom_keys t y).2.1⟩
      unfold flipCom; rw [if_pos hyt]

theorem binv_commit (l₀ : Nat) (w : World) (t : Sid) (h : BInv l₀ w) : BInv l₀ (w.commitTx t) := by
  have hb : (w.commitTx t).blocks = w.blocks := rfl
  refine ⟨?_, ?_, by rw [hb]; exact h.bs, by rw [hb]; exact h.bd⟩
  · rw [hb]
    intro b hbm hl i
    rw [h.bi b hbm hl i, cids_commit]
    constructor
    · rintro ⟨h1, h2, h3⟩; exact ⟨Or.inl h1, h2, h3⟩
    · rintro ⟨h1 | ⟨e, he, hec, _, rfl⟩, h2, h3⟩
      · exact ⟨h1, h2, h3⟩
      · exact absurd (h.bu b hbm hl e he hec) (Nat.not_lt.mpr h3)
  · rw [hb, lof_commit]
    intro b hbm hl e he hec
    obtain ⟨x, hx, rfl⟩ := List.mem_map.mp he
    rw [(flipCom_keys t x).2.1]
    have hxc : x.com = false := by
      unfold flipCom at hec
      split at hec
      · cases hec
      · exact hec
    exact h.bu b hbm hl x hx hxc

theorem binv_undo (l₀ : Nat) (w : World) (t : Sid) (b : Bool) (h : BInv l₀ w) : BInv l₀ (w.undo t b) := by
  have hb : (w.undo t b).blocks = w.blocks := rfl
  have hC : Cids l₀ (w.undo t b) = Cids l₀ w := by
    unfold Cids
    rw [lof_undo, List.filter_filter]
    congr 1
    apply List.filter_congr
    intro e _
    cases e.com <;> simp
  refine ⟨by rw [hb, hC]; exact h.bi, ?_, by rw [hb]; exact h.bs, by rw [hb]; exact h.bd⟩
  rw [hb, lof_undo]
  intro bl hbm hl e he hec
  exact h.bu bl hbm hl e (List.mem_filter.mp he).1 hec

theorem binv_rollback (l₀ : Nat) (w : World) (t : Sid) (h : BInv l₀ w) : BInv l₀ (w.rollbackTx t) := by
  unfold World.rollbackTx
  exact binv_congr l₀ _ _ (binv_undo l₀ w t false h) rfl (Nat.le_refl _) rfl

theorem binv_fail (l₀ : Nat) (w : World) (t : Sid) (h : BInv l₀ w) : BInv l₀ (w.failTx t) := by
  unfold World.failTx
  simp only
  split
  · exact binv_congr l₀ (w.undo t (decide ((w.sess t).sp > 0))) _ (binv_undo l₀ w t _ h) rfl (Nat.le_refl _) rfl
  · exact binv_congr l₀ w _ h rfl (Nat.le_refl _) rfl

end Ledger.Sched

namespace Ledger.Sched

/-- statements other than `createBlocks` leave the blocks alone -/
theorem exec_blocks (w : World) (s : Sid) (st : Stmt) (w' : World) (hnb : ∀ l n, st ≠ .createBlocks l n)
    (he : (∃ o, exec w s st = .done w' o) ∨ (∃ e, exec w s st = .failed w' e)) : w'.blocks = w.blocks := by
  cases st with
  | createBlocks l n => exact absurd rfl (hnb l n)
  | insertTx l r i =>
    rcases he with ⟨o, he⟩ | ⟨e, he⟩ <;> (simp only [exec] at he; unfold insTx at he; dsimp only at he; repeat' split at he) <;>
      all_goals first | (cases he; done) | (cases he; rfl)
  | insertLog l k hh sy i tx =>
    rcases he with ⟨o, he⟩ | ⟨e, he⟩ <;> (simp only [exec] at he; unfold insLog at he; dsimp only at he; repeat' split at he) <;>
      all_goals first | (cases he; done) | (cases he; rfl)
  | getBalances ps =>
    rcases he with ⟨o, he⟩ | ⟨e, he⟩ <;> (simp only [exec] at he; unfold getBal at he; repeat' split at he) <;>
      all_goals first | (cases he; done) | (cases he; rfl)
  | updateVolumes ds =>
    rcases he with ⟨o, he⟩ | ⟨e, he⟩ <;> (simp only [exec] at he; unfold updVol at he; repeat' split at he) <;>
      all_goals first | (cases he; done) | (cases he; rfl)
  | _ =>
    rcases he with ⟨o, he⟩ | ⟨e, he⟩ <;> (simp only [exec] at he; repeat' split at he) <;>
      all_goals first | (cases he; done) | (cases he; rfl)

theorem maxId_ge_mem (ids : List Nat) (i : Nat) (h : i ∈ ids) : i ≤ maxId ids := (foldl_max_ge ids 0).2 i h

/-- the ids `create_blocks` reads -/
def cbIds (w : World) (l : Nat) : List Nat := sortNat ((w.logs.filter (fun e => e.l = l && e.com)).map (·.id))

/-- the blocks after `create_blocks l size` -/
def blocksAfter (w : World) (l size : Nat) : List Blk :=
  w.blocks ++ mkBlocks l size ((cbIds w l).length + 1) (maxId ((w.blocks.filter (·.l = l)).map (·.to))) (cbIds w l)

theorem binv_createBlocks (d : Disc) (w w' : World) (l size : Nat) (hc : ChainInv d w) (h : BInv d.l₀ w)
    (h1 : w'.logs = w.logs) (h2 : w'.logSeq = w.logSeq) (h3 : w'.blocks = blocksAfter w l size) : BInv d.l₀ w' := by
  have hL : Lof d.l₀ w' = Lof d.l₀ w := by unfold Lof; rw [h1]
  have hC : Cids d.l₀ w' = Cids d.l₀ w := by unfold Cids; rw [hL]
  unfold blocksAfter cbIds at h3
  by_cases hl : l = d.l₀
  · subst hl
    have hids : (w.logs.filter (fun e => e.l = d.l₀ && e.com)).map (·.id) = Cids d.l₀ w := by
      unfold Cids Lof
      rw [List.filter_filter]
      congr 1
      apply List.filter_congr
      intro e _
      exact Bool.and_comm _ _
    have hsorted := cids_sorted d w hc
    rw [hids, sortNat_of_sorted _ hsorted] at h3
    refine ⟨?_, ?_, ?_, ?_⟩
    · rw [hC, h3]
      intro b hb hbl i
      rcases List.mem_append.mp hb with hb | hb
      · exact h.bi b hb hbl i
      · exact (mkBlocks_spec d.l₀ size _ hsorted _ _ b hb).2.2.2.2.2 i
    · rw [hL, h3]
      intro b hb hbl e he hec
      rcases List.mem_append.mp hb with hb | hb
      · exact h.bu b hb hbl e he hec
      · have := (mkBlocks_spec d.l₀ size _ hsorted _ _ b hb).2.2.2.1
        exact uncommitted_above_committed d w hc e he hec b.to this
    · rw [h3, h2]
      intro b hb hbl
      rcases List.mem_append.mp hb with hb | hb
      · exact h.bs b hb hbl
      · have hto := (mkBlocks_spec d.l₀ size _ hsorted _ _ b hb).2.2.2.1
        unfold Cids at hto
        obtain ⟨e, he, hei⟩ := List.mem_map.mp hto
        rw [← hei]
        exact hc.le e (List.mem_filter.mp he).1
    · rw [h3]
      simp only [List.filter_append]
      rw [List.pairwise_append]
      refine ⟨h.bd, (mkBlocks_ordered d.l₀ size _ hsorted _ _).sublist List.filter_sublist, ?_⟩
      intro a ha b hb
      have hb' := (List.mem_filter.mp hb).1
      have hfrom := (mkBlocks_spec d.l₀ size _ hsorted _ _ b hb').2.1
      refine Nat.le_trans ?_ hfrom
      exact maxId_ge_mem _ _ (List.mem_map.mpr ⟨a, ha, rfl⟩)
  · -- blocks of another ledger
    have hnew : ∀ b ∈ mkBlocks l size
        ((sortNat ((w.logs.filter (fun e => e.l = l && e.com)).map (·.id))).length + 1)
        (maxId ((w.blocks.filter (·.l = l)).map (·.to)))
        (sortNat ((w.logs.filter (fun e => e.l = l && e.com)).map (·.id))), b.l = l := by
      intro b hb
      generalize (sortNat ((w.logs.filter (fun e => e.l = l && e.com)).map (·.id))).length + 1 = fuel at hb
      generalize maxId ((w.blocks.filter (·.l = l)).map (·.to)) = last at hb
      generalize sortNat ((w.logs.filter (fun e => e.l = l && e.com)).map (·.id)) = ids at hb
      induction fuel generalizing last with
      | zero => simp [mkBlocks] at hb
      | succ n ih =>
        unfold mkBlocks at hb
        simp only at hb
        split at hb
        · cases hb
        · cases hb with
          | head => rfl
          | tail _ hm => exact ih _ hm
    refine ⟨?_, ?_, ?_, ?_⟩
    · rw [hC, h3]
      intro b hb hbl i
      rcases List.mem_append.mp hb with hb | hb
      · exact h.bi b hb hbl i
      · exact absurd ((hnew b hb).symm.trans hbl) hl
    · rw [hL, h3]
      intro b hb hbl e he hec
      rcases List.mem_append.mp hb with hb | hb
      · exact h.bu b hb hbl e he hec
      · exact absurd ((hnew b hb).symm.trans hbl) hl
    · rw [h3, h2]
      intro b hb hbl
      rcases List.mem_append.mp hb with hb | hb
      · exact h.bs b hb hbl
      · exact absurd ((hnew b hb).symm.trans hbl) hl
    · rw [h3]
      simp only [List.filter_append]
      have : (mkBlocks l size
          ((sortNat ((w.logs.filter (fun e => e.l = l && e.com)).map (·.id))).length + 1)
          (maxId ((w.blocks.filter (·.l = l)).map (·.to)))
          (sortNat ((w.logs.filter (fun e => e.l = l && e.com)).map (·.id)))).filter (fun b => b.l = d.l₀) = [] := by
        rw [List.filter_eq_nil_iff]
        intro b hb hbl
        exact hl ((hnew b hb).symm.trans (by simpa using hbl))
      rw [this, List.append_nil]
      exact h.bd

end Ledger.Sched

namespace Ledger.Sched

theorem binv_insLog (d : Disc) (hstrict : d.strict = true) (w : World) (t : Sid) (m : Mon)
    (l ik hash : Nat) (sync : Bool) (id : Option Nat) (tx : Nat) (w' : World) (o : Out)
    (hok : monOk d m (.insertLog l ik hash sync id tx))
    (he : insLog w t l ik hash sync id tx = .done w' o) (h : BInv d.l₀ w) : BInv d.l₀ w' := by
  obtain ⟨hlogs, _, hseq⟩ := insLog_shape he
  have hblocks : w'.blocks = w.blocks := exec_blocks w t (.insertLog l ik hash sync id tx) w' (by intro _ _ hc; cases hc) (Or.inl ⟨o, by simpa [exec] using he⟩)
  by_cases hl : l = d.l₀
  · obtain ⟨_, _, hst⟩ := hok hl
    obtain ⟨_, hid⟩ := hst hstrict
    subst hid
    subst hl
    have hLe : Lof d.l₀ w' = Lof d.l₀ w ++ [newLog w t d.l₀ ik hash sync none tx] := by
      unfold Lof; rw [hlogs]; exact lof_append_same _ _ _ rfl
    have hC : Cids d.l₀ w' = Cids d.l₀ w := by
      unfold Cids; rw [hLe, List.filter_append]
      simp [newLog]
    have hseq' : w'.logSeq d.l₀ = w.logSeq d.l₀ + 1 := by rw [hseq]; simp
    refine ⟨by rw [hblocks, hC]; exact h.bi, ?_, ?_, by rw [hblocks]; exact h.bd⟩
    · rw [hblocks, hLe]
      intro b hb hbl e he' hec
      rcases List.mem_append.mp he' with he' | he'
      · exact h.bu b hb hbl e he' hec
      · rw [List.mem_singleton.mp he']
        exact Nat.lt_succ_of_le (h.bs b hb hbl)
    · rw [hblocks, hseq']
      intro b hb hbl
      exact Nat.le_succ_of_le (h.bs b hb hbl)
  · have hLe : Lof d.l₀ w' = Lof d.l₀ w := by
      unfold Lof; rw [hlogs]; exact lof_append_other _ _ _ hl
    have hC : Cids d.l₀ w' = Cids d.l₀ w := by unfold Cids; rw [hLe]
    have hseq' : w'.logSeq d.l₀ = w.logSeq d.l₀ := by
      rw [hseq]
      have : ¬ d.l₀ = l := fun h' => hl h'.symm
      simp [this]
    exact ⟨by rw [hblocks, hC]; exact h.bi, by rw [hblocks, hLe]; exact h.bu, by rw [hblocks, hseq']; exact h.bs,
      by rw [hblocks]; exact h.bd⟩

theorem binv_trans (d : Disc) (hstrict : d.strict = true) (w : World) (t : Sid) (st : Stmt) (o : Out) (w1 : World) (m : Mon)
    (hc : ChainInv d w) (hok : monOk d m st) (ht : Trans w t st o w1) (h : BInv d.l₀ w) : BInv d.l₀ w1 := by
  have hns : st ≠ .setval d.l₀ := by
    intro hst; rw [hst] at hok; exact hok hstrict rfl
  cases ht with
  | begin => exact binv_congr d.l₀ w _ h rfl (Nat.le_refl _) rfl
  | commitNoop _ => exact h
  | commitAborted _ _ => exact binv_rollback d.l₀ w t h
  | commit _ _ => exact binv_commit d.l₀ w t h
  | rollback => exact binv_rollback d.l₀ w t h
  | savepointRefused _ => exact h
  | savepoint _ => exact binv_congr d.l₀ w _ h rfl (Nat.le_refl _) rfl
  | releaseRefused _ => exact h
  | releaseBad _ _ => exact binv_fail d.l₀ w t h
  | release _ _ => exact binv_congr d.l₀ w _ h rfl (Nat.le_refl _) rfl
  | rollbackToBad _ => exact binv_fail d.l₀ w t h
  | rollbackTo _ => exact binv_congr d.l₀ w _ h rfl (Nat.le_refl _) rfl
  | refused _ _ _ => exact h
  | deadlock _ _ _ _ _ => exact binv_fail d.l₀ w t h
  | exec _ _ _ _ _ he =>
    by_cases h2 : ∃ l k hh sy i tx, st = .insertLog l k hh sy i tx
    · obtain ⟨l, ik, hash, sync, id, tx, rfl⟩ := h2
      simp only [exec] at he
      exact binv_insLog d hstrict w t m l ik hash sync id tx _ _ hok he h
    · by_cases h3 : ∃ l n, st = .createBlocks l n
      · obtain ⟨l, n, rfl⟩ := h3
        simp only [exec] at he
        cases he
        exact binv_createBlocks d w _ l n hc h rfl rfl rfl
      · obtain ⟨f1, _, f3⟩ := exec_frame_chain w t st _ d.l₀ (fun l k hh sy i tx hc' => h2 ⟨l, k, hh, sy, i, tx, hc'⟩) hns (Or.inl ⟨_, he⟩)
        have f4 := exec_blocks w t st _ (fun l n hc' => h3 ⟨l, n, hc'⟩) (Or.inl ⟨_, he⟩)
        exact binv_congr d.l₀ w _ h f1 (Nat.le_of_eq f3.symm) f4
  | execFailed _ w' e _ _ he =>
    apply binv_fail
    by_cases h2 : ∃ l k hh sy i tx, st = .insertLog l k hh sy i tx
    · obtain ⟨l, ik, hash, sync, id, tx, rfl⟩ := h2
      have f4 := exec_blocks w t _ w' (by intro _ _ hc'; cases hc') (Or.inr ⟨e, he⟩)
      simp only [exec] at he
      obtain ⟨f1, _, f3⟩ := insLog_failed_shape he
      exact binv_congr d.l₀ w w' h f1 (f3 _) f4
    · have h3 : ∀ l n, st ≠ .createBlocks l n := by
        intro l n hst; rw [hst] at he; simp [exec] at he
      obtain ⟨f1, _, f3⟩ := exec_frame_chain w t st w' d.l₀ (fun l k hh sy i tx hc' => h2 ⟨l, k, hh, sy, i, tx, hc'⟩) hns (Or.inr ⟨e, he⟩)
      have f4 := exec_blocks w t st w' h3 (Or.inr ⟨e, he⟩)
      exact binv_congr d.l₀ w w' h f1 (Nat.le_of_eq f3.symm) f4

theorem binv_step (d : Disc) (hstrict : d.strict = true) (w : World) (t : Sid) (hg : GInv d w) (hc : ChainInv d w)
    (h : BInv d.l₀ w) : BInv d.l₀ (step w t) := by
  obtain ⟨m, _, hsafe⟩ := hg.2 t
  rcases step_cases w t with h0 | ⟨sn, wf, h1⟩ | ⟨st, k, o, w1, hp, h2, htr⟩
  · rw [h0]; exact h
  · rw [h1]; exact binv_congr d.l₀ w _ h rfl (Nat.le_refl _) rfl
  · rw [h2]
    rw [hp] at hsafe
    exact binv_congr d.l₀ w1 _ (binv_trans d hstrict w t st o w1 m hc hsafe.1 htr h) rfl (Nat.le_refl _) rfl

theorem binv_run (d : Disc) (hstrict : d.strict = true) (σ : Schedule) (w : World) (hg : GInv d w) (hc : ChainInv d w)
    (h : BInv d.l₀ w) : BInv d.l₀ (run σ w) := by
  induction σ generalizing w with
  | nil => exact h
  | cons s σ ih =>
    exact ih (step w s) (ginv_step d w s hg) (chainInv_step d hstrict w s hg hc) (binv_step d hstrict w s hg hc h)

end Ledger.Sched
