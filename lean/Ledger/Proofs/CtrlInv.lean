import Ledger.Proofs.CtrlStep

/-!
The id / key invariant of the tables and its preservation by every store call
the controller's write path makes (ids taken from the sequences), hence by
every write operation and every sequential history.
-/
namespace Ledger.Ctrl
open Ledger.Base Ledger.Core

/-- A call of the write path: ids come from the sequences (the import path,
    which supplies ids, is treated separately). -/
def Call.Fresh : Call → Prop
  | .commitTransaction t => t.id = none
  | .insertLog l => l.id = none
  | _ => True

structure Inv (d : Db) (sq : Seqs) : Prop where
  logIds : ∀ l ∈ d.logs, l.id ≤ sq.log
  logSorted : d.logs.Pairwise (fun a b => a.id < b.id)
  txIds : ∀ t ∈ d.txs, t.id ≤ sq.tx
  txSorted : d.txs.Pairwise (fun a b => a.id < b.id)
  ikUnique : d.logs.Pairwise (fun a b => b.ik = "" ∨ a.ik ≠ b.ik)
  refUnique : d.txs.Pairwise (fun a b => b.reference = "" ∨ a.reference ≠ b.reference)

theorem Inv.empty : Inv {} {} :=
  ⟨fun _ h => absurd h List.not_mem_nil, List.Pairwise.nil, fun _ h => absurd h List.not_mem_nil,
   List.Pairwise.nil, List.Pairwise.nil, List.Pairwise.nil⟩

theorem Inv.seq_mono {d : Db} {sq sq' : Seqs} (h : Inv d sq) (hs : SeqLe sq sq') : Inv d sq' :=
  ⟨fun l hl => Nat.le_trans (h.logIds l hl) hs.2, h.logSorted,
   fun t ht => Nat.le_trans (h.txIds t ht) hs.1, h.txSorted, h.ikUnique, h.refUnique⟩

/-- Tables that share `logs` and `txs` share the invariant. -/
theorem Inv.congr {d d' : Db} {sq : Seqs} (h : Inv d sq) (hl : d'.logs = d.logs) (ht : d'.txs = d.txs) : Inv d' sq :=
  ⟨by rw [hl]; exact h.logIds, by rw [hl]; exact h.logSorted, by rw [ht]; exact h.txIds,
   by rw [ht]; exact h.txSorted, by rw [hl]; exact h.ikUnique, by rw [ht]; exact h.refUnique⟩

theorem pairwise_append_one {α : Type} {R : α → α → Prop} {l : List α} {x : α}
    (h : l.Pairwise R) (hx : ∀ a ∈ l, R a x) : (l ++ [x]).Pairwise R := by
  rw [List.pairwise_append]
  refine ⟨h, List.pairwise_singleton _ _, ?_⟩
  intro a ha b hb
  rw [List.mem_singleton] at hb
  subst hb
  exact hx a ha

/-- Modifying rows without touching `id` and `reference` keeps the invariant. -/
theorem Inv.modifyTx {d : Db} {sq : Seqs} (h : Inv d sq) (id : Nat) (g : Tx → Tx)
    (hid : ∀ x, (g x).id = x.id) (href : ∀ x, (g x).reference = x.reference) : Inv (d.modifyTx id g) sq := by
  have key : ∀ x : Tx, (if x.id = id then g x else x).id = x.id ∧
      (if x.id = id then g x else x).reference = x.reference := by
    intro x; split
    · exact ⟨hid x, href x⟩
    · exact ⟨rfl, rfl⟩
  refine ⟨h.logIds, h.logSorted, ?_, ?_, h.ikUnique, ?_⟩
  · intro t ht
    simp only [Db.modifyTx, List.mem_map] at ht
    obtain ⟨x, hx, rfl⟩ := ht
    rw [(key x).1]; exact h.txIds x hx
  · simp only [Db.modifyTx]
    rw [List.pairwise_map]
    exact h.txSorted.imp (fun {a b} hab => by rw [(key a).1, (key b).1]; exact hab)
  · simp only [Db.modifyTx]
    rw [List.pairwise_map]
    exact h.refUnique.imp (fun {a b} hab => by rw [(key a).2, (key b).2]; exact hab)

theorem commitTransaction_inv (now : Time) (t : TxIn) (d : Db) (sq : Seqs) (hf : t.id = none) (h : Inv d sq) :
    (∀ sq' e, commitTransaction now t d sq = (sq', .error e) → Inv d sq') ∧
    (∀ sq' r d', commitTransaction now t d sq = (sq', .ok (r, d')) → Inv d' sq') := by
  unfold commitTransaction
  rw [hf]
  simp only
  have hs : SeqLe sq { sq with tx := sq.tx + 1 } := ⟨Nat.le_succ _, Nat.le_refl _⟩
  constructor
  · intro sq' e he
    split at he
    · cases he; exact h.seq_mono hs
    · split at he
      · cases he; exact h.seq_mono hs
      · cases he
  · intro sq' r d' he
    split at he
    · cases he
    · rename_i hdup
      split at he
      · cases he
      · rename_i href
        cases he
        refine ⟨h.logIds, h.logSorted, ?_, ?_, h.ikUnique, ?_⟩
        · intro x hx
          simp only [List.mem_append, List.mem_singleton] at hx
          rcases hx with hx | rfl
          · exact Nat.le_trans (h.txIds x hx) (Nat.le_succ _)
          · exact Nat.le_refl _
        · exact pairwise_append_one h.txSorted (fun a ha => Nat.lt_succ_of_le (h.txIds a ha))
        · refine pairwise_append_one h.refUnique (fun a ha => ?_)
          by_cases hr : t.reference = ""
          · exact Or.inl hr
          · right
            intro hab
            apply href
            refine ⟨hr, ?_⟩
            simp only [List.any_eq_true, decide_eq_true_eq]
            exact ⟨a, ha, hab⟩

theorem insertLog_inv (now : Time) (l : LogIn) (d : Db) (sq : Seqs) (hf : l.id = none) (h : Inv d sq) :
    (∀ sq' e, insertLog now l d sq = (sq', .error e) → Inv d sq') ∧
    (∀ sq' r d', insertLog now l d sq = (sq', .ok (r, d')) → Inv d' sq') := by
  unfold insertLog
  rw [hf]
  simp only
  have hs : SeqLe sq { sq with log := sq.log + 1 } := ⟨Nat.le_refl _, Nat.le_succ _⟩
  constructor
  · intro sq' e he
    split at he
    · cases he; exact h.seq_mono hs
    · split at he
      · cases he; exact h.seq_mono hs
      · cases he
  · intro sq' r d' he
    split at he
    · cases he
    · split at he
      · cases he
      · rename_i hik
        cases he
        refine ⟨?_, ?_, h.txIds, h.txSorted, ?_, h.refUnique⟩
        · intro x hx
          simp only [List.mem_append, List.mem_singleton] at hx
          rcases hx with hx | rfl
          · exact Nat.le_trans (h.logIds x hx) (Nat.le_succ _)
          · exact Nat.le_refl _
        · exact pairwise_append_one h.logSorted (fun a ha => Nat.lt_succ_of_le (h.logIds a ha))
        · refine pairwise_append_one h.ikUnique (fun a ha => ?_)
          by_cases hr : l.ik = ""
          · exact Or.inl hr
          · right
            intro hab
            apply hik
            refine ⟨hr, ?_⟩
            simp only [List.any_eq_true, decide_eq_true_eq]
            exact ⟨a, ha, hab⟩

theorem txMod_inv (d : Db) (sq : Seqs) (h : Inv d sq) (id : Nat)
    (res : Except StoreErr ((Tx × Bool) × Db))
    (hres : ∀ r d', res = .ok (r, d') → d' = d ∨ ∃ g : Tx → Tx, (∀ x, (g x).id = x.id) ∧
      (∀ x, (g x).reference = x.reference) ∧ d' = d.modifyTx id g) :
    ∀ r d', res = .ok (r, d') → Inv d' sq := by
  intro r d' he
  rcases hres r d' he with rfl | ⟨g, hid, href, rfl⟩
  · exact h
  · exact h.modifyTx id g hid href

theorem revertTransaction_inv (now : Time) (id : Nat) (w : Option Time) (d : Db) (sq : Seqs) (h : Inv d sq) :
    ∀ r d', revertTransaction now id w d = .ok (r, d') → Inv d' sq := by
  apply txMod_inv d sq h id
  intro r d' he
  unfold revertTransaction at he
  split at he
  · cases he
  · split at he
    · cases he; exact Or.inl rfl
    · cases he; refine Or.inr ⟨_, ?_, ?_, rfl⟩ <;> intro x <;> rfl

theorem updateTxMeta_inv (now : Time) (id : Nat) (m : Meta) (w : Option Time) (d : Db) (sq : Seqs) (h : Inv d sq) :
    ∀ r d', updateTxMeta now id m w d = .ok (r, d') → Inv d' sq := by
  apply txMod_inv d sq h id
  intro r d' he
  unfold updateTxMeta at he
  split at he
  · cases he
  · cases he
    refine Or.inr ⟨_, ?_, ?_, rfl⟩ <;> intro x <;> split <;> rfl

theorem deleteTxMeta_inv (now : Time) (id : Nat) (k : String) (w : Option Time) (d : Db) (sq : Seqs) (h : Inv d sq) :
    ∀ r d', deleteTxMeta now id k w d = .ok (r, d') → Inv d' sq := by
  apply txMod_inv d sq h id
  intro r d' he
  unfold deleteTxMeta at he
  split at he
  · cases he
  · cases he
    refine Or.inr ⟨_, ?_, ?_, rfl⟩ <;> intro x <;> split <;> rfl

/-- Every call of the write path preserves the invariant, also when it fails. -/
theorem exec_inv (now : Time) (c : Call) (d : Db) (sq : Seqs) (hf : c.Fresh) (h : Inv d sq) :
    (∀ sq' e, exec now c d sq = (sq', .error e) → Inv d sq') ∧
    (∀ sq' r d', exec now c d sq = (sq', .ok (r, d')) → Inv d' sq') := by
  cases c with
  | commitTransaction t => exact commitTransaction_inv now t d sq hf h
  | insertLog l => exact insertLog_inv now l d sq hf h
  | revertTransaction id w =>
    constructor
    · intro sq' e he
      simp only [exec, Prod.mk.injEq] at he
      obtain ⟨rfl, _⟩ := he
      exact h
    · intro sq' r d' he
      simp only [exec, Prod.mk.injEq] at he
      obtain ⟨rfl, he⟩ := he
      exact revertTransaction_inv now id w d sq h r d' he
  | updateTxMeta id m w =>
    constructor
    · intro sq' e he
      simp only [exec, Prod.mk.injEq] at he
      obtain ⟨rfl, _⟩ := he
      exact h
    · intro sq' r d' he
      simp only [exec, Prod.mk.injEq] at he
      obtain ⟨rfl, he⟩ := he
      exact updateTxMeta_inv now id m w d sq h r d' he
  | deleteTxMeta id k w =>
    constructor
    · intro sq' e he
      simp only [exec, Prod.mk.injEq] at he
      obtain ⟨rfl, _⟩ := he
      exact h
    · intro sq' r d' he
      simp only [exec, Prod.mk.injEq] at he
      obtain ⟨rfl, he⟩ := he
      exact deleteTxMeta_inv now id k w d sq h r d' he
  | readLogIK ik =>
    constructor
    · intro sq' e he; simp only [exec] at he; cases he
    · intro sq' r d' he; simp only [exec] at he; cases he; exact h
  | findSchema v =>
    constructor
    · intro sq' e he; simp only [exec] at he; cases he
    · intro sq' r d' he; simp only [exec] at he; cases he; exact h
  | findLatestSchemaVersion =>
    constructor
    · intro sq' e he; simp only [exec] at he; cases he
    · intro sq' r d' he; simp only [exec] at he; cases he; exact h
  | getAccount a =>
    constructor
    · intro sq' e he; simp only [exec] at he; cases he
    · intro sq' r d' he; simp only [exec] at he; cases he; exact h
  | getBalances q =>
    constructor
    · intro sq' e he; simp only [exec] at he; cases he
    · intro sq' r d' he; simp only [exec, getBalances] at he; cases he; exact h.congr rfl rfl
  | upsertAccounts rows =>
    constructor
    · intro sq' e he; simp only [exec] at he; cases he
    · intro sq' r d' he; simp only [exec, upsertAccounts] at he; cases he; exact h.congr rfl rfl
  | updateAccountsMeta m w =>
    constructor
    · intro sq' e he; simp only [exec] at he; cases he
    · intro sq' r d' he; simp only [exec, updateAccountsMeta] at he; cases he; exact h.congr rfl rfl
  | deleteAccountMeta a k =>
    constructor
    · intro sq' e he; simp only [exec] at he; cases he
    · intro sq' r d' he
      simp only [exec, deleteAccountMeta] at he
      cases he
      split
      · exact h.congr rfl rfl
      · exact h
  | insertSchema s =>
    constructor
    · intro sq' e he; simp only [exec] at he; cases he
    · intro sq' r d' he
      simp only [exec, insertSchema] at he
      split at he
      · cases he; exact h
      · cases he; exact h.congr rfl rfl

/-- A program of write-path calls preserves the invariant. -/
theorem run_inv {α : Type} (now : Time) (hn : String) (f : Faults) (p : Prog α) (hp : p.All Call.Fresh)
    (st : RunSt) (h : Inv st.db st.seq) :
    Inv (run now hn f p st).2.db (run now hn f p st).2.seq := by
  have := run_rel now hn f Call.Fresh (fun x y => Inv x.1 x.2 → Inv y.1 y.2) (fun _ hx => hx)
    (fun _ _ _ h1 h2 hx => h2 (h1 hx))
    (fun c d sq hc => ⟨fun sq' e he hx => (exec_inv now c d sq hc hx).1 sq' e he,
                       fun sq' r d' he hx => (exec_inv now c d sq hc hx).2 sq' r d' he⟩)
    p hp st
  exact this h

end Ledger.Ctrl
