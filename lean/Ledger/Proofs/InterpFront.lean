import Ledger.Proofs.InterpTop

/-!
The balance part of the two front ends: for statements of the fragment the machine's
`NeededBalances` resolve, contain every bounded source, never name `world`, and are all
fetched by the interpreter's balance preload.  For programs WITHOUT variable declarations
(and inputs without variables) this is all of `FrontAgree`, so the agreement theorem needs
no front-end hypothesis there (`frontAgree_novars`).
-/
namespace Ledger.Interp
open Ledger.Machine

theorem evalAccounts_append {env : Env} {x y : List Expr} {ax ay : List String}
    (hx : evalAccounts env x = .ok ax) (hy : evalAccounts env y = .ok ay) :
    evalAccounts env (x ++ y) = .ok (ax ++ ay) := by
  induction x generalizing ax with
  | nil => simp [evalAccounts] at hx; subst hx; simpa using hy
  | cons e es ih =>
    simp only [evalAccounts] at hx
    split at hx
    · cases hx
    · rename_i a ha
      split at hx
      · cases hx
      · rename_i r hr
        cases hx
        simp [evalAccounts, ha, ih hr]

theorem evalAccounts_mem {env : Env} : ∀ {es : List Expr} {accs : List String},
    evalAccounts env es = .ok accs → ∀ e ∈ es, ∃ a ∈ accs, evalAccount env e = .ok a := by
  intro es
  induction es with
  | nil => intro accs _ e he; cases he
  | cons x xs ih =>
    intro accs h e he
    simp only [evalAccounts] at h
    split at h
    · cases h
    · rename_i a ha
      split at h
      · cases h
      · rename_i r hr
        cases h
        rcases List.mem_cons.mp he with rfl | he
        · exact ⟨a, by simp, ha⟩
        · obtain ⟨a', h1, h2⟩ := ih hr e he
          exact ⟨a', by simp [h1], h2⟩

/-- What the balance front ends do with one source. -/
def SrcNeeded (env ienv : Env) (c : String) (es : List Expr) (r : Except String (List (String × String))) : Prop :=
  ∃ accs q, evalAccounts env es = .ok accs ∧ (∀ a ∈ accs, a ≠ "world") ∧ r = .ok q ∧
    ∀ a ∈ accs, (a, c) ∈ q

mutual
  theorem src_needed {env ienv : Env} (heq : EnvEq env ienv) (henv : EnvOK env) {c : String} :
      (s : Source) → srcWf env c s = true → SrcNeeded env ienv c s.neededAccts (srcQueries ienv c s)
    | .account e od, hwf => by
      simp only [srcWf, leafWf, Bool.and_eq_true] at hwf
      obtain ⟨hl, a, ha, _⟩ := okAcct_spec hwf.1
      have hia := evalAcct_agree heq henv hl ha
      have hwf2 := hwf.2
      by_cases hw : e.isWorld = true
      · rw [if_pos hw] at hwf2
        have he := isWorld_eq hw
        subst he
        have ha' : a = "world" := by
          have := evalAccount_world env; rw [ha] at this; cases this; rfl
        subst ha'
        cases od with
        | none =>
          exact ⟨[], [], by simp [Source.neededAccts, hw, evalAccounts], by simp,
            by simp [srcQueries, hia, batch], by simp⟩
        | upTo x => simp [odIsNone] at hwf2
        | unbounded => simp [odIsNone] at hwf2
      · rw [if_neg hw] at hwf2
        simp only [Bool.and_eq_true] at hwf2
        have hne : a ≠ "world" := by
          have := hwf2.1; simp only [notWorld, ha] at this; simpa using this
        have hwB : e.isWorld = false := by simpa using hw
        cases od with
        | none =>
          exact ⟨[a], [(a, c)], by simp [Source.neededAccts, hwB, evalAccounts, ha],
            by simpa using hne, by simp [srcQueries, hia, batch, hne], by simp⟩
        | upTo x =>
          exact ⟨[a], [(a, c)], by simp [Source.neededAccts, hwB, evalAccounts, ha],
            by simpa using hne, by simp [srcQueries, hia, batch, hne], by simp⟩
        | unbounded =>
          exact ⟨[], [], by simp [Source.neededAccts, evalAccounts], by simp,
            by simp [srcQueries], by simp⟩
    | .maxed m s, hwf => by
      simp only [srcWf, Bool.and_eq_true] at hwf
      simpa [Source.neededAccts, srcQueries] using src_needed heq henv s hwf.2
    | .inorder ss, hwf => by
      simp only [srcWf, Bool.and_eq_true] at hwf
      simpa [Source.neededAccts, srcQueries] using srcs_needed heq henv ss hwf.2
  theorem srcs_needed {env ienv : Env} (heq : EnvEq env ienv) (henv : EnvOK env) {c : String} :
      (ss : SourceList) → srcsWf env c ss = true →
      SrcNeeded env ienv c ss.neededAccts (srcsQueries ienv c ss)
    | .nil, _ => ⟨[], [], by simp [SourceList.neededAccts, evalAccounts], by simp,
        by simp [srcsQueries], by simp⟩
    | .cons s rest, hwf => by
      simp only [srcsWf, Bool.and_eq_true] at hwf
      obtain ⟨a1, q1, h1, w1, r1, m1⟩ := src_needed heq henv s hwf.1.1
      obtain ⟨a2, q2, h2, w2, r2, m2⟩ := srcs_needed heq henv rest hwf.1.2
      refine ⟨a1 ++ a2, q1 ++ q2, ?_, ?_, ?_, ?_⟩
      · simpa [SourceList.neededAccts] using evalAccounts_append h1 h2
      · intro a ha
        rcases List.mem_append.mp ha with ha | ha
        · exact w1 a ha
        · exact w2 a ha
      · simp [srcsQueries, r1, r2]
      · intro a ha
        rcases List.mem_append.mp ha with ha | ha
        · exact List.mem_append_left _ (m1 a ha)
        · exact List.mem_append_right _ (m2 a ha)
end

theorem allot_needed {env ienv : Env} (heq : EnvEq env ienv) (henv : EnvOK env) {c : String} :
    (items : AllotSrcList) → allotSrcWf env c items = true →
    SrcNeeded env ienv c items.neededAccts (allotQueries ienv c items)
  | .nil, _ => ⟨[], [], by simp [AllotSrcList.neededAccts, evalAccounts], by simp,
      by simp [allotQueries], by simp⟩
  | .cons _ s rest, hwf => by
    simp only [allotSrcWf, Bool.and_eq_true] at hwf
    obtain ⟨a1, q1, h1, w1, r1, m1⟩ := src_needed heq henv s hwf.1
    obtain ⟨a2, q2, h2, w2, r2, m2⟩ := allot_needed heq henv rest hwf.2
    refine ⟨a1 ++ a2, q1 ++ q2, ?_, ?_, ?_, ?_⟩
    · simpa [AllotSrcList.neededAccts] using evalAccounts_append h1 h2
    · intro a ha
      rcases List.mem_append.mp ha with ha | ha
      · exact w1 a ha
      · exact w2 a ha
    · simp [allotQueries, r1, r2]
    · intro a ha
      rcases List.mem_append.mp ha with ha | ha
      · exact List.mem_append_left _ (m1 a ha)
      · exact List.mem_append_right _ (m2 a ha)

theorem leavesIn_of {P : List (String × String)} {env : Env} {c : String} {es : List Expr}
    {accs : List String} (h : evalAccounts env es = .ok accs) (hP : ∀ a ∈ accs, (a, c) ∈ P) :
    leavesIn P env c es = true := by
  rw [leavesIn, List.all_eq_true]
  intro e he
  obtain ⟨a, ha1, ha2⟩ := evalAccounts_mem h e he
  simp [ha2, hP a ha1]

theorem stmtLeavesIn_mono {P Q : List (String × String)} {env : Env} {st : Stmt}
    (hPQ : ∀ p ∈ P, p ∈ Q) (h : stmtLeavesIn P env st = true) : stmtLeavesIn Q env st = true := by
  have hl : ∀ c es, leavesIn P env c es = true → leavesIn Q env c es = true := by
    intro c es hh
    rw [leavesIn, List.all_eq_true] at hh ⊢
    intro e he
    have := hh e he
    split at this
    · rename_i a _
      simp only [List.contains_iff_mem] at this ⊢
      exact hPQ _ this
    · cases this
  cases st with
  | send mon src dst =>
    cases src with
    | src s =>
      simp only [stmtLeavesIn] at h ⊢
      split at h
      · exact hl _ _ h
      · cases h
    | allot items =>
      simp only [stmtLeavesIn] at h ⊢
      split at h
      · exact hl _ _ h
      · cases h
  | sendAll ae src dst =>
    cases src with
    | src s =>
      simp only [stmtLeavesIn] at h ⊢
      split at h
      · exact hl _ _ h
      · cases h
    | allot items => simp [stmtLeavesIn]
  | _ => simp [stmtLeavesIn]

/-- The balance front ends on a list of statements of the fragment. -/
theorem stmts_needed {env ienv : Env} (heq : EnvEq env ienv) (henv : EnvOK env) :
    ∀ (ss : List Stmt), (∀ s ∈ ss, stmtWf env s = true) →
    ∃ needed queried, neededPairs env ss = .ok needed ∧ (∀ p ∈ needed, p.1 ≠ "world") ∧
      preload ienv ss = .ok queried ∧ (∀ p ∈ needed, p ∈ queried) ∧
      ∀ s ∈ ss, stmtLeavesIn needed env s = true := by
  intro ss
  induction ss with
  | nil => intro _; exact ⟨[], [], rfl, by simp, rfl, by simp, by simp⟩
  | cons st rest ih =>
    intro hall
    obtain ⟨n2, q2, r1, r2, r3, r4, r5⟩ := ih (fun s hs => hall s (by simp [hs]))
    have hwf := hall st (by simp)
    -- the statement itself
    have hst : ∃ h q, (neededPairs env (st :: rest) = .ok (h ++ n2)) ∧ (∀ p ∈ h, p.1 ≠ "world") ∧
        stmtQueries ienv st = .ok q ∧ (∀ p ∈ h, p ∈ q) ∧ stmtLeavesIn h env st = true := by
      cases st with
      | print e => simp [stmtWf] at hwf
      | save m a => simp [stmtWf] at hwf
      | saveAll m a => simp [stmtWf] at hwf
      | fail => simp [stmtWf] at hwf
      | setTxMeta k e =>
        exact ⟨[], [], by simp [neededPairs, r1], by simp, by simp [stmtQueries], by simp,
          by simp [stmtLeavesIn]⟩
      | setAccountMeta acc k e =>
        exact ⟨[], [], by simp [neededPairs, r1], by simp, by simp [stmtQueries], by simp,
          by simp [stmtLeavesIn]⟩
      | send mon src dst =>
        cases src with
        | src s =>
          simp only [stmtWf, Bool.and_eq_true] at hwf
          obtain ⟨hlm, hwf2⟩ := hwf
          split at hwf2
          · rename_i c amt hmon
            simp only [Bool.and_eq_true] at hwf2
            obtain ⟨accs, q, h1, w1, q1, m1⟩ := src_needed heq henv s hwf2.1.2
            have hla := leftmostAsset_of_monetary hmon
            have him := evalMon_agree heq henv hlm hmon
            refine ⟨accs.map (fun a => (a, c)), q, ?_, ?_, ?_, ?_, ?_⟩
            · simp [neededPairs, hla, VSource.neededAccts, h1, r1]
            · intro p hp; obtain ⟨a, ha, rfl⟩ := List.mem_map.mp hp; exact w1 a ha
            · simp [stmtQueries, him, vsrcQueries, q1]
            · intro p hp; obtain ⟨a, ha, rfl⟩ := List.mem_map.mp hp; exact m1 a ha
            · simp only [stmtLeavesIn, hmon]
              exact leavesIn_of h1 (fun a ha => List.mem_map.mpr ⟨a, ha, rfl⟩)
          · cases hwf2
        | allot items =>
          simp only [stmtWf, Bool.and_eq_true] at hwf
          obtain ⟨hlm, hwf2⟩ := hwf
          split at hwf2
          · rename_i c amt hmon
            simp only [Bool.and_eq_true] at hwf2
            obtain ⟨accs, q, h1, w1, q1, m1⟩ := allot_needed heq henv items hwf2.1.2
            have hla := leftmostAsset_of_monetary hmon
            have him := evalMon_agree heq henv hlm hmon
            refine ⟨accs.map (fun a => (a, c)), q, ?_, ?_, ?_, ?_, ?_⟩
            · simp [neededPairs, hla, VSource.neededAccts, h1, r1]
            · intro p hp; obtain ⟨a, ha, rfl⟩ := List.mem_map.mp hp; exact w1 a ha
            · simp [stmtQueries, him, vsrcQueries, q1]
            · intro p hp; obtain ⟨a, ha, rfl⟩ := List.mem_map.mp hp; exact m1 a ha
            · simp only [stmtLeavesIn, hmon]
              exact leavesIn_of h1 (fun a ha => List.mem_map.mpr ⟨a, ha, rfl⟩)
          · cases hwf2
      | sendAll ae src dst =>
        cases src with
        | src s =>
          simp only [stmtWf, Bool.and_eq_true] at hwf
          obtain ⟨hlae, hwf2⟩ := hwf
          split at hwf2
          · rename_i c hc
            simp only [Bool.and_eq_true] at hwf2
            obtain ⟨accs, q, h1, w1, q1, m1⟩ := src_needed heq henv s hwf2.1.1.2
            have hia := evalAsset_agree heq henv hlae hc
            refine ⟨accs.map (fun a => (a, c)), q, ?_, ?_, ?_, ?_, ?_⟩
            · simp [neededPairs, hc, VSource.neededAccts, h1, r1]
            · intro p hp; obtain ⟨a, ha, rfl⟩ := List.mem_map.mp hp; exact w1 a ha
            · simp [stmtQueries, hia, vsrcQueries, q1]
            · intro p hp; obtain ⟨a, ha, rfl⟩ := List.mem_map.mp hp; exact m1 a ha
            · simp only [stmtLeavesIn, hc]
              exact leavesIn_of h1 (fun a ha => List.mem_map.mpr ⟨a, ha, rfl⟩)
          · cases hwf2
        | allot items => simp [stmtWf] at hwf
    obtain ⟨h, q, e1, e2, e3, e4, e5⟩ := hst
    refine ⟨h ++ n2, q ++ q2, e1, ?_, by simp [preload, e3, r3], ?_, ?_⟩
    · intro p hp
      rcases List.mem_append.mp hp with hp | hp
      · exact e2 p hp
      · exact r2 p hp
    · intro p hp
      rcases List.mem_append.mp hp with hp | hp
      · exact List.mem_append_left _ (e4 p hp)
      · exact List.mem_append_right _ (r4 p hp)
    · intro s hs
      rcases List.mem_cons.mp hs with rfl | hs
      · exact stmtLeavesIn_mono (fun p hp => List.mem_append_left _ hp) e5
      · exact stmtLeavesIn_mono (fun p hp => List.mem_append_right _ hp) (r5 s hs)

/-- The machine's front end on a program without variables. -/
theorem prepare_novars (s : Script) (inp : Input) (hv : s.vars = []) (hi : inp.vars = [])
    {needed : List (String × String)} (r1 : neededPairs [] s.stmts = .ok needed)
    (hnw : needed.any (fun p => p.1 = "world") = false) :
    ∃ bal, prepare Cfg.fixed s inp = .ok ([], bal, needed) := by
  refine ⟨{ hasAcct := fun a => needed.any (fun p => p.1 = a),
            get := fun a c => if needed.any (fun p => p.1 = a ∧ p.2 = c) then some (inp.balance a c) else none }, ?_⟩
  simp [prepare, setVars, hv, hi, parsePlainVars, Machine.resolveVars, initBalances, r1, hnw, Cfg.fixed]

/-- Without variables the two front ends agree on every program of the fragment. -/
theorem frontAgree_novars (s : Script) (inp : Input) (hv : s.vars = []) (hi : inp.vars = [])
    (hwf : ∀ st ∈ s.stmts, stmtWf [] st = true) : FrontAgree s inp = true := by
  have heq : EnvEq [] [] := fun _ => rfl
  have henv : EnvOK [] := by intro x v h; simp at h
  obtain ⟨needed, queried, r1, r2, r3, r4, r5⟩ := stmts_needed heq henv s.stmts hwf
  have hnw : needed.any (fun p => p.1 = "world") = false := by
    rw [Bool.eq_false_iff]
    intro h
    obtain ⟨p, hp, hw⟩ := List.any_eq_true.mp h
    exact r2 p hp (by simpa using hw)
  obtain ⟨bal, hprep⟩ := prepare_novars s inp hv hi r1 hnw
  have hun : s.stmts.any Stmt.unsupported = false := by
    rw [Bool.eq_false_iff]
    intro h
    obtain ⟨st, hst, hu⟩ := List.any_eq_true.mp h
    have := hwf st hst
    cases st <;> simp_all [Stmt.unsupported, stmtWf]
  have hfront : front s inp = .ok ([], queried) := by
    simp [front, hun, hv, Interp.resolveVars, r3]
  unfold FrontAgree
  rw [hprep, hfront]
  simp only [hv, List.map_nil, envAgree, List.all_nil, Bool.and_self, Bool.true_and, Bool.and_eq_true,
    List.all_eq_true]
  refine ⟨?_, ?_⟩
  · intro p hp
    simp only [Bool.or_eq_true, decide_eq_true_eq, List.contains_iff_mem]
    exact Or.inr (r4 p hp)
  · intro st hst
    simp [hwf st hst, r5 st hst]

/-- The agreement theorem without front-end hypothesis, for programs without variables:
    the machine compiles the program and its statements are statements of F2. -/
theorem agree_F2_novars (s : Script) (inp : Input) (hv : s.vars = []) (hi : inp.vars = [])
    (htc : compiles s = true) (hwf : ∀ st ∈ s.stmts, stmtWf [] st = true) :
    Agree (sem Cfg.fixed s inp) (Ledger.Interp.run s inp) := by
  apply agree_F2
  have hfa := frontAgree_novars s inp hv hi hwf
  have hprep : ∃ bal pairs, prepare Cfg.fixed s inp = .ok ([], bal, pairs) := by
    have heq : EnvEq [] [] := fun _ => rfl
    have henv : EnvOK [] := by intro x v h; simp at h
    obtain ⟨needed, queried, r1, r2, _, _, _⟩ := stmts_needed heq henv s.stmts hwf
    have hnw : needed.any (fun p => p.1 = "world") = false := by
      rw [Bool.eq_false_iff]
      intro h
      obtain ⟨p, hp, hw⟩ := List.any_eq_true.mp h
      exact r2 p hp (by simpa using hw)
    obtain ⟨bal, hb⟩ := prepare_novars s inp hv hi r1 hnw
    exact ⟨bal, needed, hb⟩
  obtain ⟨bal, pairs, hp⟩ := hprep
  simp only [InF2, whyNotF2, decide_eq_true_eq]
  unfold compiles at htc
  split at htc
  · rename_i ds hds
    simp only [hds, hfa, Bool.not_true, Bool.false_eq_true, if_false, hp]
    have : s.stmts.all (stmtWf []) = true := List.all_eq_true.mpr hwf
    simp [this]
  · cases htc

end Ledger.Interp
