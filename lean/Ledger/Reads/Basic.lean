import Ledger.Spec.Hist

/-!
`Ledger.Reads`, part 1 (core-only, executable): what the read path can observe of a ledger
besides the Spec's folds — the columns the SQL store keeps next to them, written as folds over
the *same journal* (`Spec.Ledger.events`):

* `acctRowOf`  — the `accounts` row of an address as `UpsertAccounts` / `DeleteAccountMetadata`
                 maintain it, including `updated_at` and the revisions the
                 `insert_/update_account_metadata_history` triggers append to `accounts_metadata`;
* `txRowOf`    — `updated_at` and the `transactions_metadata` revisions of a transaction;
* `Log` records — one per successful write;
* `RState.step` — one write of the REAL controller (outcome order as `createTransaction`,
                 `revertTransaction`, `delete…Metadata` produce them) on top of `Spec.World.step`.

Hand-written from reading `accounts.go`, `transactions.go`, migration 11 (+44) and
`controller_default.go`; tied to the code by the `vrreads` workloads only (tested, not proved).
Feature flags only change what the *reads* may use; the writes below are feature independent
(the history tables are only populated when the feature is SYNC, and only read then).
-/
namespace Ledger.Reads
open Ledger.Base Ledger.Core Ledger.Spec

/-- The feature values the read path looks at. -/
structure Features where
  /-- `MOVES_HISTORY = ON` -/
  moves : Bool := true
  /-- `MOVES_HISTORY_POST_COMMIT_EFFECTIVE_VOLUMES = SYNC` -/
  pcev : Bool := true
  /-- `ACCOUNT_METADATA_HISTORY = SYNC` -/
  acctMetaHist : Bool := true
  /-- `TRANSACTION_METADATA_HISTORY = SYNC` -/
  txMetaHist : Bool := true
  deriving DecidableEq, Repr, Inhabited

/-- A revision row of `accounts_metadata` / `transactions_metadata`: `(date, metadata)`; the
    position in the list is the revision number. -/
abbrev Revision := Int × Metadata

/-- The `accounts` row of one address + its metadata revisions. -/
structure AcctRow where
  firstUsage : Int
  insertionDate : Int
  updatedAt : Int
  metadata : Metadata
  revisions : List Revision
  deriving DecidableEq, Repr, Inhabited

/-- `UpsertAccounts` on one row of the batch: `fu = none` is the `NULL` first usage of a
    metadata-only upsert; `date` is `COALESCE(d.updated_at, transaction_date())`. -/
def upsertRow (cur : Option AcctRow) (fu : Option Int) (date : Int) (md : Metadata) : AcctRow :=
  match cur with
  | none =>
    -- `default_metadata || metadata` with no chart defaults: `{} || md`
    { firstUsage := fu.getD date, insertionDate := date, updatedAt := date, metadata := metaMerge [] md,
      revisions := [(date, metaMerge [] md)] }
  | some r =>
    let lower := match fu with | some f => decide (f < r.firstUsage) | none => false
    if lower || !metaContains r.metadata md then
      let m' := metaMerge r.metadata md
      { r with firstUsage := (match fu with | some f => if f < r.firstUsage then f else r.firstUsage | none => r.firstUsage),
               updatedAt := date, metadata := m', revisions := r.revisions ++ [(date, m')] }
    else r

/-- Which `DeleteAccountMetadata`:
    `current` — the code in the tree (fix 2c0d233): `UPDATE accounts SET metadata = metadata - key,
    updated_at = transaction_date()`, so the history trigger stamps the new revision with the date
    of the delete;
    `preFix` — before it: `updated_at` was not touched, so the trigger stamped the post-delete
    revision with the date of the PREVIOUS write (and `updated_at` never reflected deletes). -/
inductive DeleteVariant where
  | preFix
  | current
  deriving DecidableEq, Repr, Inhabited

/-- One journal event seen by the `accounts` row of `a`. -/
def acctStepV (dv : DeleteVariant) (a : String) (cur : Option AcctRow) : Event → Option AcctRow
  | .committed t am up =>
    if up && (t.involves a || am.contains a) then
      some (upsertRow cur (some t.timestamp) t.insertedAt ((am.get? a).getD []))
    else cur
  | .metaWrite { target := .account a', date := d, change := .save md } =>
    if a' = a then some (upsertRow cur none d md) else cur
  | .metaWrite { target := .account a', date := d, change := .delete key } =>
    if a' = a then
      match cur with
      | none => none
      | some r =>
        let date := match dv with | .current => d | .preFix => r.updatedAt
        some { r with metadata := r.metadata.erase key, updatedAt := date,
                      revisions := r.revisions ++ [(date, r.metadata.erase key)] }
    else cur
  | _ => cur

def acctRowOfV (dv : DeleteVariant) (l : Ledger) (a : String) : Option AcctRow :=
  l.events.foldl (acctStepV dv a) none

/-- The code in the tree. -/
def acctStep (a : String) (cur : Option AcctRow) (e : Event) : Option AcctRow := acctStepV .current a cur e

def acctRowOf (l : Ledger) (a : String) : Option AcctRow := acctRowOfV .current l a

/-- `updated_at` and the metadata revisions of a transaction. -/
structure TxRow where
  updatedAt : Int
  metadata : Metadata
  revisions : List Revision
  deriving DecidableEq, Repr, Inhabited

def txStep (id : Nat) (cur : Option TxRow) : Event → Option TxRow
  | .committed t _ _ =>
    if t.id = id then
      -- `insert_transaction_metadata_history` stamps revision 1 with the transaction's *timestamp*
      some { updatedAt := t.insertedAt, metadata := metaMerge [] t.metadata,
             revisions := [(t.timestamp, metaMerge [] t.metadata)] }
    else cur
  | .reverted id' d =>
    if id' = id then
      cur.map fun r => { r with updatedAt := d, revisions := r.revisions ++ [(d, r.metadata)] }
    else cur
  | .metaWrite { target := .tx id', date := d, change := .save md } =>
    if id' = id then
      cur.map fun r =>
        if metaContains r.metadata md then r
        else { updatedAt := d, metadata := metaMerge r.metadata md,
               revisions := r.revisions ++ [(d, metaMerge r.metadata md)] }
    else cur
  | .metaWrite { target := .tx id', date := d, change := .delete key } =>
    if id' = id then
      cur.map fun r =>
        if (r.metadata.get? key).isNone then r
        else { updatedAt := d, metadata := r.metadata.erase key,
               revisions := r.revisions ++ [(d, r.metadata.erase key)] }
    else cur
  | _ => cur

def txRowOf (l : Ledger) (id : Nat) : Option TxRow := l.events.foldl (txStep id) none

/-- `select … where date <= t order by revision desc limit 1` (as `distinct on` / `first_value`
    render it): the metadata of the highest revision dated at or before `t`; `{}` when none
    (`coalesce(…, '{}')`). -/
def revisionAt (revs : List Revision) (t : Int) : Metadata :=
  match (revs.filter fun r => decide (r.1 ≤ t)).getLast? with
  | some r => r.2
  | none => []

/-! ### logs -/

structure LogRec where
  id : Nat
  type : String
  date : Int
  deriving DecidableEq, Repr, Inhabited

/-! ### the controller's writes -/

/-- A write step of a `vrreads` case: a Spec operation, or the insertion of a schema (which only
    adds a log). -/
inductive ROp where
  | spec (op : Op)
  | schema (at_ : Int)
  deriving Repr, Inhabited

structure RState where
  world : World := {}
  logs : List LogRec := []
  deriving Repr, Inhabited

def RState.ledger (s : RState) : Ledger := s.world.ledger
def RState.txs (s : RState) : List TxRec := s.world.ledger.txs

def opDate : Op → Int
  | .tx a _ _ _ _ _ _ => a
  | .revert a _ _ _ _ => a
  | .saveMeta a _ _ => a
  | .deleteMeta a _ _ => a

def opLogType : Op → String
  | .tx .. => "NEW_TRANSACTION"
  | .revert .. => "REVERTED_TRANSACTION"
  | .saveMeta .. => "SET_METADATA"
  | .deleteMeta .. => "DELETE_METADATA"

/-- Outcome of one write as the controller produces it:
    * `createTransaction` runs the script (funds rule) *before* `CommitTransaction` can hit the
      reference index — `Spec.World.step` checks the reference first;
    * `deleteTransactionMetadata` answers not-found when the key is absent (`modified = false`). -/
def specStep (w : World) (op : Op) : World × Outcome :=
  match op with
  | .tx _ _ ps _ _ _ force =>
    if !ps.isEmpty && !force && !fundsOk (balanceOf w.ledger.txs) ps [] then (w, .insufficientFunds)
    else w.step op
  | .deleteMeta _ (.tx id) key =>
    match findTx w.ledger.txs id with
    | none => (w, .notFound)
    | some _ =>
      if ((metaAt w.ledger (.tx id) none).get? key).isNone then (w, .notFound) else w.step op
  | _ => w.step op

def RState.addLog (s : RState) (type : String) (date : Int) : RState :=
  { s with logs := s.logs ++ [{ id := s.logs.length + 1, type, date }] }

def RState.step (s : RState) : ROp → RState × Outcome
  | .spec op =>
    let (w, r) := specStep s.world op
    if r = .ok then (({ s with world := w }).addLog (opLogType op) (opDate op), r)
    else ({ s with world := w }, r)
  | .schema d => (s.addLog "INSERTED_SCHEMA" d, .ok)

end Ledger.Reads
