import Ledger.Reads.Select

/-!
`Ledger.Reads`, part 4 (core-only): `RunQuery` on top of builder-query's model
(`Ledger.Query.runQuery` = `ResolveFilterTemplate` + `QueryTemplateParams.Overwrite` +
`templateParamsToQuery`), with the list endpoint of `Ledger.Reads` as the `Paginate` it ends in.
-/
namespace Ledger.Reads
open Ledger.Query

/-- A list call, as every list endpoint of the read API receives it. -/
structure ListQuery where
  pit : Option Int := none
  oot : Option Int := none
  insertionDate : Bool := false
  groupLvl : Nat := 0
  filter : Option Filter := none
  expand : List String := []
  sort : String := ""
  order : Option Order := none
  pageSize : Nat := 0
  deriving Repr, Inhabited

/-- The list call an `InitialPaginatedQuery` denotes. -/
def ListQuery.ofInitial (q : InitialQuery ResourceQuery) : ListQuery :=
  { pit := q.options.pit, oot := q.options.oot, insertionDate := q.options.opts.useInsertionDate,
    groupLvl := q.options.opts.groupLvl.toNat, filter := q.options.builder, expand := q.options.expand,
    sort := q.column, order := q.order, pageSize := q.pageSize }

/-- `paginate.QueryDefaultPageSize` / the API's maximum page size, as the harness configures them. -/
def rqDefaultPageSize : Nat := 15
def rqMaxPageSize : Nat := 100

/-- `DefaultController.RunQuery` without a cursor, ending in the list endpoint `paginate`
    (resource, list call). -/
def runQueryVia {R : Type} (paginate : String → ListQuery → R) (t : StoredTemplate) (vars : Vars)
    (params : Option ParamsJson) : Except Query.RErr (String × R) :=
  runQuery parseRFC3339 (fun (_ : Unit) => (none : Option Empty))
    (fun res x => match x with
      | .inr q => paginate res (ListQuery.ofInitial q)
      | .inl d => nomatch d)
    rqDefaultPageSize rqMaxPageSize t { params, vars, cursor := none }

end Ledger.Reads
