import Ledger.Reads.Basic

/-!
`Ledger.Reads`, part 2 (core-only, executable): the read API as functions of the Spec journal.

Every value below is one of the Spec's folds (`volumesOf`, `volumesAt`, `firstUsage`,
`insertionDate`, `metaAt`, `txAt`) or one of the column folds of `Reads/Basic.lean`; what this
file adds is *which rows exist* in each listing and *which fold* each column of the answer is,
per point in time, date mode and feature set — i.e. the meaning of
`resource_{accounts,transactions,volumes,aggregated_balances,logs}.go`:`BuildDataset` / `Expand`
/ `Project`. Errors the real code answers (missing feature, invalid query) are explicit.
-/
namespace Ledger.Reads
open Ledger.Base Ledger.Core Ledger.Spec

inductive RErr where
  /-- `postgres.ErrNotFound` of `GetOne` -/
  | notFound
  /-- `ErrMissingFeature` -/
  | missingFeature
  /-- `ErrInvalidQuery` -/
  | invalidQuery
  /-- SQLSTATE 21000: a scalar subquery returned more than one row -/
  | cardinality
  deriving DecidableEq, Repr, Inhabited

def RErr.toString : RErr → String
  | .notFound => "not-found" | .missingFeature => "missing-feature" | .invalidQuery => "invalid-query"
  | .cardinality => "pg:21000"

/-! ### which (account, asset) pairs have a row -/

/-- All (account, asset) pairs a list of transactions touches (sorted, deduplicated) — the rows
    of `accounts_volumes`, resp. the groups of `moves` restricted to those transactions. -/
def touchedKeys (txs : List TxRec) : List Key :=
  (txs.foldl (fun (m : Map Key Unit) t =>
    t.postings.foldl (fun m p => (m.insert p.srcKey ()).insert p.dstKey ()) m) []).keys

def pitWindow (pit : Option Int) : Window := { pit := pit }

/-- The volumes table a read works on:
    * no window: `accounts_volumes` (every pair ever touched, value = `volumesOf`);
    * window: `moves` restricted to the window in the given date mode, grouped by pair
      (`sum(case when …)`, `first_value(post_commit_[effective_]volumes)`): pairs touched by a
      transaction of the window, value = `volumesAt`. -/
def volumesTable (txs : List TxRec) (w : Window) (mode : DateMode) : PCV :=
  (touchedKeys (txsIn txs w mode)).map fun k => (k, volumesAt txs w mode k)

def currentVolumes (txs : List TxRec) : PCV := (touchedKeys txs).map fun k => (k, volumesOf txs k)

/-- The rows of an account in a volumes table, by asset. -/
def ofAccount (t : PCV) (a : String) : List (String × Volumes) :=
  (t.filter fun e => e.1.1 == a).map fun e => (e.1.2, e.2)

/-! ### accounts -/

structure AccountView where
  address : String
  metadata : Metadata
  firstUsage : Int
  insertionDate : Int
  updatedAt : Int
  /-- `none` = not expanded, or expanded and no row (the left join yields NULL → omitted) -/
  volumes : Option (List (String × Volumes)) := none
  effectiveVolumes : Option (List (String × Volumes)) := none
  deriving DecidableEq, Repr, Inhabited

/-- Metadata of an account as a read at `pit` sees it: the history when the feature is on and a
    point in time is given, the current metadata otherwise. -/
def accountMetaReadV (dv : DeleteVariant) (feat : Features) (l : Ledger) (a : String) (pit : Option Int) : Metadata :=
  match pit with
  | some t =>
    if feat.acctMetaHist then
      match acctRowOfV dv l a with
      | some r => revisionAt r.revisions t
      | none => []
    else metaAt l (.account a) none
  | none => metaAt l (.account a) none

def accountMetaRead (feat : Features) (l : Ledger) (a : String) (pit : Option Int) : Metadata :=
  accountMetaReadV .current feat l a pit

/-- `accountsResourceHandler.Expand`, checks only (the expansions are requested in sorted order:
    `effectiveVolumes` before `volumes`). -/
def accountExpandCheck (feat : Features) (usePit : Bool) : List String → Except RErr Unit
  | [] => .ok ()
  | e :: es =>
    if e == "volumes" && !feat.moves then .error .invalidQuery
    else if e == "effectiveVolumes" && !feat.pcev then .error .invalidQuery
    else if usePit && !feat.moves then .error .missingFeature
    else accountExpandCheck feat usePit es

def sortStrings (l : List String) : List String := l.mergeSort (fun a b => decide (a ≤ b))

def optList {α : Type} (l : List α) : Option (List α) := if l.isEmpty then none else some l

/-- The accounts dataset at `pit` (no filter): the accounts whose first usage is at or before
    `pit`, with the metadata as read at `pit`; sorted by address. -/
def accountsAt (feat : Features) (l : Ledger) (pit : Option Int) : List AccountView :=
  l.accounts.filterMap fun a =>
    match acctRowOf l a, firstUsage l a, insertionDate l a with
    | some r, some fu, some ins =>
      if (match pit with | some t => decide (fu ≤ t) | none => true) then
        some { address := a, metadata := accountMetaRead feat l a pit, firstUsage := fu,
               insertionDate := ins, updatedAt := r.updatedAt }
      else none
    | _, _, _ => none

/-- C18's documented first usage: the earliest effective timestamp among the committed
    transactions involving the account — *including* the transactions a revert commits, which the
    code does not pass through `upsertTransactionAccounts` — or the date of the metadata write
    that created it. -/
def docDatesStep (a : String) (cur : Option (Int × Int)) : Event → Option (Int × Int)
  | .committed t am up => accountDatesStep a cur (.committed t am (up || cur.isSome))
  | e => accountDatesStep a cur e

def docFirstUsage (l : Ledger) (a : String) : Option Int :=
  (l.events.foldl (docDatesStep a) none).map (·.1)

/-- Attach the requested expansions (`expand` already checked). -/
def expandAccount (l : Ledger) (pit : Option Int) (expand : List String) (v : AccountView) : AccountView :=
  let txs := l.txs
  let vols := if expand.contains "volumes" then
      optList (ofAccount (match pit with
        | some _ => volumesTable txs (pitWindow pit) .insertion
        | none => currentVolumes txs) v.address)
    else none
  let eff := if expand.contains "effectiveVolumes" then
      optList (ofAccount (match pit with
        | some _ => volumesTable txs (pitWindow pit) .effective
        | none => currentVolumes txs) v.address)
    else none
  { v with volumes := vols, effectiveVolumes := eff }

/-! ### transactions -/

structure TxView where
  id : Nat
  postings : List Posting
  timestamp : Int
  insertedAt : Int
  updatedAt : Int
  reference : String
  metadata : Metadata
  revertedAt : Option Int
  /-- `post_commit_volumes` (expand `volumes`) -/
  pcv : Option PCV := none
  /-- expand `effectiveVolumes` -/
  pcev : Option PCV := none
  deriving DecidableEq, Repr, Inhabited

/-- Metadata of a transaction as a read at `pit` sees it. -/
def txMetaRead (feat : Features) (l : Ledger) (id : Nat) (pit : Option Int) : Metadata :=
  match pit with
  | some t =>
    if feat.txMetaHist then
      match txRowOf l id with
      | some r => revisionAt r.revisions t
      | none => []
    else metaAt l (.tx id) none
  | none => metaAt l (.tx id) none

/-- C17's documented metadata of a transaction at `t`: the metadata it was committed with, then the
    saves / deletes dated at or before `t` (a transaction that is visible at `t` — timestamp ≤ t —
    shows its initial metadata even when it was inserted later: the read is in effective time). -/
def txMetaDocStep (id : Nat) (t : Option Int) (m : Metadata) : Event → Metadata
  | .committed tx _ _ => if tx.id = id then applyChange m (.save tx.metadata) else m
  | .metaWrite e =>
    let inTime := match t with | none => true | some t => decide (e.date ≤ t)
    if e.target = .tx id && inTime then applyChange m e.change else m
  | .reverted _ _ => m

def txMetaDoc (l : Ledger) (id : Nat) (t : Option Int) : Metadata :=
  l.events.foldl (txMetaDocStep id t) []

/-- `reverted_at` as the dataset shows it: masked when the revert is after `pit`. -/
def maskReverted (pit : Option Int) (r : Option Int) : Option Int :=
  match pit, r with
  | some t, some d => if d ≤ t then some d else none
  | _, r => r

/-- The transactions dataset at `pit` (no filter), in id order. -/
def transactionsAt (feat : Features) (l : Ledger) (pit : Option Int) : List TxView :=
  l.txs.filterMap fun t =>
    if (match pit with | some p => decide (t.timestamp ≤ p) | none => true) then
      some { id := t.id, postings := t.postings, timestamp := t.timestamp, insertedAt := t.insertedAt,
             updatedAt := (match txRowOf l t.id with | some r => r.updatedAt | none => t.insertedAt),
             reference := t.reference, metadata := txMetaRead feat l t.id pit,
             revertedAt := maskReverted pit t.revertedAt }
    else none

def txTouched (ps : List Posting) : List Key := touchedKeys [{ id := 0, postings := ps, timestamp := 0, insertedAt := 0 }]

/-- `transactions.post_commit_volumes`: the volumes of the touched pairs right after the
    transaction, in commit order (ids grow with commits in a sequential history). -/
def txPCV (txs : List TxRec) (t : TxView) : PCV :=
  (txTouched t.postings).map fun k => (k, volumesOf (txs.filter fun t' => decide (t'.id ≤ t.id)) k)

/-- The `effectiveVolumes` expansion: effective volumes of the last move of the transaction per
    touched pair = fold of the transactions that are not after it in (timestamp, commit) order. -/
def txPCEV (txs : List TxRec) (t : TxView) : PCV :=
  (txTouched t.postings).map fun k =>
    (k, volumesOf (txs.filter fun t' =>
      decide (t'.timestamp < t.timestamp) || (decide (t'.timestamp = t.timestamp) && decide (t'.id ≤ t.id))) k)

/-- `transactionsResourceHandler.Expand` checks. -/
def txExpandCheck (feat : Features) : List String → Except RErr Unit
  | [] => .ok ()
  | e :: es =>
    if e == "effectiveVolumes" && !feat.moves then .error .missingFeature
    else if e == "effectiveVolumes" && !feat.pcev then .error .missingFeature
    else txExpandCheck feat es

def expandTx (l : Ledger) (expand : List String) (v : TxView) : TxView :=
  { v with pcv := if expand.contains "volumes" then some (txPCV l.txs v) else none,
           pcev := if expand.contains "effectiveVolumes" then some (txPCEV l.txs v) else none }

/-! ### volumes listing and aggregated balances -/

structure VolRow where
  account : String
  asset : String
  volumes : Volumes
  deriving DecidableEq, Repr, Inhabited

def dateMode (useInsertionDate : Bool) : DateMode := if useInsertionDate then .insertion else .effective

/-- The volumes dataset (`volumesResourceHandler.BuildDataset`): no PIT/OOT → `accounts_volumes`;
    otherwise the moves of the window (needs `MOVES_HISTORY`). Sorted by (account, asset). -/
def volumesDataset (feat : Features) (l : Ledger) (pit oot : Option Int) (useInsertionDate : Bool) :
    Except RErr (List VolRow) :=
  let rows (t : PCV) := t.map fun e => ({ account := e.1.1, asset := e.1.2, volumes := e.2 } : VolRow)
  if pit.isNone && oot.isNone then .ok (rows (currentVolumes l.txs))
  else if !feat.moves then .error .missingFeature
  else .ok (rows (volumesTable l.txs { oot := oot, pit := pit } (dateMode useInsertionDate)))

def splitAddr (a : String) : List String := a.splitOn ":"

/-- `array_to_string((string_to_array(account, ':'))[1:LEAST(array_length(…), lvl)], ':')`. -/
def groupPrefix (lvl : Nat) (a : String) : String := ":".intercalate ((splitAddr a).take lvl)

/-- `volumesResourceHandler.Project` with `GroupLvl > 0`: sum per (prefix, asset). -/
def groupRows (lvl : Nat) (rows : List VolRow) : List VolRow :=
  if lvl = 0 then rows else
  (rows.foldl (fun (m : PCV) r => m.insertWith Volumes.add (groupPrefix lvl r.account, r.asset) r.volumes) []).map
    fun e => { account := e.1.1, asset := e.1.2, volumes := e.2 }

/-- The aggregated-balances dataset: with a point in time, the post-commit volumes
    (`UseInsertionDate`) or post-commit *effective* volumes of the latest move at or before it;
    otherwise `accounts_volumes`. -/
def aggregatedDataset (feat : Features) (l : Ledger) (pit : Option Int) (useInsertionDate : Bool) :
    Except RErr (List VolRow) :=
  let rows (t : PCV) := t.map fun e => ({ account := e.1.1, asset := e.1.2, volumes := e.2 } : VolRow)
  match pit with
  | some _ =>
    if !feat.moves then .error .missingFeature
    else if !useInsertionDate && !feat.pcev then .error .missingFeature
    else .ok (rows (volumesTable l.txs (pitWindow pit) (dateMode useInsertionDate)))
  | none => .ok (rows (currentVolumes l.txs))

/-- `Project` of the aggregated balances: Σ inputs, Σ outputs per asset (sorted by asset). -/
def aggregate (rows : List VolRow) : List (String × Volumes) :=
  rows.foldl (fun (m : Map String Volumes) r => m.insertWith Volumes.add r.asset r.volumes) []

end Ledger.Reads
