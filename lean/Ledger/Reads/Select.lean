import Ledger.Reads.Views
import Ledger.Query.RunQuery

/-!
`Ledger.Reads`, part 3 (core-only, executable): filters, ordering and pagination of the
listings, on top of builder-query's `Ledger.Query` model.

* `eval3` — the filter tree evaluated in SQL's three-valued logic: a leaf on an absent value
  (`reference` of a transaction without reference, `reverted_at` of a non-reverted one, the
  per-asset `balance[…]` of an account without a row for that asset) is *unknown*, `$not` of
  unknown is unknown, and a row is listed iff the tree is *true*. Where every leaf is defined
  this is `Filter.eval (leafSem …)` (theorem `eval3_eq_eval_of_defined`, `Props/C20r.lean`).
* entities — what a filter can observe of a row of each dataset (`Query.Entity`).
* listings — dataset → filter → project → order, and the pages `Query.walkNextCol` /
  `Query.walkNextOff` cut out of them.
-/
namespace Ledger.Reads
open Ledger.Base Ledger.Core Ledger.Spec Ledger.Query

/-! ### three-valued evaluation -/

def and3 : Option Bool → Option Bool → Option Bool
  | some false, _ => some false
  | _, some false => some false
  | some true, some true => some true
  | _, _ => none

def or3 : Option Bool → Option Bool → Option Bool
  | some true, _ => some true
  | _, some true => some true
  | some false, some false => some false
  | _, _ => none

mutual
def eval3 (sem : Query.Op → String → Val → Option Bool) : Filter → Option Bool
  | .and fs => evalAll3 sem fs
  | .or fs => if fs.isEmpty then some true else evalAny3 sem fs
  | .not f => (eval3 sem f).map (!·)
  | .leaf op k v => sem op k v
def evalAll3 (sem : Query.Op → String → Val → Option Bool) : List Filter → Option Bool
  | [] => some true
  | f :: fs => and3 (eval3 sem f) (evalAll3 sem fs)
def evalAny3 (sem : Query.Op → String → Val → Option Bool) : List Filter → Option Bool
  | [] => some false
  | f :: fs => or3 (eval3 sem f) (evalAny3 sem fs)
end

/-- Is the SQL value the leaf compares NULL on this entity?  `nullBalance`: the per-asset
    balance is a scalar subquery (accounts) rather than a column of the row (volumes). -/
def leafIsNull (nullBalance : Bool) (e : Entity) (op : Query.Op) (key : String) (_v : Val) : Bool :=
  match splitKey key with
  -- `metadata ->> 'k' IN (…)` (fix a07a144): NULL when the key is absent
  | ("metadata", some k) => op == .in_ && (e.metadata.lookup k).isNone
  | ("balance", some a) => nullBalance && (e.balances.lookup a).isNone
  | ("balance", none) => nullBalance && e.balances.isEmpty
  | ("reference", none) => (e.strs.lookup "reference").isNone
  | ("reverted_at", none) => (e.dates.lookup "reverted_at").isNone
  | _ => false

/-- SQL `LIKE` (no escape character in the patterns used): `%` = any sequence, `_` = any one
    character. -/
def likeMatchF : Nat → List Char → List Char → Bool
  | 0, _, _ => false
  | _, [], [] => true
  | fuel + 1, s, '%' :: p => likeMatchF fuel s p || (match s with | [] => false | _ :: s' => likeMatchF fuel s' ('%' :: p))
  | _, [], _ :: _ => false
  | _, _ :: _, [] => false
  | fuel + 1, c :: s, q :: p => (q == '_' || q == c) && likeMatchF fuel s p

def likeMatch (s p : String) : Bool := likeMatchF (2 * (s.length + p.length) + 2) s.toList p.toList

/-- How `$in` on `metadata[k]` behaves:
    `membership` — the documented meaning (`Query.leafSem`) and the code in the tree since fix
    a07a144 (`metadata ->> 'k' IN (…)`): the value is one of the listed ones;
    `containment` — the code before it: `metadata @> {"k": [v1, v2]}`, jsonb containment of an
    array in a string value, which is never true. -/
inductive MetaInVariant where
  | containment
  | membership
  deriving DecidableEq, Repr, Inhabited

/-- The variant of the code in the tree. -/
def metaInCurrent : MetaInVariant := .membership

/-- Leaf semantics of the rendered SQL where it is not `Query.leafSem`:
    * `$like` on a plain string column (`reference`, log `type`) is SQL `LIKE`;
    * `$in` on `metadata[k]` per `MetaInVariant`;
    * the generic `balance` key on an accounts row compares the (single) balance row. -/
def leafSemR (mv : MetaInVariant) (e : Entity) (op : Query.Op) (key : String) (v : Val) : Bool :=
  match splitKey key, op, v with
  | ("reference", none), .like, .sc (.str p) => (match e.strs.lookup "reference" with | some s => likeMatch s p | none => false)
  | ("type", none), .like, .sc (.str p) => (match e.strs.lookup "type" with | some s => likeMatch s p | none => false)
  | ("metadata", some _), .in_, _ => mv == .membership && leafSem parseRFC3339 e op key v
  | ("balance", none), _, .sc (.int n) =>
    (match e.nums.lookup "balance", e.balances with
      | some b, _ => cmpInt op b n
      | none, [(_, b)] => cmpInt op b n
      | none, _ => false)
  | _, _, _ => leafSem parseRFC3339 e op key v

def sem3V (mv : MetaInVariant) (nullBalance : Bool) (e : Entity) (op : Query.Op) (key : String) (v : Val) : Option Bool :=
  -- (the pre-fix containment on the coalesced metadata is never NULL)
  if leafIsNull nullBalance e op key v && !(mv == .containment && (splitKey key).1 == "metadata") then none
  else some (leafSemR mv e op key v)

def sem3 (nullBalance : Bool) (e : Entity) (op : Query.Op) (key : String) (v : Val) : Option Bool :=
  sem3V metaInCurrent nullBalance e op key v

/-- The row is selected: the filter is *true* (not false, not unknown). -/
def selectsV (mv : MetaInVariant) (nullBalance : Bool) (f : Option Filter) (e : Entity) : Bool :=
  match f with
  | none => true
  | some f => eval3 (sem3V mv nullBalance e) f == some true

def selects (nullBalance : Bool) (f : Option Filter) (e : Entity) : Bool := selectsV metaInCurrent nullBalance f e

/-- `Filter.eval` would decide differently (an unknown leaf under a `$not`). -/
def nullSensitive (nullBalance : Bool) (f : Option Filter) (e : Entity) : Bool :=
  match f with
  | none => false
  | some f => selects nullBalance (some f) e != Filter.eval (leafSemR metaInCurrent e) f

/-- Some leaf is `$in` on `metadata[k]`. -/
def usesMetaIn (f : Option Filter) : Bool :=
  match f with
  | none => false
  | some f => f.leaves.any fun l => l.1 == .in_ && (splitKey l.2.1).1 == "metadata" && (splitKey l.2.1).2.isSome

/-- Some leaf is the generic (un-indexed) `balance` key. -/
def usesGenericBalance (f : Option Filter) : Bool :=
  match f with
  | none => false
  | some f => f.leaves.any fun l => l.2.1 == "balance"

/-! ### entities -/

def segsOf (a : String) : List Seg := segments a.toList

def balancesOf (vols : List (String × Volumes)) : List (String × Int) := vols.map fun e => (e.1, e.2.balance)

def accountEntity (v : AccountView) (balances : List (String × Int)) : Entity :=
  { address := segsOf v.address, metadata := v.metadata, balances,
    dates := [("first_usage", v.firstUsage), ("insertion_date", v.insertionDate), ("updated_at", v.updatedAt)] }

def txEntity (v : TxView) : Entity :=
  { sources := v.postings.map (fun p => segsOf p.source),
    destinations := v.postings.map (fun p => segsOf p.destination),
    metadata := v.metadata,
    dates := [("timestamp", v.timestamp), ("inserted_at", v.insertedAt), ("updated_at", v.updatedAt)] ++
             (match v.revertedAt with | some r => [("reverted_at", r)] | none => []),
    nums := [("id", v.id)],
    strs := if v.reference == "" then [] else [("reference", v.reference)],
    reverted := v.revertedAt.isSome }

def volEntity (r : VolRow) (md : Metadata) (firstUsage : Int) : Entity :=
  { address := segsOf r.account, metadata := md, balances := [(r.asset, r.volumes.balance)],
    nums := [("balance", r.volumes.balance)], dates := [("first_usage", firstUsage)] }

def logEntity (r : LogRec) : Entity :=
  { nums := [("id", r.id)], dates := [("date", r.date)], strs := [("type", r.type)] }

/-! ### filter checks the real code performs before / while rendering -/

def validateFilter (schema : Schema) (f : Option Filter) : Except RErr Unit :=
  match f with
  | none => .ok ()
  | some f =>
    match validate parseRFC3339 schema f with
    | .ok _ => .ok ()
    | .error _ => .error .invalidQuery

def usesKey (f : Option Filter) (name : String) : Bool :=
  match f with
  | none => false
  | some f => f.leaves.any fun l => (splitKey l.2.1).1 == name

def hasExistsOn (f : Option Filter) (name : String) : Bool :=
  match f with
  | none => false
  | some f => f.leaves.any fun l => (splitKey l.2.1).1 == name && l.1 == .exists_

/-- `accountsResourceHandler.ResolveFilter` errors, in walk order: `$exists` on `balance` is an
    invalid query; a balance filter at a point in time needs both moves features. -/
def accountFilterCheck (feat : Features) (usePit : Bool) (f : Option Filter) : Except RErr Unit :=
  match f with
  | none => .ok ()
  | some f =>
    let rec go : List (Query.Op × String × Val) → Except RErr Unit
      | [] => .ok ()
      | l :: ls =>
        if (splitKey l.2.1).1 == "balance" then
          if l.1 == .exists_ then .error .invalidQuery
          else if usePit && !(feat.moves && feat.pcev) then .error .missingFeature
          else go ls
        else go ls
    go f.leaves

/-! ### listings (before ordering) -/

/-- Balances an accounts filter sees: effective balances at the point in time, current ones
    otherwise. -/
def accountBalances (l : Ledger) (pit : Option Int) (a : String) : List (String × Int) :=
  balancesOf (ofAccount (match pit with
    | some _ => volumesTable l.txs (pitWindow pit) .effective
    | none => currentVolumes l.txs) a)

def accountsSelected (feat : Features) (l : Ledger) (pit : Option Int) (f : Option Filter) :
    Except RErr (List AccountView) := do
  validateFilter accountSchema f
  accountFilterCheck feat pit.isSome f
  -- the generic `balance` key is a scalar subquery over the account's balance rows: Postgres
  -- raises 21000 (more than one row returned by a subquery used as an expression) as soon as it
  -- is evaluated on an account holding two assets
  if usesGenericBalance f && (accountsAt feat l pit).any (fun v => (accountBalances l pit v.address).length ≥ 2) then
    throw .cardinality
  pure ((accountsAt feat l pit).filter fun v => selects true f (accountEntity v (accountBalances l pit v.address)))

def transactionsSelected (feat : Features) (l : Ledger) (pit : Option Int) (f : Option Filter) :
    Except RErr (List TxView) := do
  validateFilter transactionSchema f
  pure ((transactionsAt feat l pit).filter fun v => selects true f (txEntity v))

/-- Metadata a volumes / aggregated-balances filter sees for an account. `windowed`: the
    dataset is built from `moves` (a PIT or OOT is present). -/
def volMetaRead (feat : Features) (l : Ledger) (windowed : Bool) (pit : Option Int) (a : String) : Metadata :=
  if windowed && feat.acctMetaHist then
    match acctRowOf l a, pit with
    | some r, some t => revisionAt r.revisions t
    | some r, none => (r.revisions.getLast?.map (·.2)).getD []
    | none, _ => []
  else metaAt l (.account a) none

def volumesSelected (feat : Features) (l : Ledger) (pit oot : Option Int) (useInsertionDate : Bool)
    (f : Option Filter) : Except RErr (List VolRow) := do
  validateFilter volumeSchema f
  let rows ← volumesDataset feat l pit oot useInsertionDate
  if hasExistsOn f "balance" then throw .invalidQuery
  let windowed := pit.isSome || oot.isSome
  pure (rows.filter fun r =>
    selects false f (volEntity r (volMetaRead feat l windowed pit r.account) ((firstUsage l r.account).getD 0)))

def aggregatedSelected (feat : Features) (l : Ledger) (pit : Option Int) (useInsertionDate : Bool)
    (f : Option Filter) : Except RErr (List VolRow) := do
  validateFilter aggregatedSchema f
  let rows ← aggregatedDataset feat l pit useInsertionDate
  pure (rows.filter fun r =>
    selects false f (volEntity r (volMetaRead feat l pit.isSome pit r.account) 0))

def logsSelected (s : RState) (f : Option Filter) : Except RErr (List LogRec) := do
  validateFilter logSchema f
  pure (s.logs.filter fun r => selects false f (logEntity r))

/-! ### ordering -/

/-- A sort key: integers (ids, dates) or strings (addresses). -/
inductive SKey where
  | int (i : Int)
  | str (s : String)
  deriving DecidableEq, Repr, Inhabited

def SKey.le : SKey → SKey → Bool
  | .int a, .int b => decide (a ≤ b)
  | .str a, .str b => decide (a ≤ b)
  | .int _, .str _ => true
  | .str _, .int _ => false

/-- `ORDER BY key dir`, stable: ties keep the dataset order (the order of the inner query). -/
def sortBy {α : Type} (key : α → SKey) (o : Order) (l : List α) : List α :=
  match o with
  | .asc => l.mergeSort (fun a b => (key a).le (key b))
  | .desc => l.mergeSort (fun a b => (key b).le (key a))

def accountSortKey (col : String) (v : AccountView) : Option SKey :=
  match col with
  | "address" => some (.str v.address)
  | "first_usage" => some (.int v.firstUsage)
  | "insertion_date" => some (.int v.insertionDate)
  | "updated_at" => some (.int v.updatedAt)
  | _ => none

def txSortKey (col : String) (v : TxView) : Option SKey :=
  match col with
  | "id" => some (.int v.id)
  | "timestamp" => some (.int v.timestamp)
  | "inserted_at" => some (.int v.insertedAt)
  | "updated_at" => some (.int v.updatedAt)
  | _ => none

def logSortKey (col : String) (r : LogRec) : Option SKey :=
  match col with
  | "id" => some (.int r.id)
  | "date" => some (.int r.date)
  | _ => none

/-! ### pages -/

/-- The listing as `Query.Row`s: the pagination key of row `i` is its integer sort key, or, for
    a string column, its rank among the distinct sort keys (order-isomorphic); `tag = i`. -/
def toRows (keys : List SKey) : List Row :=
  let distinct := (keys.mergeSort SKey.le).eraseDups
  keys.zipIdx.map fun (k, i) =>
    match k with
    | .int v => { key := v, tag := i }
    | .str _ => { key := (distinct.findIdx (· == k) : Nat), tag := i }

structure PageOut where
  /-- indices into the listing -/
  tags : List Nat
  hasMore : Bool
  next : Bool
  previous : Bool
  deriving DecidableEq, Repr, Inhabited

def pageOutCol (p : Page (ColQuery Unit)) : PageOut :=
  { tags := p.data.map (·.tag), hasMore := p.hasMore, next := p.next.isSome, previous := p.previous.isSome }

def pageOutOff (p : Page (OffQuery Unit)) : PageOut :=
  { tags := p.data.map (·.tag), hasMore := p.hasMore, next := p.next.isSome, previous := p.previous.isSome }

def walkPrevCol : Nat → ColQuery Unit → List Row → List (Page (ColQuery Unit))
  | 0, _, _ => []
  | fuel + 1, q, table =>
    match paginateCol q table with
    | .error _ => []
    | .ok p => p :: (match p.previous with | some q' => walkPrevCol fuel q' table | none => [])

def walkPrevOff : Nat → OffQuery Unit → List Row → List (Page (OffQuery Unit))
  | 0, _, _ => []
  | fuel + 1, q, table =>
    match paginateOff q table with
    | .error _ => []
    | .ok p => p :: (match p.previous with | some q' => walkPrevOff fuel q' table | none => [])

/-- Forward pages (following `next`) and backward pages (following `previous` from the last
    forward page), through builder-query's paginator model. `column = true`: column paginator
    (numeric / date sort column), else the offset paginator. -/
def walkPages (column : Bool) (o : Order) (pageSize : Nat) (table : List Row) : List PageOut × List PageOut :=
  let fuel := table.length + 2
  if column then
    let fwd := walkNextCol fuel (ColQuery.initial pageSize o ()) table
    let back := match fwd.getLast? with
      | some last => (match last.previous with | some q => walkPrevCol fuel q table | none => [])
      | none => []
    (fwd.map pageOutCol, back.map pageOutCol)
  else
    let fwd := walkNextOff fuel (OffQuery.initial pageSize o ()) table
    let back := match fwd.getLast? with
      | some last => (match last.previous with | some q => walkPrevOff fuel q table | none => [])
      | none => []
    (fwd.map pageOutOff, back.map pageOutOff)

end Ledger.Reads
