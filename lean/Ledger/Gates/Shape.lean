/-!
Structural facts about one rendered read query (core-only).

`tools/t1_readshapes` runs the REAL store read paths of /repo over a recording
driver for the whole shape matrix and packs the facts of each rendered query
into one natural number (`Ledger.Generated.readShapeCodes`).  This file decodes
the number and states, as decidable predicates, what the properties require of
every rendered read:

* C35: a successfully rendered read touches the `moves` table only if
  MOVES_HISTORY is ON, and mentions `post_commit_effective_volumes` only if
  MOVES_HISTORY_POST_COMMIT_EFFECTIVE_VOLUMES is SYNC (otherwise the code must
  answer with the missing-feature error naming a feature that is indeed off);
* C17: a point-in-time read of transactions / accounts joins the metadata history
  table iff the corresponding *_METADATA_HISTORY feature is SYNC; the other
  resources (metadata filters of volumes / aggregated balances) touch a history
  table only in a time-scoped read and only when the feature is SYNC;
* C19: unless the ledger is alone in its bucket, every reference to a bucket
  table is scoped by a `ledger = '<this ledger>'` predicate and no predicate
  names another ledger.
-/
namespace Ledger.Gates

inductive Res | transactions | accounts | volumes | aggregated | logs | schemas | unknown
  deriving DecidableEq, Repr, BEq
inductive ErrK | ok | missingMH | missingPCEV | invalidQuery | other
  deriving DecidableEq, Repr, BEq

structure Shape where
  mh : Bool
  pcev : Bool
  amh : Bool
  tmh : Bool
  alone : Bool
  pit : Bool
  oot : Bool
  insDate : Bool
  group : Bool
  resource : Res
  call : Nat
  expand : Nat      -- 0 none, 1 volumes, 2 effectiveVolumes
  filter : Nat      -- 0 none, 1 metadata, 2 account, 3 address, 4 balance
  err : ErrK
  baseRefs : Nat
  ledgerPreds : Nat
  otherLedger : Nat
  tMoves : Bool
  tTxMeta : Bool
  tAccMeta : Bool
  usesPCEV : Bool
  statements : Nat
  deriving Repr

def bit (c : Nat) (i : Nat) : Bool := c.testBit i
def field (c : Nat) (lo width : Nat) : Nat := (c >>> lo) % (2 ^ width)

def Shape.ofCode (c : Nat) : Shape where
  mh := bit c 0
  pcev := bit c 1
  amh := bit c 2
  tmh := bit c 3
  alone := bit c 4
  pit := bit c 5
  oot := bit c 6
  insDate := bit c 7
  group := bit c 8
  resource := match field c 9 3 with
    | 0 => .transactions | 1 => .accounts | 2 => .volumes | 3 => .aggregated | 4 => .logs | 5 => .schemas
    | _ => .unknown
  call := field c 12 2
  expand := field c 14 2
  filter := field c 16 3
  err := match field c 19 3 with
    | 0 => .ok | 1 => .missingMH | 2 => .missingPCEV | 3 => .invalidQuery | _ => .other
  baseRefs := field c 22 4
  ledgerPreds := field c 26 4
  otherLedger := field c 30 2
  tMoves := bit c 32
  tTxMeta := bit c 33
  tAccMeta := bit c 34
  usesPCEV := bit c 40
  statements := field c 43 3

/-- C35: no successful read needs a disabled feature; a missing-feature answer
    names a feature that is really off; nothing unexpected (panic / other error). -/
def Shape.featuresOk (s : Shape) : Bool :=
  match s.err with
  | .ok => (!s.tMoves || s.mh) && (!s.usesPCEV || s.pcev)
  | .missingMH => !s.mh
  | .missingPCEV => !s.pcev
  | .invalidQuery => true
  | .other => false

/-- C17 (gate part): PIT reads of transactions / accounts use the metadata
    history iff the corresponding feature is SYNC; without PIT never. -/
def Shape.metaHistoryOk (s : Shape) : Bool :=
  if s.err ≠ .ok then true else
  match s.resource with
  | .transactions => s.tTxMeta == (s.pit && s.tmh)
  | .accounts => s.tAccMeta == (s.pit && s.amh)
  | _ => (!s.tTxMeta || (s.pit && s.tmh)) && (!s.tAccMeta || ((s.pit || s.oot) && s.amh))

/-- C19 (read part): every bucket-table reference is scoped to this ledger unless
    the ledger is alone in its bucket; no predicate names another ledger; a
    successful call rendered at least one statement over at least one table. -/
def Shape.scopedOk (s : Shape) : Bool :=
  if s.err ≠ .ok then true else
  s.otherLedger == 0 && 1 ≤ s.statements && 1 ≤ s.baseRefs &&
  (s.alone || s.baseRefs ≤ s.ledgerPreds)

def Shape.ok (s : Shape) : Bool := s.featuresOk && s.metaHistoryOk && s.scopedOk

end Ledger.Gates
