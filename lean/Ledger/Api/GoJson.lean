import Ledger.Api.JVal

/-!
`encoding/json` decoding of a JSON tree into typed Go targets (core-only).

Every function is the decoding of ONE struct member: its argument is
`getField kvs name` (`none` = member absent).  For every target an absent member
and JSON `null` leave the zero value.  All failures are client errors (`Dec`).
-/
namespace Ledger.Api

def two64 : Nat := 18446744073709551616

/-- `string` -/
def decStr : Option JVal → Dec String
  | none | some .null => .ok ""
  | some (.str s) => .ok s
  | some v => .error ("json: cannot unmarshal " ++ v.kind ++ " into string")

/-- `bool` -/
def decBool : Option JVal → Dec Bool
  | none | some .null => .ok false
  | some (.bool b) => .ok b
  | some v => .error ("json: cannot unmarshal " ++ v.kind ++ " into bool")

/-- `uint64`: the literal goes through `strconv.ParseUint(lit, 10, 64)`. -/
def decUint64 : Option JVal → Dec Nat
  | none | some .null => .ok 0
  | some (.num n) =>
    if n.isIntLit && !n.neg && n.int < two64 then .ok n.int
    else .error "json: cannot unmarshal number into uint64"
  | some v => .error ("json: cannot unmarshal " ++ v.kind ++ " into uint64")

/-- `*uint64` -/
def decOptUint64 : Option JVal → Dec (Option Nat)
  | none | some .null => .ok none
  | v => (decUint64 v).map some

/-- `int` (64 bit): `strconv.ParseInt(lit, 10, 64)`. -/
def decInt64 : Option JVal → Dec Int
  | none | some .null => .ok 0
  | some (.num n) =>
    if n.isIntLit && -two63 ≤ n.intVal && n.intVal < two63 then .ok n.intVal
    else .error "json: cannot unmarshal number into int"
  | some v => .error ("json: cannot unmarshal " ++ v.kind ++ " into int")
where two63 : Int := 9223372036854775808

/-- `*big.Int` (`big.Int.UnmarshalJSON`): only a plain integer literal, of any size. -/
def decOptBigInt : Option JVal → Dec (Option Int)
  | none | some .null => .ok none
  | some (.num n) => if n.isIntLit then .ok (some n.intVal) else .error "math/big: cannot unmarshal"
  | some _ => .error "math/big: cannot unmarshal"

/-- `map[string]string` (metadata): `null` members become `""`. -/
def decStrMapFields : List (String × JVal) → Dec (List (String × String))
  | [] => .ok []
  | (k, v) :: rest =>
    match decStr (some v), decStrMapFields rest with
    | .ok s, .ok m => .ok ((k, s) :: m)
    | .error e, _ => .error e
    | _, .error e => .error e

def decStrMap : Option JVal → Dec (Option (List (String × String)))
  | none | some .null => .ok none
  | some (.obj kvs) => (decStrMapFields kvs).map fun m => some (mapOfList m)
  | some v => .error ("json: cannot unmarshal " ++ v.kind ++ " into map")

/-- `[]string` -/
def decStrList : List JVal → Dec (List String)
  | [] => .ok []
  | v :: rest =>
    match decStr (some v), decStrList rest with
    | .ok s, .ok m => .ok (s :: m)
    | .error e, _ => .error e
    | _, .error e => .error e

def decStrArr : Option JVal → Dec (List String)
  | none | some .null => .ok []
  | some (.arr xs) => decStrList xs
  | some v => .error ("json: cannot unmarshal " ++ v.kind ++ " into []string")

/-- Timestamps (`go-libs time.Time.UnmarshalJSON`): `null` → zero time, a JSON
    string → `time.Parse(RFC3339Nano)`; the calendar parsing itself is a parameter
    (`parseTime s = some canonical` when Go accepts `s`), executed not modelled.
    The zero time is `""`. -/
def decTime (parseTime : String → Option String) : Option JVal → Dec String
  | none | some .null => .ok ""
  | some (.str s) =>
    match parseTime s with
    | some t => .ok t
    | none => .error "parsing time"
  | some _ => .error "invalid date format"

/-- A struct target: `none`/`null` leave it zero (`[]`), an object gives its members. -/
def decStructFields : Option JVal → Dec (List (String × JVal))
  | none | some .null => .ok []
  | some (.obj kvs) => .ok kvs
  | some v => .error ("json: cannot unmarshal " ++ v.kind ++ " into struct")

end Ledger.Api
