/-!
C26: the comparison applied to the results of the two real Numscript runtimes
(core-only).  This is NOT a model of either runtime — only the relation the
`interp` workload checks on their recorded outputs.
-/
namespace Ledger.Api.Interp

structure P where
  source : String
  destination : String
  asset : String
  amount : Int
  deriving Repr, DecidableEq, Inhabited

/-- Zero-amount postings are the documented difference: ignored. -/
def dropZeros (ps : List P) : List P := ps.filter fun p => p.amount ≠ 0

/-- Postings that are adjacent with the same (source, destination, asset) are
    merged (the machine only keeps them apart when a zero posting sat in between). -/
def mergeAdjacent : List P → List P
  | [] => []
  | p :: rest =>
    match mergeAdjacent rest with
    | q :: tl =>
      if p.source = q.source ∧ p.destination = q.destination ∧ p.asset = q.asset then
        { q with amount := p.amount + q.amount } :: tl
      else p :: q :: tl
    | [] => [p]

def norm (ps : List P) : List P := mergeAdjacent (dropZeros ps)

/-- Postings part of "the runtimes agree". -/
def samePostings (a b : List P) : Bool := decide (norm a = norm b)

end Ledger.Api.Interp
