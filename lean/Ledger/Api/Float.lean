import Ledger.Api.JVal

/-!
`float64` as `encoding/json` + Go conversions use it (core-only).

A JSON number decoded into `any` becomes `strconv.ParseFloat(lit, 64)`: the
nearest double (ties to even), an error when it rounds to ±Inf.  Doubles are
modelled exactly as rationals.

* `roundF64`  – nearest double of a non-negative rational (`none` = overflow)
* `goIntOfF64` – Go's `int(f)` on amd64 (`CVTTSD2SQ`): truncation toward zero,
                 the "integer indefinite" value −2^63 when out of range
* `fmtFloatV` – `fmt.Sprint(f)` (`%v` = `%g` with the shortest repr), exact for
                 literals with at most 15 significant digits (`JNum.fmtExact`)
-/
namespace Ledger.Api

def pow2 (e : Int) : Rat :=
  if e ≥ 0 then ((2 ^ e.toNat : Nat) : Rat) else 1 / ((2 ^ (-e).toNat : Nat) : Rat)

/-- Round a non-negative rational to the nearest natural, ties to even. -/
def roundHalfEven (q : Rat) : Nat :=
  let f := q.floor.toNat
  let r := q - (f : Rat)
  if r < 1 / 2 then f
  else if 1 / 2 < r then f + 1
  else if f % 2 = 0 then f else f + 1

/-- `⌊log₂ q⌋` for `q > 0`. -/
def ilog2 (q : Rat) : Int :=
  let e : Int := (Nat.log2 q.num.natAbs : Int) - (Nat.log2 q.den : Int)
  if pow2 e ≤ q then e else e - 1

def two53 : Nat := 9007199254740992
def two63 : Int := 9223372036854775808

/-- Nearest `float64` of a non-negative rational, as an exact rational; `none`
    when the result would be +Inf.  Integers up to 2^53 are doubles (first
    branch; it makes the exact range explicit). -/
def roundF64 (q : Rat) : Option Rat :=
  if q.den = 1 ∧ q.num.natAbs ≤ two53 then some q
  else if q ≤ 0 then some 0
  else
    let e := max (ilog2 q) (-1022)
    let ulp := pow2 (e - 52)
    let r := (roundHalfEven (q / ulp) : Rat) * ulp
    if pow2 1024 ≤ r then none else some r

/-- The double a literal decodes to (absolute value); `none` = `ParseFloat` range error. -/
def JNum.f64Abs (n : JNum) : Option Rat := roundF64 n.absRat

/-- Go `int(f)` for a double `±r` (`r ≥ 0`) on amd64. -/
def goIntOfF64 (neg : Bool) (r : Rat) : Int :=
  let t : Int := if neg then -r.floor else r.floor
  if t < -two63 ∨ two63 ≤ t then -two63 else t

/-! ### `%v` of a float64 -/

def stripLeadingZeros : List Nat → List Nat
  | 0 :: ds => stripLeadingZeros ds
  | ds => ds

def stripTrailingZeros (ds : List Nat) : List Nat := (stripLeadingZeros ds.reverse).reverse

/-- Significant digits `D` (no leading / trailing zeros) and the decimal point
    position `dp`: value = `0.D × 10^dp`. -/
def JNum.sig (n : JNum) : List Nat × Int :=
  let all := natDigits n.int ++ n.frac
  let noLead := stripLeadingZeros all
  let d := stripTrailingZeros noLead
  let tz := noLead.length - d.length
  (d, (d.length : Int) + n.exp10 + tz)

/-- The shortest round-tripping digits of the double are the literal's own
    significant digits: true when there are at most 15 of them and the value is
    in the normal range (decimal → double is injective there). -/
def JNum.fmtExact (n : JNum) : Bool :=
  let (d, dp) := n.sig
  d.length ≤ 15 && (d.isEmpty || (-300 ≤ dp && dp ≤ 300))

def showExp2 (e : Int) : List Char :=
  let a := natDigits e.natAbs
  (if e < 0 then '-' else '+') :: (if a.length < 2 then '0' :: a.map digitChar else a.map digitChar)

/-- `strconv.FormatFloat(f, 'g', -1, 64)` from the shortest digits. -/
def fmtG (neg : Bool) (d : List Nat) (dp : Int) : List Char :=
  let sign := if neg then ['-'] else []
  match d with
  | [] => sign ++ ['0']
  | d0 :: rest =>
    let exp := dp - 1
    if exp < -4 ∨ 6 ≤ exp then
      sign ++ [digitChar d0] ++ (if rest.isEmpty then [] else '.' :: rest.map digitChar) ++ 'e' :: showExp2 exp
    else if dp ≤ 0 then
      sign ++ ['0', '.'] ++ List.replicate (-dp).toNat '0' ++ d.map digitChar
    else
      let k := dp.toNat
      let ip := (d.take k).map digitChar ++ List.replicate (k - d.length) '0'
      let fp := (d.drop k).map digitChar
      sign ++ ip ++ (if fp.isEmpty then [] else '.' :: fp)

/-- `fmt.Sprint(float64)` of the double the literal decodes to. -/
def fmtFloatV (n : JNum) : List Char :=
  let (d, dp) := n.sig
  fmtG n.neg d dp

end Ledger.Api
