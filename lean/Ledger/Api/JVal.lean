/-!
JSON values as the request decoders of the HTTP API see them (core-only).

* `JNum`  – a JSON number *literal* `[-] int [. frac] [e exp]`.  Its exact decimal
            value is `JNum.mant × 10 ^ JNum.exp10` (mantissa `Int` × exponent), but
            the written form is kept as well because Go distinguishes `1000`,
            `1e3` and `1000.0` (`math/big.Int.UnmarshalJSON` and `strconv.ParseUint`
            only accept the first form).
* `JVal`  – JSON trees; objects are ordered association lists.
* `Res`   – result of a decoder: `ok v | clientError kind | fault msg`; `fault`
            models a Go panic or a 5xx answer to client-invalid input.
* decimal printing / parsing of unbounded integers (`showInt`, `parseNat`, …) as
  functions on `List Char`, so that round-trip theorems are about what runs.
-/
namespace Ledger.Api

/-! ## Results -/

inductive Res (α : Type) where
  | ok (v : α)
  | clientError (kind : String)
  | fault (msg : String)
  deriving Repr, DecidableEq

namespace Res

def bind {α β : Type} (x : Res α) (f : α → Res β) : Res β :=
  match x with
  | .ok v => f v
  | .clientError k => .clientError k
  | .fault m => .fault m

instance : Monad Res where
  pure := .ok
  bind := Res.bind

def isFault {α : Type} : Res α → Bool
  | .fault _ => true
  | _ => false

def isOk {α : Type} : Res α → Bool
  | .ok _ => true
  | _ => false

/-- Decoding steps that can only fail with a client error are written in
    `Except String` (the error is the kind) and embedded here. -/
def ofDec {α : Type} : Except String α → Res α
  | .ok v => .ok v
  | .error k => .clientError k

end Res

/-- Decoders that cannot fault. -/
abbrev Dec := Except String

/-! ## Decimal digits of unbounded naturals -/

def digitChar (d : Nat) : Char := Char.ofNat (48 + d % 10)

def charDigit? (c : Char) : Option Nat :=
  if 48 ≤ c.toNat ∧ c.toNat ≤ 57 then some (c.toNat - 48) else none

/-- Decimal digits, most significant first (`[0]` for zero). -/
def natDigits (n : Nat) : List Nat :=
  if _h : n < 10 then [n] else natDigits (n / 10) ++ [n % 10]
decreasing_by omega

/-- Value of a digit list (most significant first). -/
def ofDigits (ds : List Nat) : Nat := ds.foldl (fun a d => 10 * a + d) 0

def showNat (n : Nat) : List Char := (natDigits n).map digitChar

def showInt (i : Int) : List Char :=
  match i with
  | .ofNat n => showNat n
  | .negSucc n => '-' :: showNat (n + 1)

def showIntS (i : Int) : String := String.ofList (showInt i)

/-- All characters are ASCII digits and there is at least one. -/
def parseNat (cs : List Char) : Option Nat :=
  if cs.isEmpty then none else
  (cs.mapM charDigit?).map ofDigits

/-- `big.Int.SetString(s, 10)`: optional sign `+`/`-`, then one or more digits. -/
def parseBigInt (cs : List Char) : Option Int :=
  match cs with
  | '-' :: rest => (parseNat rest).map fun n => -(n : Int)
  | '+' :: rest => (parseNat rest).map fun n => (n : Int)
  | _ => (parseNat cs).map fun n => (n : Int)

/-- `0 | [1-9][0-9]*` -/
def jsonNatBody (ds : List Char) : Option Nat :=
  match ds with
  | ['0'] => some 0
  | '0' :: _ => none
  | _ => parseNat ds

/-- JSON integer literal grammar: `-? (0 | [1-9][0-9]*)`. -/
def parseJsonInt (cs : List Char) : Option Int :=
  match cs with
  | '-' :: rest => (jsonNatBody rest).map fun n => -(n : Int)
  | _ => (jsonNatBody cs).map fun n => (n : Int)

/-! ## Number literals -/

structure JNum where
  neg : Bool
  /-- integer part -/
  int : Nat
  /-- digits of the fraction part, `[]` when the literal has no `.` -/
  frac : List Nat
  /-- exponent part, `none` when the literal has no `e` -/
  exp : Option Int
  deriving Repr, DecidableEq, Inhabited

namespace JNum

/-- The literal is written as a plain integer (no fraction, no exponent). -/
def isIntLit (n : JNum) : Bool := n.frac.isEmpty && n.exp.isNone

def ofInt (i : Int) : JNum :=
  { neg := i < 0, int := i.natAbs, frac := [], exp := none }

/-- Signed integer value of a plain integer literal. -/
def intVal (n : JNum) : Int := if n.neg then -(n.int : Int) else n.int

/-- Unsigned mantissa: all written digits. -/
def mantAbs (n : JNum) : Nat := n.frac.foldl (fun a d => 10 * a + d) n.int

/-- Exact value = `mant × 10 ^ exp10`. -/
def mant (n : JNum) : Int := if n.neg then -(n.mantAbs : Int) else n.mantAbs
def exp10 (n : JNum) : Int := n.exp.getD 0 - n.frac.length

/-- Exact absolute value as a rational. -/
def absRat (n : JNum) : Rat :=
  let e := n.exp10
  if e ≥ 0 then (n.mantAbs * 10 ^ e.toNat : Nat) else (n.mantAbs : Rat) / (10 ^ (-e).toNat : Nat)

def isZero (n : JNum) : Bool := n.mantAbs == 0

/-- The literal text, as the harness renders it. -/
def text (n : JNum) : List Char :=
  (if n.neg then ['-'] else []) ++ showNat n.int ++
  (if n.frac.isEmpty then [] else '.' :: n.frac.map digitChar) ++
  (match n.exp with
   | none => []
   | some e => 'e' :: showInt e)

end JNum

/-! ## JSON trees -/

inductive JVal where
  | null
  | bool (b : Bool)
  | str (s : String)
  | num (n : JNum)
  | arr (xs : List JVal)
  | obj (kvs : List (String × JVal))
  deriving Inhabited

namespace JVal

def int (i : Int) : JVal := .num (JNum.ofInt i)

/-- JSON type name as in Go's `UnmarshalTypeError.Value`. -/
def kind : JVal → String
  | .null => "null"
  | .bool _ => "bool"
  | .str _ => "string"
  | .num _ => "number"
  | .arr _ => "array"
  | .obj _ => "object"

end JVal

/-! ## `encoding/json` member lookup

A JSON member name matches a struct field when their *folded* names are equal
(`encoding/json.foldName`: ASCII letters upper-cased; the only non-ASCII runes
folding onto ASCII letters are U+017F `ſ` → `S` and U+212A (Kelvin) → `K`).
When several members match one field the decoder assigns them in order, so the
last one wins (exact for scalar fields; nested structs/maps would be merged by Go
— objects with duplicate members are outside the correspondence). -/

def foldChar (c : Char) : Char :=
  if 97 ≤ c.toNat ∧ c.toNat ≤ 122 then Char.ofNat (c.toNat - 32)
  else if c.toNat = 0x17F then 'S'
  else if c.toNat = 0x212A then 'K'
  else c

def foldName (s : String) : List Char := s.toList.map foldChar

/-- Last member whose folded name equals that of `name`. -/
def getField (kvs : List (String × JVal)) (name : String) : Option JVal :=
  kvs.foldl (fun acc kv => if foldName kv.1 = foldName name then some kv.2 else acc) none

/-- Map semantics (`map[string]T`): exact keys, last assignment wins. The result
    lists each key once, in order of first appearance. -/
def mapInsert {β : Type} (m : List (String × β)) (k : String) (v : β) : List (String × β) :=
  match m with
  | [] => [(k, v)]
  | (k', v') :: rest => if k' = k then (k, v) :: rest else (k', v') :: mapInsert rest k v

def mapOfList {β : Type} (kvs : List (String × β)) : List (String × β) :=
  kvs.foldl (fun m kv => mapInsert m kv.1 kv.2) []

end Ledger.Api
