import Ledger.Generated.ErrTable

/-!
Error → HTTP status resolution over the table regenerated from the source by
`tools/t3_errtable` (core-only), plus the hand-written *specification* of which
typed client errors each handler can receive from the controller it calls.
Switches and error types are referred to by the generated named ids (`F.«…»`,
`E.«…»`), so a renamed or removed handler breaks the build instead of silently
leaving the specification.
-/
namespace Ledger.Api.ErrTable
open Ledger.Generated.ErrTable

/-- First matching `case` of the switch `fn` (source order), else its `default`. -/
def lookupFn (fn err : Nat) : Option Action :=
  match entries.find? (fun e => e.fn == fn && e.err == err) with
  | some e => some e.act
  | none => defaults.lookup fn

/-- Follow delegations (`HandleCommonWriteErrors` → `HandleCommonErrors` …). -/
def resolve : Nat → Nat → Nat → Option (Nat × String)
  | 0, _, _ => none
  | fuel + 1, fn, err =>
    match lookupFn fn err with
    | some (.status c e) => some (c, e)
    | some (.delegate g) => resolve fuel g err
    | _ => none

def statusOf (fn err : Nat) : Nat :=
  match resolve 4 fn err with
  | some (c, _) => c
  | none => 0

def is4xx (c : Nat) : Bool := 400 ≤ c && c < 500

/-- Typed errors that denote client-side invalid input or a client-visible
    business rule (never a server fault). `ErrTooManyClient` (503) is the only
    error type of the table that is not in this list. -/
def clientErrors : List Nat := [
  E.ErrInsufficientFunds, E.MissingFundsErr, E.ErrInvalidVars, E.ErrCompilationFailed, E.ErrMetadataOverride,
  E.ErrNoPostings, E.ErrTransactionReferenceConflict, E.ErrIdempotencyKeyConflict, E.ErrInvalidIdempotencyInput,
  E.ErrNotFound, E.ErrAlreadyReverted, E.ErrSchemaValidationError, E.ErrSchemaNotSpecified, E.ErrSchemaNotFound,
  E.ErrSchemaAlreadyExists, E.ErrInvalidSchema, E.ErrInvalidQuery, E.ErrMissingFeature, E.ErrNotPaginatedField,
  E.ErrQueryValidation, E.ErrParsing, E.ErrRuntime, E.ErrImport, E.ErrLedgerAlreadyExists, E.ErrInvalidLedgerName,
  E.ErrInvalidBucketName, E.ErrInvalidLedgerConfiguration, E.ErrBucketOutdated, E.ErrExperimentalFeaturesDisabled,
  E.ErrInvalidDriverConfiguration, E.ErrExporterNotFound, E.ErrExporterUsed, E.ErrPipelineNotFound,
  E.ErrPipelineAlreadyExists, E.ErrInUsePipeline, E.ErrAlreadyStarted, E.ErrAtomicParallelConflict]

def idem : List Nat := [E.ErrIdempotencyKeyConflict, E.ErrInvalidIdempotencyInput]
def schemaErrs : List Nat := [E.ErrSchemaValidationError, E.ErrSchemaNotSpecified, E.ErrSchemaNotFound]
def createErrs : List Nat :=
  [E.ErrInsufficientFunds, E.ErrInvalidVars, E.ErrCompilationFailed, E.ErrMetadataOverride, E.ErrNoPostings,
   E.ErrTransactionReferenceConflict] ++ idem ++ schemaErrs
def listErrs : List Nat := [E.ErrInvalidQuery, E.ErrMissingFeature, E.ErrNotPaginatedField]
def readErrs : List Nat := [E.ErrInvalidQuery, E.ErrMissingFeature]

def pairs (fns errs : List Nat) : List (Nat × Nat) :=
  fns.flatMap fun f => errs.map fun e => (f, e)

/-- SPECIFICATION (hand-written from the controller interface comments and the
    store code): the typed client errors each handler's controller call can answer. -/
def canReturn : List (Nat × Nat) :=
  pairs [F.«v1.createTransaction», F.«v1.createTransaction#2»] createErrs ++
  pairs [F.«v2.createTransaction»] (createErrs ++ [E.MissingFundsErr, E.ErrParsing, E.ErrRuntime]) ++
  pairs [F.«v1.revertTransaction», F.«v2.revertTransaction»]
    ([E.ErrInsufficientFunds, E.ErrAlreadyReverted, E.ErrNotFound] ++ idem ++ schemaErrs) ++
  pairs [F.«v1.addTransactionMetadata», F.«v2.addTransactionMetadata», F.«v1.deleteTransactionMetadata@direct»,
         F.«v2.deleteTransactionMetadata@direct», F.«v1.deleteAccountMetadata@direct», F.«v2.deleteAccountMetadata@direct»]
    ([E.ErrNotFound] ++ idem ++ schemaErrs) ++
  pairs [F.«v1.addAccountMetadata@direct», F.«v2.addAccountMetadata@direct»] (idem ++ schemaErrs) ++
  pairs [F.«v2.insertSchema»] ([E.ErrSchemaAlreadyExists, E.ErrInvalidSchema] ++ idem) ++
  pairs [F.«v2.importLogs»] [E.ErrImport] ++
  pairs [F.«v1.listAccounts», F.«v1.getBalances@direct», F.«v1.getLogs@direct», F.«v1.listTransactions@direct»,
         F.«v2.listAccounts@direct», F.«v2.listLogs@direct», F.«v2.listTransactions@direct», F.«v2.readVolumes@direct»,
         F.«v2.listSchemas@direct», F.«v2.listLedgers@direct»] listErrs ++
  pairs [F.«v1.countAccounts», F.«v1.countTransactions@direct», F.«v2.countAccounts», F.«v2.countTransactions»,
         F.«v1.getBalancesAggregated@direct», F.«v2.readBalancesAggregated»] readErrs ++
  pairs [F.«v1.getAccount», F.«v2.readAccount», F.«v1.readTransaction», F.«v2.readTransaction»] readErrs ++
  pairs [F.«v2.readAccount», F.«v1.readTransaction», F.«v2.readTransaction», F.«v2.readSchema», F.«v2.readLedger»] [E.ErrNotFound] ++
  pairs [F.«v2.runQuery»] ([E.ErrQueryValidation, E.ErrSchemaValidationError] ++ listErrs) ++
  pairs [F.«v2.createLedger»] [E.ErrLedgerAlreadyExists, E.ErrInvalidLedgerName, E.ErrInvalidBucketName,
    E.ErrInvalidLedgerConfiguration, E.ErrBucketOutdated, E.ErrExperimentalFeaturesDisabled] ++
  pairs [F.«bulking.mapBulkElementError»]
    (createErrs ++ [E.MissingFundsErr, E.ErrParsing, E.ErrRuntime, E.ErrAlreadyReverted, E.ErrNotFound])

/-- Pairs of `canReturn` the code answers with something else than a 4xx. -/
def badPairs : List (Nat × Nat) := canReturn.filter fun p => !is4xx (statusOf p.1 p.2)

end Ledger.Api.ErrTable
