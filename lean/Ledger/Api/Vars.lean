import Ledger.Api.Float
import Ledger.Machine.Allotment

/-!
Script variables: from the JSON `vars` member of a script to the machine's typed
values (core-only).

* `decodeVarsV1` – api/v1 `Script.ToCore` (`map[string]json.RawMessage`)
* `decodeVarsV2` – `vm.ScriptV1.ToCore` (`map[string]any`, used by api/v2 and bulk)
* `parseTyped`   – `machine.NewValueFromString`
* `setVars`      – `program.ParseVariablesJSON` (missing / extraneous variables)
-/
namespace Ledger.Api

/-- `map[string]string` after `ToCore`, each key once. -/
abbrev VarMap := List (String × String)

/-! ## fmt verbs on a decoded `any` -/

def sortKeys {β : Type} (m : List (String × β)) : List (String × β) :=
  m.mergeSort (fun a b => a.1 ≤ b.1)

def joinSp : List (List Char) → List Char
  | [] => []
  | [x] => x
  | x :: xs => x ++ ' ' :: joinSp xs

mutual
/-- `fmt.Sprintf("%v", x)` (`badVerb = false`) or `"%s"` (`badVerb = true`: every
    non-string leaf becomes `%!s(type=value)`) of the value `encoding/json` decodes
    into an `any` with `UseNumber()` (numbers are `json.Number`, i.e. their literal text). -/
def goFmt (badVerb : Bool) : JVal → List Char
  | .null => "<nil>".toList   -- nested nil; a top-level nil operand is handled by `fmtAsset`
  | .bool b =>
    let v := if b then "true".toList else "false".toList
    if badVerb then "%!s(bool=".toList ++ v ++ [')'] else v
  | .str s => s.toList
  | .num n => n.text   -- `json.Number` (decoded with UseNumber) is a string: printed as written
  | .arr xs => '[' :: joinSp (goFmtList badVerb xs) ++ [']']
  | .obj kvs =>
    "map[".toList ++ joinSp ((sortKeys (mapOfList (goFmtFields badVerb kvs))).map
      fun kv => kv.1.toList ++ ':' :: kv.2) ++ [']']
def goFmtList (badVerb : Bool) : List JVal → List (List Char)
  | [] => []
  | x :: xs => goFmt badVerb x :: goFmtList badVerb xs
def goFmtFields (badVerb : Bool) : List (String × JVal) → List (String × List Char)
  | [] => []
  | (k, v) :: rest => (k, goFmt badVerb v) :: goFmtFields badVerb rest
end

mutual
/-- Some number of the tree overflows `float64` (`json.Unmarshal` into `any` fails). -/
def hasF64Overflow : JVal → Bool
  | .num n => n.f64Abs.isNone
  | .arr xs => hasF64OverflowList xs
  | .obj kvs => hasF64OverflowFields kvs
  | _ => false
def hasF64OverflowList : List JVal → Bool
  | [] => false
  | x :: xs => hasF64Overflow x || hasF64OverflowList xs
def hasF64OverflowFields : List (String × JVal) → Bool
  | [] => false
  | (_, v) :: rest => hasF64Overflow v || hasF64OverflowFields rest
end

mutual
/-- Every float of the tree is printed exactly by `fmtFloatV`. -/
def fmtExactAll : JVal → Bool
  | .num n => n.fmtExact
  | .arr xs => fmtExactList xs
  | .obj kvs => fmtExactFields kvs
  | _ => true
def fmtExactList : List JVal → Bool
  | [] => true
  | x :: xs => fmtExactAll x && fmtExactList xs
def fmtExactFields : List (String × JVal) → Bool
  | [] => true
  | (_, v) :: rest => fmtExactAll v && fmtExactFields rest
end

/-! ## v1: `Script.ToCore` -/

/-- A variable that is neither a JSON string nor an object/null: since the fix of
    `Script.ToCore` an error ("invalid value for variable"), answered 400 VALIDATION
    (before it: `panic(err)`, i.e. this line was `.fault …`). -/
def v1NonStringScalar : Res String := .clientError "VALIDATION"

/-- `json.Unmarshal(raw, *big.Int)`; `none` = member absent (empty RawMessage). -/
def decBigIntRaw : Option JVal → Dec Int
  | none => .error "unexpected end of JSON input"
  | some .null => .ok 0
  | some (.num n) => if n.isIntLit then .ok n.intVal else .error "math/big: cannot unmarshal"
  | some _ => .error "math/big: cannot unmarshal"

/-- `json.Unmarshal(raw, *string)`. -/
def decStringRaw : Option JVal → Dec String
  | none => .error "unexpected end of JSON input"
  | some .null => .ok ""
  | some (.str s) => .ok s
  | some _ => .error "json: cannot unmarshal into string"

/-- The monetary branch: members `asset` (string) and `amount` (big.Int) of a
    `map[string]json.RawMessage` (exact member names). -/
def v1Monetary (m : List (String × JVal)) : Dec String := do
  let asset ← decStringRaw (m.lookup "asset")
  let amount ← decBigIntRaw (m.lookup "amount")
  pure (asset ++ " " ++ showIntS amount)

/-- One variable of v1. -/
def varV1 : JVal → Res String
  | .str s => .ok s
  | .obj kvs => Res.ofDec (v1Monetary (mapOfList kvs))
  | .null => Res.ofDec (v1Monetary [])
  | _ => v1NonStringScalar

/-- All variables: the loop runs over a Go map, so with several bad variables
    either may be hit first; the model reports a fault if any variable faults,
    else the first client error. -/
def combineV1 (k : String) : Res String → Res VarMap → Res VarMap
  | .fault m, _ => .fault m
  | _, .fault m => .fault m
  | .clientError e, _ => .clientError e
  | _, .clientError e => .clientError e
  | .ok s, .ok m => .ok ((k, s) :: m)

def varsV1Loop : List (String × JVal) → Res VarMap
  | [] => .ok []
  | (k, v) :: rest => combineV1 k (varV1 v) (varsV1Loop rest)

/-- The `vars` member (`none` = absent) of a v1 script. -/
def decodeVarsV1 : Option JVal → Res VarMap
  | none | some .null => .ok []
  | some (.obj kvs) => varsV1Loop (mapOfList kvs)
  | some _ => .clientError "json: cannot unmarshal into map"

/-! ## v2: `ScriptV1.ToCore` -/

/-- `fmt.Sprintf("%s %s", v["asset"], amount.String())` for a `json.Number` amount:
    the literal text, untouched (before the fix: nearest float64 then `int()`). -/
def v2NumericAmount (n : JNum) : List Char := n.text

def fmtAsset : Option JVal → List Char
  | none => "%!s(<nil>)".toList
  | some .null => "%!s(<nil>)".toList
  | some (.str s) => s.toList
  | some (.bool b) => goFmt true (.bool b)
  | some (.num n) => goFmt true (.num n)
  | some (.arr xs) => goFmt true (.arr xs)
  | some (.obj kvs) => goFmt true (.obj kvs)

/-- One variable of v2; `none` = the variable is silently dropped. -/
def varV2 : JVal → Option String
  | .str s => some s
  | .obj kvs =>
    let m := mapOfList kvs
    match m.lookup "amount" with
    | some (.str a) => some (String.ofList (fmtAsset (m.lookup "asset") ++ ' ' :: a.toList))
    | some (.num n) => some (String.ofList (fmtAsset (m.lookup "asset") ++ ' ' :: v2NumericAmount n))
    | _ => none
  | v => some (String.ofList (goFmt false v))

def varsV2Loop : List (String × JVal) → VarMap
  | [] => []
  | (k, v) :: rest =>
    match varV2 v with
    | some s => (k, s) :: varsV2Loop rest
    | none => varsV2Loop rest

/-- The `vars` member of a v2 script (`Dec`: it cannot fault). -/
def decodeVarsV2D : Option JVal → Dec VarMap
  | none | some .null => .ok []
  | some (.obj kvs) => .ok (varsV2Loop (mapOfList kvs))
  | some _ => .error "json: cannot unmarshal into map"

def decodeVarsV2 (v : Option JVal) : Res VarMap := Res.ofDec (decodeVarsV2D v)

/-! ## Machine side: `NewValueFromString` -/

inductive VarType where
  | account | asset | number | string | monetary | portion
  deriving Repr, DecidableEq, Inhabited

inductive TVal where
  | account (a : String)
  | asset (a : String)
  /-- `none`: the text `null` yields a nil `*MonetaryInt` -/
  | number (n : Option Int)
  | string (s : String)
  | monetary (asset : String) (amount : Int)
  | portion (r : Rat)
  deriving Repr, DecidableEq, Inhabited

def isAsciiUpper (c : Char) : Bool := 65 ≤ c.toNat && c.toNat ≤ 90
def isAsciiLower (c : Char) : Bool := 97 ≤ c.toNat && c.toNat ≤ 122
def isAsciiDigit (c : Char) : Bool := 48 ≤ c.toNat && c.toNat ≤ 57

/-- `[a-zA-Z0-9_-]` -/
def isSegChar (c : Char) : Bool :=
  isAsciiUpper c || isAsciiLower c || isAsciiDigit c || c = '_' || c = '-'

/-- Split on a separator character (like `strings.Split`). -/
def splitOnChar (sep : Char) : List Char → List (List Char)
  | [] => [[]]
  | c :: cs =>
    match splitOnChar sep cs with
    | [] => [[c]]   -- unreachable
    | seg :: segs => if c = sep then [] :: seg :: segs else (c :: seg) :: segs

/-- `^[a-zA-Z0-9_-]+(:[a-zA-Z0-9_-]+)*$` -/
def validAccount (cs : List Char) : Bool :=
  (splitOnChar ':' cs).all fun seg => !seg.isEmpty && seg.all isSegChar

/-- `^[A-Z][A-Z0-9]{0,16}(_[A-Z]{1,16})?(\/\d{1,6})?$` -/
def validAsset (cs : List Char) : Bool :=
  match cs with
  | [] => false
  | c :: rest =>
    if !isAsciiUpper c then false else
    let body := rest.takeWhile fun c => isAsciiUpper c || isAsciiDigit c
    let rest := rest.dropWhile fun c => isAsciiUpper c || isAsciiDigit c
    if body.length > 16 then false else
    let afterUnd : Option (List Char) :=
      match rest with
      | '_' :: r =>
        let u := r.takeWhile isAsciiUpper
        if 1 ≤ u.length ∧ u.length ≤ 16 then some (r.dropWhile isAsciiUpper) else none
      | r => some r
    match afterUnd with
    | none => false
    | some [] => true
    | some ('/' :: r) => 1 ≤ r.length && r.length ≤ 6 && r.all isAsciiDigit
    | some _ => false

def isJsonSpace (c : Char) : Bool := c = ' ' || c = '\t' || c = '\n' || c = '\r'

def trimJsonSpace (cs : List Char) : List Char :=
  ((cs.dropWhile isJsonSpace).reverse.dropWhile isJsonSpace).reverse

/-- `json.Unmarshal([]byte(data), &number)` with `number *MonetaryInt`: the text
    `null` would leave a nil pointer and is refused, a JSON integer literal is read
    by `big.Int`, every other text (other JSON or not JSON at all) is an error. -/
def parseNumberVar (cs : List Char) : Dec (Option Int) :=
  let t := trimJsonSpace cs
  if t = "null".toList then .error "number must not be null"   -- (was: a nil *MonetaryInt, before the fix of json.go)
  else match parseJsonInt t with
    | some i => .ok (some i)
    | none => .error "number"

/-- `strings.SplitN(data, " ", 2)`: `none` when there is no space. -/
def splitFirstSpace : List Char → Option (List Char × List Char)
  | [] => none
  | c :: cs =>
    if c = ' ' then some ([], cs)
    else (splitFirstSpace cs).map fun (a, b) => (c :: a, b)

def parseMonetaryVar (cs : List Char) : Dec (String × Int) :=
  match splitFirstSpace cs with
  | none => .error "monetary must have two parts"
  | some (a, amt) =>
    match parseBigInt amt with
    | none => .error "invalid monetary int"
    | some i =>
      if !validAsset a then .error "asset"
      else if i < 0 then .error "negative amount"
      else .ok (String.ofList a, i)

/-- `big.Rat.SetString("n/d")` reads numerator and denominator with base 0: a part
    written with a leading `0` and more digits is OCTAL (`010/100` is 8/64), and
    fails when it contains an 8 or a 9.  (`Ledger.Machine.parsePortionSpecific`
    reads both parts in base 10; the two agree when no part has a leading zero.) -/
def base0Nat (ds : List Char) : Option Nat :=
  match ds with
  | '0' :: c :: rest =>
    if (c :: rest).all (fun d => d.toNat ≤ 55) then
      some ((c :: rest).foldl (fun acc d => acc * 8 + (d.toNat - 48)) 0)
    else none
  | _ => some (Ledger.Machine.digitsVal ds)

/-- `machine.ParsePortionSpecific` as the API reaches it. -/
def parsePortionVar (s : String) : Dec Rat :=
  let specific (r : Except String Ledger.Machine.Portion) : Dec Rat :=
    match r with
    | .ok (.specific q) => .ok q
    | _ => .error "portion"
  match Ledger.Machine.matchPercent s.toList with
  | some _ => specific (Ledger.Machine.parsePortionSpecific s)
  | none =>
    match Ledger.Machine.matchFraction s.toList with
    | some (n, d) =>
      (match base0Nat n, base0Nat d with
       | some a, some b =>
         if b = 0 then .error "portion"
         else specific (Ledger.Machine.newPortionSpecific ((a : Int) / (b : Int)))
       | _, _ => .error "portion")
    | none => .error "portion"

/-- `machine.NewValueFromString`. -/
def parseTyped (t : VarType) (s : String) : Dec TVal :=
  match t with
  | .account => if validAccount s.toList then .ok (.account s) else .error "account"
  | .asset => if validAsset s.toList then .ok (.asset s) else .error "asset"
  | .number => (parseNumberVar s.toList).map TVal.number
  | .string => .ok (.string s)
  | .monetary => (parseMonetaryVar s.toList).map fun (a, i) => TVal.monetary a i
  | .portion => (parsePortionVar s).map TVal.portion

/-- `program.ParseVariablesJSON`: every declared variable must be present and
    well-typed, nothing else may be present. -/
def setVars (decl : List (String × VarType)) (vars : VarMap) : Dec (List (String × TVal)) := do
  let typed ← decl.mapM fun (name, ty) =>
    match vars.lookup name with
    | none => .error "missing variable"
    | some s => (parseTyped ty s).map fun v => (name, v)
  if vars.all fun kv => decl.any fun d => d.1 = kv.1 then pure typed
  else .error "extraneous variable"

end Ledger.Api
