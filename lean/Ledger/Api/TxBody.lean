import Ledger.Api.GoJson
import Ledger.Api.Vars

/-!
Request bodies of the write endpoints (core-only): what the handler answers
before the controller is involved, and the call the controller receives.

* v1 `POST /{ledger}/transactions`            – `createV1`
* v2 `POST /v2/{ledger}/transactions`         – `createV2`
* bulk elements (`BulkElement.UnmarshalJSON` + `processElement`) – `bulkElement`
* v2 revert body, metadata bodies             – `revertBodyV2`, `metadataBody`
* `TxToScriptData` (postings → script + variables) – `txToScript`
-/
namespace Ledger.Api

structure Posting where
  source : String
  destination : String
  amount : Int
  asset : String
  deriving Repr, DecidableEq, Inhabited

/-- A posting as decoded: the amount may be absent (`nil`). -/
structure RawPosting where
  source : String
  destination : String
  amount : Option Int
  asset : String
  deriving Repr, DecidableEq, Inhabited

def decPosting : JVal → Dec RawPosting
  | .obj kvs => do
    let source ← decStr (getField kvs "source")
    let destination ← decStr (getField kvs "destination")
    let amount ← decOptBigInt (getField kvs "amount")
    let asset ← decStr (getField kvs "asset")
    pure { source, destination, amount, asset }
  | .null => .ok { source := "", destination := "", amount := none, asset := "" }
  | v => .error ("json: cannot unmarshal " ++ v.kind ++ " into posting")

def decPostingList : List JVal → Dec (List RawPosting)
  | [] => .ok []
  | v :: rest =>
    match decPosting v, decPostingList rest with
    | .ok p, .ok ps => .ok (p :: ps)
    | .error e, _ => .error e
    | _, .error e => .error e

def decPostings : Option JVal → Dec (List RawPosting)
  | none | some .null => .ok []
  | some (.arr xs) => decPostingList xs
  | some v => .error ("json: cannot unmarshal " ++ v.kind ++ " into postings")

/-- `Postings.Validate`. -/
def validatePostings : List RawPosting → Dec (List Posting)
  | [] => .ok []
  | p :: rest =>
    match p.amount with
    | none => .error "no amount defined"
    | some a =>
      if a < 0 then .error "negative amount"
      else if !validAccount p.source.toList then .error "invalid source address"
      else if !validAccount p.destination.toList then .error "invalid destination address"
      else if !validAsset p.asset.toList then .error "invalid asset"
      else (validatePostings rest).map fun ps =>
        { source := p.source, destination := p.destination, amount := a, asset := p.asset } :: ps

/-! ## `TxToScriptData` -/

/-- Index of the first occurrence (variables are numbered in order of first use). -/
def indexOf? (xs : List String) (x : String) : Option Nat :=
  match xs with
  | [] => none
  | y :: ys => if y = x then some 0 else (indexOf? ys x).map (· + 1)

def addNew (xs : List String) (x : String) : List String :=
  if xs.contains x then xs else xs ++ [x]

/-- Non-world accounts in order of first appearance (source before destination). -/
def postingAccounts (ps : List Posting) : List String :=
  ps.foldl (fun acc p =>
    let acc := if p.source = "world" then acc else addNew acc p.source
    if p.destination = "world" then acc else addNew acc p.destination) []

def monKey (p : Posting) : String := "[" ++ showIntS p.amount ++ " " ++ p.asset ++ "]"

def postingMonetaries (ps : List Posting) : List (String × String) :=
  ps.foldl (fun acc p =>
    if acc.any (·.1 = monKey p) then acc
    else acc ++ [(monKey p, p.asset ++ " " ++ showIntS p.amount)]) []

def natS (n : Nat) : String := String.ofList (showNat n)

/-- `sort.Strings` on the generated names (`va10` sorts before `va2`). -/
def sortStrings (xs : List String) : List String := xs.mergeSort (· ≤ ·)

/-- The script text and the variables `TxToScriptData` builds. -/
def txToScript (ps : List Posting) (force : Bool) : String × VarMap :=
  let accs := postingAccounts ps
  let mons := postingMonetaries ps
  let accName (a : String) : String := "va" ++ natS ((indexOf? accs a).getD 0)
  let monName (p : Posting) : String := "vm" ++ natS ((indexOf? (mons.map (·.1)) (monKey p)).getD 0)
  let header :=
    "vars {\n" ++
    String.join ((sortStrings (accs.map accName)).map fun v => "\taccount $" ++ v ++ "\n") ++
    String.join ((sortStrings ((List.range mons.length).map fun i => "vm" ++ natS i)).map fun v => "\tmonetary $" ++ v ++ "\n") ++
    "}\n"
  let body := String.join (ps.map fun p =>
    "send $" ++ monName p ++ " (\n" ++
    (if p.source = "world" then "\tsource = @world\n"
     else "\tsource = $" ++ accName p.source ++ (if force then " allowing unbounded overdraft" else "") ++ "\n") ++
    (if p.destination = "world" then "\tdestination = @world\n"
     else "\tdestination = $" ++ accName p.destination ++ "\n") ++
    ")\n")
  let vars : VarMap :=
    accs.map (fun a => (accName a, a)) ++
    (mons.zipIdx.map fun (m, i) => ("vm" ++ natS i, m.2))
  (header ++ body, vars)

/-! ## The call handed to the controller -/

structure CreateCall where
  plain : String
  template : String
  vars : VarMap
  timestamp : String
  reference : String
  metadata : List (String × String)
  accountMetadata : List (String × List (String × String))
  runtime : String
  deriving Repr, DecidableEq, Inhabited

/-- `script` member shared by v1 and v2: `plain`, `template`, raw `vars`. -/
structure ScriptIn where
  plain : String
  template : String
  vars : Option JVal

def decScriptIn : Option JVal → Dec ScriptIn := fun v => do
  let kvs ← decStructFields v
  let plain ← decStr (getField kvs "plain")
  let template ← decStr (getField kvs "template")
  pure { plain, template, vars := getField kvs "vars" }

/-- `vars` must decode into a Go map: object or null. -/
def varsShapeOk : Option JVal → Bool
  | none | some .null | some (.obj _) => true
  | _ => false

/-- v1 `createTransaction`: answers `clientError "VALIDATION"`, faults (panic in
    `Script.ToCore`), or calls the controller. -/
def createV1 (parseTime : String → Option String) (body : JVal) : Res CreateCall :=
  let decoded : Dec (List RawPosting × ScriptIn × String × String × Option (List (String × String))) := do
    let kvs ← match body with
      | .obj kvs => pure kvs
      | .null => pure []
      | v => throw ("json: cannot unmarshal " ++ v.kind)
    let postings ← decPostings (getField kvs "postings")
    let script ← decScriptIn (getField kvs "script")
    if !varsShapeOk script.vars then throw "json: cannot unmarshal vars"
    let ts ← decTime parseTime (getField kvs "timestamp")
    let reference ← decStr (getField kvs "reference")
    let metadata ← decStrMap (getField kvs "metadata")
    pure (postings, script, ts, reference, metadata)
  match decoded with
  | .error _ => .clientError "VALIDATION"
  | .ok (postings, script, ts, reference, metadata) =>
    if (!postings.isEmpty && script.plain ≠ "") || (postings.isEmpty && script.plain = "") then
      .clientError "VALIDATION"
    else if !postings.isEmpty then
      match validatePostings postings with
      | .error _ => .clientError "VALIDATION"
      | .ok ps =>
        let (plain, vars) := txToScript ps false
        .ok { plain, template := "", vars, timestamp := ts, reference,
              metadata := metadata.getD [], accountMetadata := [], runtime := "" }
    else
      match decodeVarsV1 script.vars with
      | .fault m => .fault m
      | .clientError _ => .clientError "VALIDATION"
      | .ok vars =>
        .ok { plain := script.plain, template := script.template, vars, timestamp := ts, reference,
              metadata := metadata.getD [], accountMetadata := [], runtime := "" }

def decAccountMetadataFields : List (String × JVal) → Dec (List (String × List (String × String)))
  | [] => .ok []
  | (k, v) :: rest =>
    match decStrMap (some v), decAccountMetadataFields rest with
    | .ok m, .ok ms => .ok ((k, m.getD []) :: ms)
    | .error e, _ => .error e
    | _, .error e => .error e

def decAccountMetadata : Option JVal → Dec (List (String × List (String × String)))
  | none | some .null => .ok []
  | some (.obj kvs) => (decAccountMetadataFields kvs).map mapOfList
  | some v => .error ("json: cannot unmarshal " ++ v.kind ++ " into map")

/-- `bulking.TransactionRequest` as decoded. -/
structure TxRequestV2 where
  postings : List RawPosting
  script : ScriptIn
  /-- `ScriptV1.ToCore` of `script.vars` -/
  scriptVars : VarMap
  timestamp : String
  reference : String
  metadata : Option (List (String × String))
  accountMetadata : List (String × List (String × String))
  runtime : String
  force : Bool

def decTxRequestV2 (parseTime : String → Option String) (body : JVal) : Dec TxRequestV2 := do
  let kvs ← match body with
    | .obj kvs => pure kvs
    | .null => pure []
    | v => throw ("json: cannot unmarshal " ++ v.kind)
  let postings ← decPostings (getField kvs "postings")
  let script ← decScriptIn (getField kvs "script")
  let scriptVars ← decodeVarsV2D script.vars
  let timestamp ← decTime parseTime (getField kvs "timestamp")
  let reference ← decStr (getField kvs "reference")
  let metadata ← decStrMap (getField kvs "metadata")
  let accountMetadata ← decAccountMetadata (getField kvs "accountMetadata")
  let runtime ← decStr (getField kvs "runtime")
  let force ← decBool (getField kvs "force")
  pure { postings, script, scriptVars, timestamp, reference, metadata, accountMetadata, runtime, force }

/-- `TransactionRequest.ToCore`. -/
def txRequestToCore (req : TxRequestV2) (force : Bool) : Dec CreateCall := do
  let ps ← validatePostings req.postings
  if !ps.isEmpty then
    let (plain, vars) := txToScript ps force
    pure { plain, template := "", vars, timestamp := req.timestamp, reference := req.reference,
           metadata := req.metadata.getD [], accountMetadata := req.accountMetadata, runtime := req.runtime }
  else
    pure { plain := req.script.plain, template := req.script.template, vars := req.scriptVars,
           timestamp := req.timestamp, reference := req.reference,
           metadata := req.metadata.getD [], accountMetadata := req.accountMetadata, runtime := req.runtime }

/-- How many of postings / numscript / template the request carries. -/
def txKinds (req : TxRequestV2) : Nat :=
  (if req.postings.isEmpty then 0 else 1) + (if req.script.plain = "" then 0 else 1) +
  (if req.script.template = "" then 0 else 1)

/-- v2 `createTransaction`: error code of the 400, or the controller call. -/
def createV2 (parseTime : String → Option String) (queryForce : Bool) (body : JVal) : Res CreateCall :=
  match decTxRequestV2 parseTime body with
  | .error _ => .clientError "VALIDATION"
  | .ok req =>
    if txKinds req > 1 then .clientError "VALIDATION"
    else if txKinds req = 0 then .clientError "NO_POSTINGS"
    else match txRequestToCore req (req.force || queryForce) with
      | .error _ => .clientError "VALIDATION"
      | .ok c => .ok c

/-! ## Bulk elements -/

inductive BulkCall where
  | create (c : CreateCall)
  | addAccountMetadata (address : String) (m : List (String × String))
  | addTransactionMetadata (id : Nat) (m : List (String × String))
  | revert (id : Nat) (force atEffectiveDate : Bool) (m : List (String × String))
  | deleteAccountMetadata (address key : String)
  | deleteTransactionMetadata (id : Nat) (key : String)
  deriving Repr, DecidableEq, Inhabited

/-- Outcome of one element: rejected while decoding the whole bulk (`decode`, the
    request is answered 400 before anything runs), rejected when processed
    (`element`, reported in the element's result), or a controller call. -/
inductive BulkOutcome where
  | decodeError
  | elementError
  | call (ik : String) (c : BulkCall)
  deriving Repr, DecidableEq, Inhabited

/-- `json.Unmarshal(targetId, &string)` / `&uint64` at processing time
    (`targetId` is a `json.RawMessage`; absent = empty = error). -/
def rawString : Option JVal → Dec String
  | none => .error "unexpected end of JSON input"
  | v => decStr v

def rawUint64 : Option JVal → Dec Nat
  | none => .error "unexpected end of JSON input"
  | v => decUint64 v

def bulkElement (parseTime : String → Option String) (el : JVal) : BulkOutcome :=
  match el with
  | .obj kvs =>
    match decStr (getField kvs "action"), decStr (getField kvs "ik") with
    | .ok action, .ok ik =>
      -- `data` is kept raw; absent = empty RawMessage = decode error for every action
      match getField kvs "data" with
      | none => .decodeError
      | some data =>
        let fields : Dec (List (String × JVal)) := decStructFields (some data)
        if action = "CREATE_TRANSACTION" then
          match decTxRequestV2 parseTime data with
          | .error _ => .decodeError
          | .ok req =>
            match txRequestToCore req req.force with
            | .error _ => .elementError
            | .ok c => .call ik (.create c)
        else if action = "ADD_METADATA" then
          match fields with
          | .error _ => .decodeError
          | .ok f =>
            match decStr (getField f "targetType"), decStrMap (getField f "metadata") with
            | .ok tt, .ok m =>
              if tt = "ACCOUNT" then
                match rawString (getField f "targetId") with
                | .ok a => .call ik (.addAccountMetadata a (m.getD []))
                | .error _ => .elementError
              else if tt = "TRANSACTION" then
                match rawUint64 (getField f "targetId") with
                | .ok i => .call ik (.addTransactionMetadata i (m.getD []))
                | .error _ => .elementError
              else .elementError
            | _, _ => .decodeError
        else if action = "REVERT_TRANSACTION" then
          match fields with
          | .error _ => .decodeError
          | .ok f =>
            match decUint64 (getField f "id"), decBool (getField f "force"),
                  decBool (getField f "atEffectiveDate"), decStrMap (getField f "metadata") with
            | .ok i, .ok fo, .ok ae, .ok m => .call ik (.revert i fo ae (m.getD []))
            | _, _, _, _ => .decodeError
        else if action = "DELETE_METADATA" then
          match fields with
          | .error _ => .decodeError
          | .ok f =>
            match decStr (getField f "targetType"), decStr (getField f "key") with
            | .ok tt, .ok key =>
              if tt = "ACCOUNT" then
                match rawString (getField f "targetId") with
                | .ok a => .call ik (.deleteAccountMetadata a key)
                | .error _ => .elementError
              else if tt = "TRANSACTION" then
                match rawUint64 (getField f "targetId") with
                | .ok i => .call ik (.deleteTransactionMetadata i key)
                | .error _ => .elementError
              else .elementError
            | _, _ => .decodeError
        else .decodeError   -- unknown action: `json.Unmarshal(data, nil)` fails
    | _, _ => .decodeError
  | .null => .decodeError   -- zero element: empty action, empty data
  | _ => .decodeError

/-! ## Revert / metadata bodies -/

/-- v2 revert: `{"metadata": {...}}` (only decoded when Content-Length > 0). -/
def revertBodyV2 (body : Option JVal) : Res (List (String × String)) :=
  match body with
  | none => .ok []
  | some b =>
    match (do
      let kvs ← match b with
        | .obj kvs => pure kvs
        | .null => pure []
        | v => throw ("json: cannot unmarshal " ++ v.kind)
      decStrMap (getField kvs "metadata") : Dec _) with
    | .ok m => .ok (m.getD [])
    | .error _ => .clientError "VALIDATION"

/-- Metadata bodies (`metadata.Metadata`). -/
def metadataBody (body : JVal) : Res (List (String × String)) :=
  match decStrMap (some body) with
  | .ok m => .ok (m.getD [])
  | .error _ => .clientError "VALIDATION"

end Ledger.Api
