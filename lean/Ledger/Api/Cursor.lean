import Ledger.Api.GoJson

/-!
`storagecommon.UnmarshalCursor` and the query parameters of list endpoints
(core-only).

The cursor text is `base64.RawURLEncoding` of a JSON document; the base64 and JSON
*text* layers are executed (Go), the model starts at the decoded JSON tree:
`none` = not base64 / not JSON.  The `filters` member (`ResourceQuery`: dates,
`query.ParseJSON`, options) is decoded by go-libs code that is not modelled: its
verdict is the parameter `filtersOk`.
-/
namespace Ledger.Api

structure CursorQ where
  /-- offset cursor (`offset` present and non-null) or column cursor -/
  isOffset : Bool
  column : String
  order : Option Int
  pageSize : Nat
  offset : Nat
  bottom : Option Int
  paginationID : Option Int
  reverse : Bool
  deriving Repr, DecidableEq, Inhabited

/-- `*paginate.Order` (an `int`). -/
def decOptInt64 : Option JVal → Dec (Option Int)
  | none | some .null => .ok none
  | v => (decInt64 v).map some

/-- The cursor `null` (base64 `bnVsbA`): the second `json.Unmarshal(res, &q)` sets
    the interface `q` to nil; since the fix of cursor.go (`if q == nil`) this is
    answered "invalid cursor" (before it, the type assertion on the nil interface
    panicked: this line was `.fault …`). -/
def cursorNullOutcome : Res CursorQ := .clientError "invalid cursor"

def decodeCursorFields (filtersOk : Bool) (kvs : List (String × JVal)) : Dec CursorQ := do
  -- first pass: `aux{Offset *uint64}`
  let off ← decOptUint64 (getField kvs "offset")
  -- second pass: the full struct
  let column ← decStr (getField kvs "column")
  let order ← decOptInt64 (getField kvs "order")
  let pageSize ← decUint64 (getField kvs "pageSize")
  if !filtersOk then throw "filters"
  match off with
  | some o =>
    pure { isOffset := true, column, order, pageSize, offset := o,
           bottom := none, paginationID := none, reverse := false }
  | none =>
    let bottom ← decOptBigInt (getField kvs "bottom")
    let paginationID ← decOptBigInt (getField kvs "paginationID")
    let reverse ← decBool (getField kvs "reverse")
    -- a cursor without `order` is accepted: `Paginate` defaults it to the resource's order
    pure { isOffset := false, column, order, pageSize, offset := 0, bottom, paginationID, reverse }

/-- `UnmarshalCursor` from the decoded JSON tree. -/
def decodeCursor (filtersOk : Bool) : Option JVal → Res CursorQ
  | none => .clientError "invalid cursor"
  | some .null => cursorNullOutcome
  | some (.obj kvs) => Res.ofDec (decodeCursorFields filtersOk kvs)
  | some _ => .clientError "invalid cursor"

/-! ## Query parameters -/

/-- `strconv.ParseUint(s, 10, bits)`: digits only (no sign, no spaces), in range. -/
def parseUintParam (bits : Nat) (s : String) : Option Nat :=
  match parseNat s.toList with
  | some n => if n < 2 ^ bits then some n else none
  | none => none

/-- `paginate.GetPageSize`: absent or `0` → default, above the maximum → maximum,
    not a 32-bit unsigned decimal → client error. -/
def pageSizeParam (dflt max : Nat) (param : String) : Res Nat :=
  if param = "" then .ok dflt else
  match parseUintParam 32 param with
  | none => .clientError "invalid page size"
  | some 0 => .ok dflt
  | some n => .ok (if n > max then max else n)

def asciiLower (s : String) : String :=
  String.ofList (s.toList.map fun c => if 65 ≤ c.toNat ∧ c.toNat ≤ 90 then Char.ofNat (c.toNat + 32) else c)

/-- `api.QueryParamBool`. -/
def boolParam (s : String) : Bool := asciiLower s = "1" || asciiLower s = "true"

/-- `getDate` (`pit`, `oot`, `startTime`, `endTime`): absent → none. -/
def dateParam (parseTime : String → Option String) (s : String) : Res (Option String) :=
  if s = "" then .ok none else
  match parseTime s with
  | some t => .ok (some t)
  | none => .clientError "VALIDATION"

/-- Transaction ids in paths: `strconv.ParseUint(s, 10, 64)`. -/
def txIdParam (s : String) : Res Nat :=
  match parseUintParam 64 s with
  | some n => .ok n
  | none => .clientError "VALIDATION"

end Ledger.Api
