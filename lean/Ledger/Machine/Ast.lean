/-
Numscript abstract syntax (the language of /repo/internal/machine/script/NumScript.g4),
core-only.

Lists of sub-sources / sub-destinations are explicit mutual inductives
(`SourceList`, `KDList` …) so that every function over the syntax is a plain
structural recursion and every proof a plain mutual induction.
-/
namespace Ledger.Machine

/-- `type_` of the grammar (value.go `Type`, without the internal ones). -/
inductive Ty where
  | account | asset | number | string | monetary | portion
  deriving Repr, DecidableEq, Inhabited

/-- `Type.String()` of value.go. -/
def Ty.name : Ty → String
  | .account => "account"
  | .asset => "asset"
  | .number => "number"
  | .string => "string"
  | .monetary => "monetary"
  | .portion => "portion"

/-- `expression` / `literal` / `variable`.  The grammar has no parentheses:
    `l op r` always has an atomic `r` (left associativity of ANTLR's
    left-recursive alternatives), but nothing in the model relies on that. -/
inductive Expr where
  | acct (s : String)                -- `@s`
  | asset (s : String)               -- ASSET token
  | num (n : Nat)                    -- NUMBER token
  | str (s : String)                 -- STRING token, already unquoted
  | portion (text : String)          -- PORTION token, as written
  | mon (asset : Expr) (amt : Nat)   -- `[asset amt]`
  | var (name : String)              -- `$name`
  | add (l r : Expr)
  | sub (l r : Expr)
  deriving Repr, Inhabited

/-- `sourceAccountOverdraft?`. -/
inductive Overdraft where
  | none
  | upTo (e : Expr)
  | unbounded
  deriving Repr, Inhabited

/-- `allotmentPortion`. -/
inductive PortionE where
  | lit (text : String)
  | var (name : String)
  | remaining
  deriving Repr, Inhabited

mutual
  /-- `source`. -/
  inductive Source where
    | account (e : Expr) (od : Overdraft)
    | maxed (max : Expr) (s : Source)
    | inorder (ss : SourceList)
  inductive SourceList where
    | nil
    | cons (s : Source) (ss : SourceList)
end

/-- `sourceAllotment` items. -/
inductive AllotSrcList where
  | nil
  | cons (p : PortionE) (s : Source) (rest : AllotSrcList)

/-- `valueAwareSource`. -/
inductive VSource where
  | src (s : Source)
  | allot (items : AllotSrcList)

mutual
  /-- `destination`. -/
  inductive Dest where
    | account (e : Expr)
    | inorder (items : InOrderDstList) (remaining : KeptOrDest)
    | allot (items : AllotDstList)
  /-- `keptOrDestination`. -/
  inductive KeptOrDest where
    | kept
    | to (d : Dest)
  inductive InOrderDstList where
    | nil
    | cons (max : Expr) (d : KeptOrDest) (rest : InOrderDstList)
  inductive AllotDstList where
    | nil
    | cons (p : PortionE) (d : KeptOrDest) (rest : AllotDstList)
end

/-- `statement`. -/
inductive Stmt where
  | print (e : Expr)
  | save (mon : Expr) (acc : Expr)
  | saveAll (asset : Expr) (acc : Expr)
  | setTxMeta (key : String) (e : Expr)
  | setAccountMeta (acc : Expr) (key : String) (e : Expr)
  | fail
  | send (mon : Expr) (src : VSource) (dst : Dest)
  | sendAll (asset : Expr) (src : VSource) (dst : Dest)

/-- `origin`. -/
inductive Origin where
  | none
  | accountMeta (acc : Expr) (key : String)
  | balance (acc : Expr) (asset : Expr)

structure VarDecl where
  ty : Ty
  name : String
  orig : Origin

structure Script where
  vars : List VarDecl
  stmts : List Stmt

-- conversions used by the driver and by examples

def SourceList.ofList : List Source → SourceList
  | [] => .nil
  | s :: ss => .cons s (SourceList.ofList ss)

def SourceList.toList : SourceList → List Source
  | .nil => []
  | .cons s ss => s :: ss.toList

def AllotSrcList.ofList : List (PortionE × Source) → AllotSrcList
  | [] => .nil
  | (p, s) :: r => .cons p s (AllotSrcList.ofList r)

def InOrderDstList.ofList : List (Expr × KeptOrDest) → InOrderDstList
  | [] => .nil
  | (e, d) :: r => .cons e d (InOrderDstList.ofList r)

def AllotDstList.ofList : List (PortionE × KeptOrDest) → AllotDstList
  | [] => .nil
  | (p, d) :: r => .cons p d (AllotDstList.ofList r)

def AllotSrcList.portions : AllotSrcList → List PortionE
  | .nil => []
  | .cons p _ r => p :: r.portions

def AllotDstList.portions : AllotDstList → List PortionE
  | .nil => []
  | .cons p _ r => p :: r.portions

def AllotSrcList.length : AllotSrcList → Nat
  | .nil => 0
  | .cons _ _ r => r.length + 1

def AllotDstList.length : AllotDstList → Nat
  | .nil => 0
  | .cons _ _ r => r.length + 1

def SourceList.length : SourceList → Nat
  | .nil => 0
  | .cons _ r => r.length + 1

end Ledger.Machine
