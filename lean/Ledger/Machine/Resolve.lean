import Ledger.Machine.Sem
import Ledger.Machine.Check

/-!
Variable / resource / balance resolution of the machine
(`SetVarsFromJSON`, `ResolveResources`, `ResolveBalances`) and the top-level
`sem`.
-/
namespace Ledger.Machine

/-! ## Value parsing (json.go) -/

def isJsonSpace (c : Char) : Bool := c = ' ' || c = '\t' || c = '\r' || c = '\n'

def allDigits (cs : List Char) : Bool := !cs.isEmpty && cs.all isDigit

/-- Value of a non-empty digit list. -/
def digitsNat (cs : List Char) : Nat := digitsVal cs

/-- `json.Unmarshal(data, &number)` for a `*MonetaryInt`: surrounding JSON white
    space, then `null` (→ nil pointer) or a JSON integer `-?(0|[1-9][0-9]*)`.
    `none` = error, `some none` = nil pointer. -/
def parseJsonNumber (s : String) : Option (Option Int) :=
  let cs := (s.toList.dropWhile isJsonSpace).reverse.dropWhile isJsonSpace |>.reverse
  if cs = "null".toList then some none else
  let (neg, ds) := match cs with
    | '-' :: r => (true, r)
    | r => (false, r)
  if !allDigits ds then none
  else if ds.length > 1 && ds.head? = some '0' then none
  else
    let v : Int := digitsNat ds
    some (some (if neg then -v else v))

/-- Digits (at least one) with a sign already stripped. -/
def parseDigitsInt (neg : Bool) (ds : List Char) : Option Int :=
  if !allDigits ds then none
  else some (if neg then -(digitsNat ds : Int) else (digitsNat ds : Int))

/-- `big.Int.SetString(s, 10)`: optional sign, at least one digit. -/
def parseBigInt10 : List Char → Option Int
  | '-' :: r => parseDigitsInt true r
  | '+' :: r => parseDigitsInt false r
  | r => parseDigitsInt false r

/-- `strings.SplitN(data, " ", 2)`. -/
def splitFirstSpace : List Char → Option (List Char × List Char)
  | [] => none
  | c :: cs =>
    if c = ' ' then some ([], cs)
    else match splitFirstSpace cs with
      | some (a, b) => some (c :: a, b)
      | none => none

/-- `NewValueFromString`. `none` = error; a number may be the nil pointer. -/
inductive Parsed where
  | bad
  | nilNumber
  | val (v : Value)

def parseValue (cfg : Cfg) (ty : Ty) (data : String) : Parsed :=
  match ty with
  | .account => if validAccount data then .val (.account data) else .bad
  | .asset => if validAsset data then .val (.asset data) else .bad
  | .number =>
    match parseJsonNumber data with
    | none => .bad
    | some none => if cfg.nullNumberIsNil then .nilNumber else .bad   -- e8d28b8: "number must not be null"
    | some (some v) => .val (.number v)
  | .string => .val (.str data)
  | .monetary =>
    match splitFirstSpace data.toList with
    | none => .bad
    | some (a, amt) =>
      match parseBigInt10 amt with
      | none => .bad
      | some v =>
        let asset := String.ofList a
        if !validAsset asset then .bad
        else if v < 0 then .bad
        else .val (.monetary asset (some v))
  | .portion =>
    match parsePortionGo data with
    | .ok p => .val (.portion p)
    | .error _ => .bad

/-! ## Input of a run -/

structure Input where
  /-- variables as passed by the caller (JSON strings) -/
  vars : List (String × String)
  /-- the store's balances (missing pair = 0) -/
  balance : String → String → Int
  /-- the store's accounts: `none` = unknown account -/
  accountMeta : String → Option (List (String × String))

structure Result where
  postings : List Posting
  txMeta : List (String × Value)
  accMeta : List (String × String × Value)
  /-- final tracked balances and the ghost `saved` (not observable) -/
  final : State

/-! ## SetVarsFromJSON -/

/-- `ParseVariablesJSON`: plain variables in declaration order. -/
def parsePlainVars (cfg : Cfg) (vars : List (String × String)) : List VarDecl → Except Err (List (String × Parsed))
  | [] => .ok []
  | d :: ds =>
    match d.orig with
    | .none =>
      match vars.lookup d.name with
      | none => .error (.run "vars" "missing")
      | some data =>
        match parseValue cfg d.ty data with
        | .bad => .error (.run "vars" "invalid")
        | p =>
          match parsePlainVars cfg vars ds with
          | .error e => .error e
          | .ok r => .ok ((d.name, p) :: r)
    | _ => parsePlainVars cfg vars ds

def isPlain (d : VarDecl) : Bool := match d.orig with | .none => true | _ => false

/-- `SetVarsFromJSON`. -/
def setVars (cfg : Cfg) (s : Script) (inp : Input) : Except Err (List (String × Parsed)) :=
  match parsePlainVars cfg inp.vars s.vars with
  | .error e => .error e
  | .ok ps =>
    let plainNames := (s.vars.filter isPlain).map (·.name)
    if inp.vars.any (fun kv => !plainNames.contains kv.1) then .error (.run "vars" "extraneous")
    else .ok ps

/-! ## ResolveResources -/

/-- A `balance()` variable: (name, account, asset). -/
abbrev BalVar := String × String × String

/-- Resources in declaration order. Balance variables get a nil amount here. -/
def resolveVars (cfg : Cfg) (inp : Input) (plain : List (String × Parsed)) :
    List VarDecl → Env → List BalVar → Except Err (Env × List BalVar)
  | [], env, bvs => .ok (env, bvs)
  | d :: ds, env, bvs =>
    match d.orig with
    | .none =>
      match plain.lookup d.name with
      | some (.val v) => resolveVars cfg inp plain ds (env ++ [(d.name, v)]) bvs
      | some .nilNumber => .error (.panic "nil-number")   -- `val.GetType()` on a nil *MonetaryInt
      | _ => .error (.fault "plain variable not parsed")
    | .accountMeta accE key =>
      match evalAccount env accE with
      | .error e => .error e
      | .ok acc =>
        match inp.accountMeta acc with
        | none => .error (.run "resources" "account-not-found")
        | some md =>
          match md.lookup key with
          | none => .error (.run "resources" "missing-meta")
          | some data =>
            match parseValue cfg d.ty data with
            | .bad => .error (.run "resources" "invalid-meta")
            | .nilNumber => .error (.panic "nil-number")
            | .val v => resolveVars cfg inp plain ds (env ++ [(d.name, v)]) bvs
    | .balance accE assetE =>
      match evalAccount env accE with
      | .error e => .error e
      | .ok acc =>
        match evalAssetE env assetE with
        | .error e => .error e
        | .ok asset =>
          resolveVars cfg inp plain ds (env ++ [(d.name, .monetary asset none)]) (bvs ++ [(d.name, acc, asset)])

/-! ## ResolveBalances -/

mutual
  /-- Account expressions that end up in `neededAccounts` (bounded leaves). -/
  def Source.neededAccts : Source → List Expr
    | .account e od =>
      match od with
      | .unbounded => []
      | _ => if e.isWorld then [] else [e]
    | .maxed _ s => s.neededAccts
    | .inorder ss => ss.neededAccts
  def SourceList.neededAccts : SourceList → List Expr
    | .nil => []
    | .cons s ss => s.neededAccts ++ ss.neededAccts
end

def AllotSrcList.neededAccts : AllotSrcList → List Expr
  | .nil => []
  | .cons _ s r => s.neededAccts ++ r.neededAccts

def VSource.neededAccts : VSource → List Expr
  | .src s => s.neededAccts
  | .allot items => items.neededAccts

def evalAccounts (env : Env) : List Expr → Except Err (List String)
  | [] => .ok []
  | e :: es =>
    match evalAccount env e with
    | .error err => .error err
    | .ok a =>
      match evalAccounts env es with
      | .error err => .error err
      | .ok r => .ok (a :: r)

/-- `Program.NeededBalances`, resolved: (account, asset) pairs. -/
def neededPairs (env : Env) : List Stmt → Except Err (List (String × String))
  | [] => .ok []
  | st :: rest =>
    let here : Except Err (List (String × String)) :=
      match st with
      | .send mon src _ =>
        match leftmostAsset env mon with
        | .error e => .error e
        | .ok asset =>
          match evalAccounts env src.neededAccts with
          | .error e => .error e
          | .ok accs => .ok (accs.map fun a => (a, asset))
      | .sendAll assetE src _ =>
        match evalAssetE env assetE with
        | .error e => .error e
        | .ok asset =>
          match evalAccounts env src.neededAccts with
          | .error e => .error e
          | .ok accs => .ok (accs.map fun a => (a, asset))
      | _ => .ok []
    match here with
    | .error e => .error e
    | .ok h =>
      match neededPairs env rest with
      | .error e => .error e
      | .ok r => .ok (h ++ r)

/-- `UnresolvedResourceBalances` is keyed by the account address only: of several
    `balance()` variables on one account only the last one survives. -/
def liveBalVars : List BalVar → List BalVar
  | [] => []
  | bv :: rest => if rest.any (fun o => o.2.1 = bv.2.1) then liveBalVars rest else bv :: liveBalVars rest

def setEnv (env : Env) (name : String) (v : Value) : Env :=
  env.map fun kv => if kv.1 = name then (kv.1, v) else kv

/-- `ResolveBalances`: world check, query, negative check, amounts of the surviving
    `balance()` variables, initial tracked balances. -/
def initBalances (cfg : Cfg) (inp : Input) (env : Env) (bvs : List BalVar) (stmts : List Stmt) :
    Except Err (Env × Balances × List (String × String)) :=
  match neededPairs env stmts with
  | .error e => .error e
  | .ok needed =>
    if needed.any (fun p => p.1 = "world") then .error (.run "balances" "world-source")
    else
      let live := if cfg.balanceVarsPerAddress then liveBalVars bvs else bvs
      if live.any (fun bv => inp.balance bv.2.1 bv.2.2 < 0) then .error (.run "balances" "negative-balance")
      else
        let env' := live.foldl (fun e bv => setEnv e bv.1 (.monetary bv.2.2 (some (inp.balance bv.2.1 bv.2.2)))) env
        let pairs := live.map (fun bv => (bv.2.1, bv.2.2)) ++ needed
        let bal : Balances :=
          { hasAcct := fun a => pairs.any (fun p => p.1 = a),
            get := fun a c => if pairs.any (fun p => p.1 = a ∧ p.2 = c) then some (inp.balance a c) else none }
        .ok (env', bal, pairs)

/-! ## Top level -/

def initState (b : Balances) : State :=
  { bal := b, postings := [], txMeta := [], accMeta := [], saved := fun _ _ => 0 }

/-- Everything between compilation and `Execute`. -/
def prepare (cfg : Cfg) (s : Script) (inp : Input) : Except Err (Env × Balances × List (String × String)) :=
  match setVars cfg s inp with
  | .error e => .error e
  | .ok plain =>
    match resolveVars cfg inp plain s.vars [] [] with
    | .error e => .error e
    | .ok (env, bvs) => initBalances cfg inp env bvs s.stmts

/-- The whole pipeline `Parse` + `MachineNumscriptRuntimeAdapter.Execute`. -/
def sem (cfg : Cfg) (s : Script) (inp : Input) : Except Err Result :=
  match typecheck s with
  | .error msg => .error (.compile msg)
  | .ok _ =>
    match prepare cfg s inp with
    | .error e => .error e
    | .ok (env, bal, _) =>
      match runStmts cfg env s.stmts (initState bal) with
      | .error e => .error e
      | .ok st => .ok { postings := st.postings, txMeta := st.txMeta, accMeta := st.accMeta, final := st }

end Ledger.Machine
