import Ledger.Machine.Ast
import Ledger.Machine.Allotment
import Ledger.Machine.Validate

/-!
Static checks of the real compiler (`script/compiler/*.go`): `typecheck` returns
the *first logic error in the compiler's visiting order*, with the compiler's
exact message, or `ok`.  (Syntax errors belong to ANTLR and are not modelled:
the model starts from the AST.)
-/
namespace Ledger.Machine

abbrev Decls := List (String × Ty)

/-- `VisitExpr` / `VisitLit` / `VisitVariable`: the type of an expression. -/
def typeExpr (ds : Decls) : Expr → Except String Ty
  | .acct _ => .ok .account
  | .asset s =>
    -- `VisitLit`/`LitAsset`: `machine.ValidateAsset` (commit 6f26ac5)
    if validAsset s then .ok .asset
    else .error ("asset should respect pattern '" ++ assetPatternText ++ "'")
  | .num _ => .ok .number
  | .str _ => .ok .string
  | .portion t =>
    match parsePortionGo t with
    | .ok _ => .ok .portion
    | .error msg => .error msg
  | .mon a _ =>
    match typeExpr ds a with
    | .error e => .error e
    | .ok t =>
      if t = .asset then .ok .monetary
      else .error s!"the expression in monetary literal should be of type 'asset' instead of '{t.name}'"
  | .var x =>
    match ds.lookup x with
    | some t => .ok t
    | none => .error "variable not declared"
  | .add l r =>
    match typeExpr ds l with
    | .error e => .error e
    | .ok .number =>
      match typeExpr ds r with
      | .error e => .error e
      | .ok rt =>
        if rt = .number then .ok .number
        else .error s!"tried to do an arithmetic operation with incompatible left and right-hand side operand types: number and {rt.name}"
    | .ok .monetary =>
      match typeExpr ds r with
      | .error e => .error e
      | .ok rt =>
        if rt = .monetary then .ok .monetary
        else .error s!"tried to do an arithmetic operation with incompatible left and right-hand side operand types: monetary and {rt.name}"
    | .ok lt => .error s!"tried to do an arithmetic operation with unsupported left-hand side operand type: {lt.name}"
  | .sub l r =>
    match typeExpr ds l with
    | .error e => .error e
    | .ok .number =>
      match typeExpr ds r with
      | .error e => .error e
      | .ok rt =>
        if rt = .number then .ok .number
        else .error s!"tried to do an arithmetic operation with incompatible left and right-hand side operand types: number and {rt.name}"
    | .ok .monetary =>
      match typeExpr ds r with
      | .error e => .error e
      | .ok rt =>
        if rt = .monetary then .ok .monetary
        else .error s!"tried to do an arithmetic operation with incompatible left and right-hand side operand types: monetary and {rt.name}"
    | .ok lt => .error s!"tried to do an arithmetic operation with unsupported left-hand side operand type: {lt.name}"

/-- `typeExpr` with a check of the expected type; `msg` builds the compiler's message
    from the name of the actual type. -/
def expectTy (ds : Decls) (e : Expr) (want : Ty) (msg : String → String) : Except String Unit :=
  match typeExpr ds e with
  | .error err => .error err
  | .ok t => if t = want then .ok () else .error (msg t.name)

/-- Identity of the resource an account expression resolves to (constants are
    de-duplicated by value, variables have one resource each). -/
def acctKey : Expr → String
  | .acct s => "c:" ++ s
  | .var x => "v:" ++ x
  | _ => "?"

def isWorldE : Expr → Bool
  | .acct s => s = "world"
  | _ => false

/-- State of `VisitAllotment`'s loop (run from the LAST portion to the first). -/
structure AllotAcc where
  total : Rat := 0
  hasVariable : Bool := false
  hasRemaining : Bool := false

def checkPortion (ds : Decls) (acc : AllotAcc) : PortionE → Except String AllotAcc
  | .lit t =>
    match parsePortionGo t with
    | .ok (.specific r) => .ok { acc with total := r + acc.total }
    | .ok .remaining => .ok acc
    | .error msg => .error msg
  | .var x =>
    match ds.lookup x with
    | none => .error "variable not declared"
    | some t =>
      if t = .portion then .ok { acc with hasVariable := true }
      else .error s!"wrong type: expected type portion for variable: {t.name}"
  | .remaining =>
    if acc.hasRemaining then .error "two uses of `remaining` in the same allocation"
    else .ok { acc with hasRemaining := true }

/-- The loop over the portions, last first: `ps` is the REVERSED portion list. -/
def checkPortionsRev (ds : Decls) : List PortionE → AllotAcc → Except String AllotAcc
  | [], acc => .ok acc
  | p :: ps, acc =>
    match checkPortion ds acc p with
    | .error e => .error e
    | .ok acc' => checkPortionsRev ds ps acc'

/-- `VisitAllotment`. -/
def checkAllotment (ds : Decls) (ps : List PortionE) : Except String Unit :=
  match checkPortionsRev ds ps.reverse {} with
  | .error e => .error e
  | .ok acc =>
    if 1 < acc.total then .error "the sum of known portions is greater than 100%"
    else if acc.total < 1 ∧ ¬ acc.hasRemaining then .error "the sum of portions might be less than 100%"
    else if acc.total = 1 ∧ acc.hasVariable then .error "the sum of portions might be greater than 100%"
    else if acc.total = 1 ∧ acc.hasRemaining then .error "known portions are already equal to 100%"
    else .ok ()

mutual
  /-- `VisitSource`: returns (emptied account resources, has fallback). -/
  def checkSource (ds : Decls) (isAll : Bool) : Source → Except String (List String × Bool)
    | .account e od =>
      match typeExpr ds e with
      | .error err => .error err
      | .ok t =>
        if t ≠ .account then .error "wrong type: expected account or allocation as destination"
        else
          let world := isWorldE e
          let after (fb : Bool) : Except String (List String × Bool) :=
            if fb && isAll then .error "cannot take all balance of an unbounded source"
            else .ok ([acctKey e], fb)
          match od with
          | .none => after world
          | .upTo x =>
            if world then .error "@world is already set to an unbounded overdraft"
            else
              match typeExpr ds x with
              | .error err => .error err
              | .ok tx =>
                if tx ≠ .monetary then .error "wrong type: expected monetary"
                else after false
          | .unbounded =>
            if world then .error "@world is already set to an unbounded overdraft"
            else after true
    | .maxed m s =>
      match checkSource ds false s with
      | .error err => .error err
      | .ok _ =>
        match typeExpr ds m with
        | .error err => .error err
        | .ok t =>
          if t ≠ .monetary then .error "wrong type: expected monetary as max"
          else .ok ([], false)
    | .inorder ss => checkSources ds isAll ss []
  /-- The loop of `SrcInOrder`; `emptied` accumulates. -/
  def checkSources (ds : Decls) (isAll : Bool) : SourceList → List String → Except String (List String × Bool)
    | .nil, emptied => .ok (emptied, false)
    | .cons s rest, emptied =>
      match checkSource ds isAll s with
      | .error err => .error err
      | .ok (em, fb) =>
        let last : Bool := match rest with | .nil => true | .cons _ _ => false
        if fb && !last then .error "an unbounded subsource can only be in last position"
        else if em.any (fun k => emptied.contains k) then .error "already empty at this stage"
        else
          match rest with
          | .nil => .ok (emptied ++ em, fb)
          | .cons _ _ => checkSources ds isAll rest (emptied ++ em)
end

def checkAllotSources (ds : Decls) : AllotSrcList → Except String Unit
  | .nil => .ok ()
  | .cons _ s rest =>
    match checkSource ds false s with
    | .error err => .error err
    | .ok _ => checkAllotSources ds rest

mutual
  /-- `VisitDestinationRecursive`. -/
  def checkDest (ds : Decls) : Dest → Except String Unit
    | .account e => expectTy ds e .account (fun _ => "wrong type: expected account as destination")
    | .inorder items remaining =>
      match checkInOrder ds items with
      | .error err => .error err
      | .ok () => checkKD ds remaining
    | .allot items =>
      match checkAllotment ds items.portions with
      | .error err => .error err
      | .ok () => checkAllotDst ds items
  def checkKD (ds : Decls) : KeptOrDest → Except String Unit
    | .kept => .ok ()
    | .to d => checkDest ds d
  def checkInOrder (ds : Decls) : InOrderDstList → Except String Unit
    | .nil => .ok ()
    | .cons m d rest =>
      match expectTy ds m .monetary (fun _ => "wrong type: expected monetary as max") with
      | .error err => .error err
      | .ok () =>
        match checkKD ds d with
        | .error err => .error err
        | .ok () => checkInOrder ds rest
  def checkAllotDst (ds : Decls) : AllotDstList → Except String Unit
    | .nil => .ok ()
    | .cons _ d rest =>
      match checkKD ds d with
      | .error err => .error err
      | .ok () => checkAllotDst ds rest
end

def checkStmt (ds : Decls) : Stmt → Except String Unit
  | .print e => (typeExpr ds e).map fun _ => ()
  | .fail => .ok ()
  | .setTxMeta _ e => (typeExpr ds e).map fun _ => ()
  | .setAccountMeta acc _ e =>
    match typeExpr ds e with
    | .error err => .error err
    | .ok _ =>
      expectTy ds acc .account
        (fun t => s!"set_account_meta: expression is of type {t}, and should be of type account")
  | .save mon acc =>
    match expectTy ds mon .monetary
        (fun t => s!"save monetary from account: the first expression should be of type 'monetary' instead of '{t}'") with
    | .error err => .error err
    | .ok () =>
      expectTy ds acc .account
        (fun t => s!"save monetary from account: the second expression should be of type 'account' instead of '{t}'")
  | .saveAll asset acc =>
    match expectTy ds asset .asset
        (fun t => s!"save monetary all from account: the first expression should be of type 'asset' instead of '{t}'") with
    | .error err => .error err
    | .ok () =>
      expectTy ds acc .account
        (fun t => s!"save monetary from account: the second expression should be of type 'account' instead of '{t}'")
  | .send mon src dst =>
    match expectTy ds mon .monetary
        (fun t => s!"send monetary: the expression should be of type 'monetary' instead of '{t}'") with
    | .error err => .error err
    | .ok () =>
      let srcRes : Except String Unit :=
        match src with
        | .src s => (checkSource ds false s).map fun _ => ()
        | .allot items =>
          match checkAllotment ds items.portions with
          | .error err => .error err
          | .ok () => checkAllotSources ds items
      match srcRes with
      | .error err => .error err
      | .ok () => checkDest ds dst
  | .sendAll asset src dst =>
    match expectTy ds asset .asset
        (fun t => s!"send monetary all: the expression should be of type 'asset' instead of '{t}'") with
    | .error err => .error err
    | .ok () =>
      match src with
      | .allot _ => .error "cannot take all balance of an allotment source"
      | .src s =>
        match checkSource ds true s with
        | .error err => .error err
        | .ok _ => checkDest ds dst

def checkStmts (ds : Decls) : List Stmt → Except String Unit
  | [] => .ok ()
  | s :: ss =>
    match checkStmt ds s with
    | .error err => .error err
    | .ok () => checkStmts ds ss

/-- `VisitVars`: declarations are visible to later origins only. -/
def checkVars : List VarDecl → Decls → Except String Decls
  | [], ds => .ok ds
  | v :: vs, ds =>
    if (ds.lookup v.name).isSome then .error s!"duplicate variable ${v.name}"
    else
      let r : Except String Unit :=
        match v.orig with
        | .none => .ok ()
        | .accountMeta acc _ =>
          expectTy ds acc .account
            (fun _ => s!"variable ${v.name}: type should be 'account' to pull account metadata")
        | .balance acc asset =>
          if v.ty ≠ .monetary then
            .error s!"variable ${v.name}: type should be 'monetary' to pull account balance"
          else
            match expectTy ds acc .account
                (fun _ => s!"variable ${v.name}: the first argument to pull account balance should be of type 'account'") with
            | .error err => .error err
            | .ok () =>
              expectTy ds asset .asset
                (fun _ => s!"variable ${v.name}: the second argument to pull account balance should be of type 'asset'")
      match r with
      | .error err => .error err
      | .ok () => checkVars vs (ds ++ [(v.name, v.ty)])

/-- All logic checks of `compiler.Compile`, first error first. -/
def typecheck (s : Script) : Except String Decls :=
  match checkVars s.vars [] with
  | .error err => .error err
  | .ok ds =>
    match checkStmts ds s.stmts with
    | .error err => .error err
    | .ok () => .ok ds

end Ledger.Machine
