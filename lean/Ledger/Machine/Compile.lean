import Ledger.Machine.Check

/-!
Byte-code level, part 1: `compile : Script → Except String Program`, a model of the
emission of the real compiler (script/compiler/*.go) — instruction for instruction,
including the allocation order and de-duplication of resources (constants by value,
monetary literals by (asset address, amount)) and `NeededBalances`.  Compared with
the real compiler's output on every generated program that compiles.
Core-only, total (structural recursion on the syntax).
-/
namespace Ledger.Machine

/-- Constant values (`program.Constant`). -/
inductive CValue where
  | account (s : String)
  | asset (s : String)
  | number (n : Int)
  | str (s : String)
  | portion (p : Portion)
  deriving Repr, DecidableEq, Inhabited

/-- `program.Resource`. Addresses are indexes in the resource table. -/
inductive Res where
  | const (v : CValue)
  | var (ty : Ty) (name : String)
  | varMeta (ty : Ty) (name : String) (acc : Nat) (key : String)
  | varBalance (name : String) (acc asset : Nat)
  | mon (asset : Nat) (amt : Int)
  deriving Repr, DecidableEq, Inhabited

/-- Decoded instructions: OP_APUSH carries its little-endian uint16 operand. -/
inductive Instr where
  | apush (addr : Nat)
  | op (code : Nat)
  deriving Repr, DecidableEq, Inhabited

structure Program where
  /-- the emitted instructions -/
  code : List Instr
  /-- their byte encoding (`Program.Instructions`) -/
  instrs : List Nat
  res : List Res
  /-- `NeededBalances`: (account address, monetary/asset address), no duplicates -/
  needed : List (Nat × Nat)
  deriving Repr, DecidableEq, Inhabited

-- opcodes (vm/program/instructions.go)
def OP_APUSH := 1
def OP_BUMP := 2
def OP_DELETE := 3
def OP_IADD := 4
def OP_ISUB := 5
def OP_PRINT := 6
def OP_FAIL := 7
def OP_ASSET := 8
def OP_MONETARY_NEW := 9
def OP_MONETARY_ADD := 10
def OP_MONETARY_SUB := 11
def OP_MAKE_ALLOTMENT := 12
def OP_TAKE_ALL := 13
def OP_TAKE_ALWAYS := 14
def OP_TAKE := 15
def OP_TAKE_MAX := 16
def OP_FUNDING_ASSEMBLE := 17
def OP_FUNDING_SUM := 18
def OP_FUNDING_REVERSE := 19
def OP_REPAY := 20
def OP_ALLOC := 21
def OP_SEND := 22
def OP_TX_META := 23
def OP_ACCOUNT_META := 24
def OP_SAVE := 25

/-- `PushAddress`: OP_APUSH + little-endian uint16; other opcodes are one byte. -/
def encode : List Instr → List Nat
  | [] => []
  | .apush a :: is => OP_APUSH :: (a % 256) :: (a / 256 % 256) :: encode is
  | .op c :: is => c :: encode is

/-- State of `parseVisitor` (explicit state passing: every compile function maps a
    state to a result and a new state, or an error). -/
structure CS where
  code : List Instr := []
  res : List Res := []
  needed : List (Nat × Nat) := []
  vars : List (String × Nat) := []

abbrev CR (α : Type) := Except String (α × CS)

/-- Unit-valued compile steps. -/
abbrev Act := CS → Except String CS

def emitOp (c : Nat) : Act := fun cs => .ok { cs with code := cs.code ++ [.op c] }
def emitPush (a : Nat) : Act := fun cs => .ok { cs with code := cs.code ++ [.apush a] }

/-- Sequencing of steps. -/
def seqA : List Act → Act
  | [], cs => .ok cs
  | a :: as, cs =>
    match a cs with
    | .error e => .error e
    | .ok cs1 => seqA as cs1

def findIdx? {α} (p : α → Bool) (xs : List α) : Option Nat :=
  if xs.findIdx p < xs.length then some (xs.findIdx p) else none

/-- `AllocateResource` for a non-constant resource: always appended. -/
def allocRes (r : Res) (cs : CS) : CR Nat :=
  if cs.res.length ≥ 65536 then .error "number of unique constants exceeded 65536"
  else .ok (cs.res.length, { cs with res := cs.res ++ [r] })

/-- `AllocateResource` for a constant: `findConstant` (`ValueEquals`) first. -/
def allocConst (c : CValue) (cs : CS) : CR Nat :=
  match findIdx? (fun r => r == Res.const c) cs.res with
  | some i => .ok (i, cs)
  | none => allocRes (.const c) cs

def pushConst (c : CValue) : Act := fun cs =>
  match allocConst c cs with
  | .error e => .error e
  | .ok (a, cs1) => emitPush a cs1

def pushInteger (n : Int) : Act := pushConst (.number n)

def bump (n : Int) : Act := seqA [pushInteger n, emitOp OP_BUMP]

def resTy : Res → Ty
  | .const (.account _) => .account
  | .const (.asset _) => .asset
  | .const (.number _) => .number
  | .const (.str _) => .string
  | .const (.portion _) => .portion
  | .var ty _ => ty
  | .varMeta ty _ _ _ => ty
  | .varBalance _ _ _ => .monetary
  | .mon _ _ => .monetary

/-- Emits the push of `a` when `push` is set. -/
def pushIf (push : Bool) (a : Nat) (cs : CS) : CS :=
  if push then { cs with code := cs.code ++ [.apush a] } else cs

def opIf (push : Bool) (c : Nat) (cs : CS) : CS :=
  if push then { cs with code := cs.code ++ [.op c] } else cs

/-- `VisitExpr`: returns the type and the address `VisitExpr` returns (`none` for a
    number sum). Type errors cannot occur after `typecheck`; they are reported with
    a generic message. -/
def cExpr : Expr → Bool → CS → CR (Ty × Option Nat)
  | .acct s, push, cs =>
    match allocConst (.account s) cs with
    | .error e => .error e
    | .ok (a, cs1) => .ok ((.account, some a), pushIf push a cs1)
  | .asset s, push, cs =>
    match allocConst (.asset s) cs with
    | .error e => .error e
    | .ok (a, cs1) => .ok ((.asset, some a), pushIf push a cs1)
  | .num n, push, cs =>
    match allocConst (.number n) cs with
    | .error e => .error e
    | .ok (a, cs1) => .ok ((.number, some a), pushIf push a cs1)
  | .str s, push, cs =>
    match allocConst (.str s) cs with
    | .error e => .error e
    | .ok (a, cs1) => .ok ((.string, some a), pushIf push a cs1)
  | .portion t, push, cs =>
    match parsePortionGo t with
    | .error e => .error e
    | .ok p =>
      match allocConst (.portion p) cs with
      | .error e => .error e
      | .ok (a, cs1) => .ok ((.portion, some a), pushIf push a cs1)
  | .mon ae n, push, cs =>
    match cExpr ae false cs with
    | .error e => .error e
    | .ok ((_, none), _) => .error "monetary literal: no asset address"
    | .ok ((_, some assetAddr), cs1) =>
      match findIdx? (fun r => r == Res.mon assetAddr n) cs1.res with
      | some i => .ok ((.monetary, some i), pushIf push i cs1)
      | none =>
        match allocRes (.mon assetAddr n) cs1 with
        | .error e => .error e
        | .ok (a, cs2) => .ok ((.monetary, some a), pushIf push a cs2)
  | .var x, push, cs =>
    match cs.vars.lookup x with
    | none => .error "variable not declared"
    | some idx =>
      match cs.res[idx]? with
      | none => .error "variable resource missing"
      | some r => .ok ((resTy r, some idx), pushIf push idx cs)
  | .add l r, push, cs =>
    match cExpr l push cs with
    | .error e => .error e
    | .ok ((lt, la), cs1) =>
      match cExpr r push cs1 with
      | .error e => .error e
      | .ok (_, cs2) =>
        match lt with
        | .number => .ok ((.number, none), opIf push OP_IADD cs2)
        | .monetary => .ok ((.monetary, la), opIf push OP_MONETARY_ADD cs2)
        | _ => .error "arithmetic on unsupported type"
  | .sub l r, push, cs =>
    match cExpr l push cs with
    | .error e => .error e
    | .ok ((lt, la), cs1) =>
      match cExpr r push cs1 with
      | .error e => .error e
      | .ok (_, cs2) =>
        match lt with
        | .number => .ok ((.number, none), opIf push OP_ISUB cs2)
        | .monetary => .ok ((.monetary, la), opIf push OP_MONETARY_SUB cs2)
        | _ => .error "arithmetic on unsupported type"

/-- The expression's code (value pushed). -/
def pushExpr (e : Expr) : Act := fun cs =>
  match cExpr e true cs with
  | .error err => .error err
  | .ok (_, cs1) => .ok cs1

def cExprAddr (e : Expr) (cs : CS) : CR Nat :=
  match cExpr e false cs with
  | .error err => .error err
  | .ok ((_, some a), cs1) => .ok (a, cs1)
  | .ok ((_, none), _) => .error "expression has no address"

/-- `VisitExpr(e, false)` followed by `PushAddress(*addr)`. -/
def pushAddrOf (e : Expr) : Act := fun cs =>
  match cExprAddr e cs with
  | .error err => .error err
  | .ok (a, cs1) => emitPush a cs1

/-- `isWorld`: the resource is the constant account `world`. -/
def isWorldAddr (a : Nat) (cs : CS) : Bool :=
  cs.res[a]? == some (Res.const (.account "world"))

/-- `TakeFromSource`. -/
def cTakeFromSource (fb : Option Nat) : Act :=
  match fb with
  | none => seqA [emitOp OP_TAKE, bump 1, emitOp OP_REPAY]
  | some f => seqA [emitOp OP_TAKE_MAX, bump 1, emitOp OP_REPAY, emitPush f, bump 2,
      emitOp OP_TAKE_ALWAYS, pushInteger 2, emitOp OP_FUNDING_ASSEMBLE]

mutual
  /-- `VisitSource`: (needed accounts, fallback). -/
  def cSource (pushAsset : Act) : Source → CS → CR (List Nat × Option Nat)
    | .account e od, cs =>
      match cExpr e true cs with
      | .error err => .error err
      | .ok ((_, none), _) => .error "expression has no address"
      | .ok ((_, some acc), cs1) =>
        let world := isWorldAddr acc cs1
        match od with
        | .none =>
          match seqA [pushAsset, pushInteger 0, emitOp OP_MONETARY_NEW,
              emitOp (if world then OP_TAKE_ALWAYS else OP_TAKE_ALL)] cs1 with
          | .error err => .error err
          | .ok cs2 => .ok ((if world then [] else [acc], if world then some acc else none), cs2)
        | .upTo x =>
          -- commit 7a34851: the overdraft must be in the asset being sent
          match seqA [pushExpr x, pushAsset, pushInteger 0, emitOp OP_MONETARY_NEW, emitOp OP_MONETARY_ADD,
              emitOp OP_TAKE_ALL] cs1 with
          | .error err => .error err
          | .ok cs2 => .ok (([acc], none), cs2)
        | .unbounded =>
          match seqA [pushAsset, pushInteger 0, emitOp OP_MONETARY_NEW, emitOp OP_TAKE_ALWAYS] cs1 with
          | .error err => .error err
          | .ok cs2 => .ok (([], some acc), cs2)
    | .maxed m s, cs =>
      match cSource pushAsset s cs with
      | .error err => .error err
      | .ok ((accs, subfb), cs1) =>
        let tail : Act :=
          match subfb with
          | some f => seqA [emitPush f, bump 2, emitOp OP_TAKE_ALWAYS, pushInteger 2, emitOp OP_FUNDING_ASSEMBLE]
          | none => seqA [bump 1, emitOp OP_DELETE]
        match seqA [pushExpr m, emitOp OP_TAKE_MAX, bump 1, emitOp OP_REPAY, tail] cs1 with
        | .error err => .error err
        | .ok cs2 => .ok ((accs, none), cs2)
    | .inorder ss, cs =>
      match cSources pushAsset ss cs with
      | .error err => .error err
      | .ok ((accs, fb), cs1) =>
        match seqA [pushInteger ss.length, emitOp OP_FUNDING_ASSEMBLE] cs1 with
        | .error err => .error err
        | .ok cs2 => .ok ((accs, fb), cs2)
  def cSources (pushAsset : Act) : SourceList → CS → CR (List Nat × Option Nat)
    | .nil, cs => .ok (([], none), cs)
    | .cons s rest, cs =>
      match cSource pushAsset s cs with
      | .error err => .error err
      | .ok ((a1, f1), cs1) =>
        match rest with
        | .nil => .ok ((a1, f1), cs1)
        | .cons _ _ =>
          match cSources pushAsset rest cs1 with
          | .error err => .error err
          | .ok ((a2, f2), cs2) => .ok ((a1 ++ a2, f2), cs2)
end

def addNeeded (addr : Nat) (nd : List (Nat × Nat)) (a : Nat) : List (Nat × Nat) :=
  if nd.contains (a, addr) then nd else nd ++ [(a, addr)]

def setNeeded (accs : List Nat) (addr : Nat) : Act := fun cs =>
  .ok { cs with needed := accs.foldl (addNeeded addr) cs.needed }

/-- One portion of `VisitAllotment`. -/
def cPortion : PortionE → Act
  | .lit t => fun cs =>
    match parsePortionGo t with
    | .error e => .error e
    | .ok v => pushConst (.portion v) cs
  | .var x => fun cs =>
    match cs.vars.lookup x with
    | none => .error "variable not declared"
    | some idx => emitPush idx cs
  | .remaining => pushConst (.portion .remaining)

/-- `VisitAllotment`: portions pushed from the last to the first. -/
def cAllotment (ps : List PortionE) : Act :=
  seqA (ps.reverse.map cPortion ++ [pushInteger ps.length, emitOp OP_MAKE_ALLOTMENT])

/-- The per-source loop of a source allotment; `i` is the 1-based index. -/
def cAllotSources (pushAsset : Act) (monAddr : Nat) : AllotSrcList → Nat → Act
  | .nil, _ => fun cs => .ok cs
  | .cons _ s rest, i => fun cs =>
    match cSource pushAsset s cs with
    | .error err => .error err
    | .ok ((accs, fb), cs1) =>
      seqA [setNeeded accs monAddr, bump i, cTakeFromSource fb,
        cAllotSources pushAsset monAddr rest (i + 1)] cs1

mutual
  /-- `VisitDestinationRecursive`. -/
  def cDest : Dest → Act
    | .account e => seqA [emitOp OP_FUNDING_SUM, emitOp OP_TAKE, pushExpr e, emitOp OP_SEND]
    | .inorder items rem =>
      seqA [emitOp OP_FUNDING_SUM, emitOp OP_ASSET, pushInteger 0, emitOp OP_MONETARY_NEW, bump 1,
        cInOrder items,
        emitOp OP_FUNDING_REVERSE, bump 1, emitOp OP_TAKE, emitOp OP_FUNDING_REVERSE, bump 1,
        emitOp OP_FUNDING_REVERSE,
        cKD rem,
        bump 1, pushInteger 2, emitOp OP_FUNDING_ASSEMBLE]
    | .allot items =>
      seqA [emitOp OP_FUNDING_SUM, cAllotment items.portions, emitOp OP_ALLOC, bump items.length,
        cAllotDst items]
  def cKD : KeptOrDest → Act
    | .kept => fun cs => .ok cs
    | .to d => cDest d
  def cInOrder : InOrderDstList → Act
    | .nil => fun cs => .ok cs
    | .cons m d rest =>
      seqA [pushExpr m, emitOp OP_TAKE_MAX, bump 2, emitOp OP_DELETE,
        cKD d,
        emitOp OP_FUNDING_SUM, bump 3, emitOp OP_MONETARY_ADD, bump 1, bump 2, pushInteger 2,
        emitOp OP_FUNDING_ASSEMBLE,
        cInOrder rest]
  def cAllotDst : AllotDstList → Act
    | .nil => fun cs => .ok cs
    | .cons _ d rest =>
      seqA [bump 1, emitOp OP_TAKE, cKD d, bump 1, pushInteger 2, emitOp OP_FUNDING_ASSEMBLE,
        cAllotDst rest]
end

/-- `VisitDestination`. -/
def cDestination (d : Dest) : Act := seqA [cDest d, emitOp OP_REPAY]

def cStmt : Stmt → Act
  | .print e => seqA [pushExpr e, emitOp OP_PRINT]
  | .fail => emitOp OP_FAIL
  | .setTxMeta k e => seqA [pushExpr e, pushConst (.str k), emitOp OP_TX_META]
  | .setAccountMeta acc k e =>
    seqA [pushExpr e, pushConst (.str k), pushAddrOf acc, emitOp OP_ACCOUNT_META]
  | .save mon acc => seqA [pushAddrOf mon, pushAddrOf acc, emitOp OP_SAVE]
  | .saveAll asset acc => seqA [pushAddrOf asset, pushAddrOf acc, emitOp OP_SAVE]
  | .sendAll assetE src dst => fun cs =>
    match cExprAddr assetE cs with
    | .error err => .error err
    | .ok (assetAddr, cs1) =>
      match src with
      | .allot _ => .error "cannot take all balance of an allotment source"
      | .src s =>
        match cSource (emitPush assetAddr) s cs1 with
        | .error err => .error err
        | .ok ((accs, _), cs2) => seqA [setNeeded accs assetAddr, cDestination dst] cs2
  | .send mon src dst => fun cs =>
    match cExprAddr mon cs with
    | .error err => .error err
    | .ok (monAddr, cs1) =>
      let pushAsset : Act := seqA [emitPush monAddr, emitOp OP_ASSET]
      match src with
      | .src s =>
        match cSource pushAsset s cs1 with
        | .error err => .error err
        | .ok ((accs, fb), cs2) =>
          seqA [setNeeded accs monAddr, pushExpr mon, cTakeFromSource fb, cDestination dst] cs2
      | .allot items =>
        seqA [pushExpr mon, cAllotment items.portions, emitOp OP_ALLOC,
          cAllotSources pushAsset monAddr items 1, pushInteger items.length,
          emitOp OP_FUNDING_ASSEMBLE, cDestination dst] cs1

/-- One declaration of `VisitVars`. -/
def cVar (v : VarDecl) (cs : CS) : CR Nat :=
  match v.orig with
  | .none => allocRes (.var v.ty v.name) cs
  | .accountMeta acc key =>
    match cExprAddr acc cs with
    | .error err => .error err
    | .ok (a, cs1) => allocRes (.varMeta v.ty v.name a key) cs1
  | .balance acc asset =>
    match cExprAddr acc cs with
    | .error err => .error err
    | .ok (a, cs1) =>
      match cExprAddr asset cs1 with
      | .error err => .error err
      | .ok (c, cs2) => allocRes (.varBalance v.name a c) cs2

def cVars : List VarDecl → Act
  | [], cs => .ok cs
  | v :: vs, cs =>
    match cVar v cs with
    | .error err => .error err
    | .ok (idx, cs1) => cVars vs { cs1 with vars := cs1.vars ++ [(v.name, idx)] }

def cStmts : List Stmt → Act
  | [], cs => .ok cs
  | s :: ss, cs =>
    match cStmt s cs with
    | .error err => .error err
    | .ok cs1 => cStmts ss cs1

/-- `compiler.Compile` after parsing: the compiler's checks (`typecheck`), then the
    emission. -/
def compile (s : Script) : Except String Program :=
  match typecheck s with
  | .error e => .error e
  | .ok _ =>
    match cVars s.vars {} with
    | .error e => .error e
    | .ok cs1 =>
      match cStmts s.stmts cs1 with
      | .error e => .error e
      | .ok st => .ok { code := st.code, instrs := encode st.code, res := st.res, needed := st.needed }

end Ledger.Machine
