import Ledger.Machine.Check

/-!
Byte-code level, part 1: `compile : Script → Except String Program`, a model of the
emission of the real compiler (script/compiler/*.go) — instruction for instruction,
including the allocation order and de-duplication of resources (constants by value,
monetary literals by (asset address, amount)) and `NeededBalances`.  Compared with
the real compiler's output on every generated program that compiles.
Core-only, total (structural recursion on the syntax).
-/
namespace Ledger.Machine

/-- Constant values (`program.Constant`). -/
inductive CValue where
  | account (s : String)
  | asset (s : String)
  | number (n : Int)
  | str (s : String)
  | portion (p : Portion)
  deriving Repr, DecidableEq, Inhabited

/-- `program.Resource`. Addresses are indexes in the resource table. -/
inductive Res where
  | const (v : CValue)
  | var (ty : Ty) (name : String)
  | varMeta (ty : Ty) (name : String) (acc : Nat) (key : String)
  | varBalance (name : String) (acc asset : Nat)
  | mon (asset : Nat) (amt : Int)
  deriving Repr, DecidableEq, Inhabited

structure Program where
  instrs : List Nat
  res : List Res
  /-- `NeededBalances`: (account address, monetary/asset address), no duplicates -/
  needed : List (Nat × Nat)
  deriving Repr, DecidableEq, Inhabited

-- opcodes (vm/program/instructions.go)
def OP_APUSH := 1
def OP_BUMP := 2
def OP_DELETE := 3
def OP_IADD := 4
def OP_ISUB := 5
def OP_PRINT := 6
def OP_FAIL := 7
def OP_ASSET := 8
def OP_MONETARY_NEW := 9
def OP_MONETARY_ADD := 10
def OP_MONETARY_SUB := 11
def OP_MAKE_ALLOTMENT := 12
def OP_TAKE_ALL := 13
def OP_TAKE_ALWAYS := 14
def OP_TAKE := 15
def OP_TAKE_MAX := 16
def OP_FUNDING_ASSEMBLE := 17
def OP_FUNDING_SUM := 18
def OP_FUNDING_REVERSE := 19
def OP_REPAY := 20
def OP_ALLOC := 21
def OP_SEND := 22
def OP_TX_META := 23
def OP_ACCOUNT_META := 24
def OP_SAVE := 25

/-- State of `parseVisitor`. -/
structure CS where
  instrs : Array Nat := #[]
  res : Array Res := #[]
  needed : List (Nat × Nat) := []
  vars : List (String × Nat) := []

abbrev CM := StateT CS (Except String)

def emit (b : Nat) : CM Unit := modify fun s => { s with instrs := s.instrs.push b }

/-- `PushAddress`: OP_APUSH + little-endian uint16. -/
def apush (a : Nat) : CM Unit := do
  emit OP_APUSH; emit (a % 256); emit (a / 256 % 256)

def findIdx? {α} (p : α → Bool) (xs : List α) : Option Nat :=
  let i := xs.findIdx p
  if i < xs.length then some i else none

/-- `AllocateResource` for a non-constant resource: always appended. -/
def allocRes (r : Res) : CM Nat := do
  let s ← get
  if s.res.size ≥ 65536 then throw "number of unique constants exceeded 65536"
  set { s with res := s.res.push r }
  pure s.res.size

/-- `AllocateResource` for a constant: `findConstant` (`ValueEquals`) first. -/
def allocConst (c : CValue) : CM Nat := do
  let s ← get
  match findIdx? (fun r => r == Res.const c) s.res.toList with
  | some i => pure i
  | none => allocRes (.const c)

def pushInteger (n : Int) : CM Unit := do
  let a ← allocConst (.number n); apush a

def bump (n : Int) : CM Unit := do
  pushInteger n; emit OP_BUMP

def resTy : Res → Ty
  | .const (.account _) => .account
  | .const (.asset _) => .asset
  | .const (.number _) => .number
  | .const (.str _) => .string
  | .const (.portion _) => .portion
  | .var ty _ => ty
  | .varMeta ty _ _ _ => ty
  | .varBalance _ _ _ => .monetary
  | .mon _ _ => .monetary

/-- `VisitExpr`: returns the type and the address `VisitExpr` returns (`none` for a
    number sum). Type errors cannot occur after `typecheck`; they are reported with
    a generic message. -/
def cExpr : Expr → Bool → CM (Ty × Option Nat)
  | .acct s, push => do
    let a ← allocConst (.account s); if push then apush a
    pure (.account, some a)
  | .asset s, push => do
    let a ← allocConst (.asset s); if push then apush a
    pure (.asset, some a)
  | .num n, push => do
    let a ← allocConst (.number n); if push then apush a
    pure (.number, some a)
  | .str s, push => do
    let a ← allocConst (.str s); if push then apush a
    pure (.string, some a)
  | .portion t, push => do
    match parsePortionGo t with
    | .error e => throw e
    | .ok p =>
      let a ← allocConst (.portion p); if push then apush a
      pure (.portion, some a)
  | .mon ae n, push => do
    let (_, aa) ← cExpr ae false
    match aa with
    | none => throw "monetary literal: no asset address"
    | some assetAddr =>
      let s ← get
      let a ← match findIdx? (fun r => r == Res.mon assetAddr n) s.res.toList with
        | some i => pure i
        | none => allocRes (.mon assetAddr n)
      if push then apush a
      pure (.monetary, some a)
  | .var x, push => do
    let s ← get
    match s.vars.lookup x with
    | none => throw "variable not declared"
    | some idx =>
      if push then apush idx
      pure (resTy (s.res.toList.getD idx (.const (.number 0))), some idx)
  | .add l r, push => do
    let (lt, la) ← cExpr l push
    let _ ← cExpr r push
    match lt with
    | .number => do
      if push then emit OP_IADD
      pure (.number, none)
    | .monetary => do
      if push then emit OP_MONETARY_ADD
      pure (.monetary, la)
    | _ => throw "arithmetic on unsupported type"
  | .sub l r, push => do
    let (lt, la) ← cExpr l push
    let _ ← cExpr r push
    match lt with
    | .number => do
      if push then emit OP_ISUB
      pure (.number, none)
    | .monetary => do
      if push then emit OP_MONETARY_SUB
      pure (.monetary, la)
    | _ => throw "arithmetic on unsupported type"

def cExprAddr (e : Expr) (push : Bool) : CM Nat := do
  match (← cExpr e push).2 with
  | some a => pure a
  | none => throw "expression has no address"

/-- `isWorld`: the resource is the constant account `world`. -/
def isWorldAddr (a : Nat) : CM Bool := do
  let s ← get
  pure (s.res.toList.getD a (.const (.number 0)) == Res.const (.account "world"))

/-- `TakeFromSource`. -/
def cTakeFromSource (fb : Option Nat) : CM Unit := do
  match fb with
  | none => emit OP_TAKE; bump 1; emit OP_REPAY
  | some f =>
    emit OP_TAKE_MAX; bump 1; emit OP_REPAY
    apush f; bump 2; emit OP_TAKE_ALWAYS; pushInteger 2; emit OP_FUNDING_ASSEMBLE

mutual
  /-- `VisitSource`: (needed accounts, fallback). -/
  def cSource (pushAsset : CM Unit) : Source → CM (List Nat × Option Nat)
    | .account e od => do
      let acc ← cExprAddr e true
      let world ← isWorldAddr acc
      match od with
      | .none =>
        pushAsset; pushInteger 0; emit OP_MONETARY_NEW
        emit (if world then OP_TAKE_ALWAYS else OP_TAKE_ALL)
        pure (if world then [] else [acc], if world then some acc else none)
      | .upTo x =>
        let _ ← cExpr x true
        -- commit 7a34851: the overdraft must be in the asset being sent
        pushAsset; pushInteger 0; emit OP_MONETARY_NEW; emit OP_MONETARY_ADD
        emit OP_TAKE_ALL
        pure ([acc], none)
      | .unbounded =>
        pushAsset; pushInteger 0; emit OP_MONETARY_NEW; emit OP_TAKE_ALWAYS
        pure ([], some acc)
    | .maxed m s => do
      let (accs, subfb) ← cSource pushAsset s
      let _ ← cExpr m true
      emit OP_TAKE_MAX; bump 1; emit OP_REPAY
      match subfb with
      | some f => apush f; bump 2; emit OP_TAKE_ALWAYS; pushInteger 2; emit OP_FUNDING_ASSEMBLE
      | none => bump 1; emit OP_DELETE
      pure (accs, none)
    | .inorder ss => do
      let (accs, fb) ← cSources pushAsset ss
      pushInteger ss.length; emit OP_FUNDING_ASSEMBLE
      pure (accs, fb)
  def cSources (pushAsset : CM Unit) : SourceList → CM (List Nat × Option Nat)
    | .nil => pure ([], none)
    | .cons s rest => do
      let (a1, f1) ← cSource pushAsset s
      match rest with
      | .nil => pure (a1, f1)
      | .cons _ _ =>
        let (a2, f2) ← cSources pushAsset rest
        pure (a1 ++ a2, f2)
end

def addNeeded (addr : Nat) (nd : List (Nat × Nat)) (a : Nat) : List (Nat × Nat) :=
  if nd.contains (a, addr) then nd else nd ++ [(a, addr)]

def setNeeded (accs : List Nat) (addr : Nat) : CM Unit :=
  modify fun s => { s with needed := accs.foldl (addNeeded addr) s.needed }

/-- `VisitAllotment`: portions pushed from the last to the first. -/
def cAllotment (ps : List PortionE) : CM Unit := do
  for p in ps.reverse do
    match p with
    | .lit t =>
      match parsePortionGo t with
      | .error e => throw e
      | .ok v => let a ← allocConst (.portion v); apush a
    | .var x =>
      let s ← get
      match s.vars.lookup x with
      | none => throw "variable not declared"
      | some idx => apush idx
    | .remaining => let a ← allocConst (.portion .remaining); apush a
  pushInteger ps.length
  emit OP_MAKE_ALLOTMENT

/-- The per-source loop of a source allotment; `i` is the 1-based index. -/
def cAllotSources (pushAsset : CM Unit) (monAddr : Nat) : AllotSrcList → Nat → CM Unit
  | .nil, _ => pure ()
  | .cons _ s rest, i => do
    let (accs, fb) ← cSource pushAsset s
    setNeeded accs monAddr
    bump i
    cTakeFromSource fb
    cAllotSources pushAsset monAddr rest (i + 1)

mutual
  /-- `VisitDestinationRecursive`. -/
  def cDest : Dest → CM Unit
    | .account e => do
      emit OP_FUNDING_SUM; emit OP_TAKE
      let _ ← cExpr e true
      emit OP_SEND
    | .inorder items rem => do
      emit OP_FUNDING_SUM; emit OP_ASSET; pushInteger 0; emit OP_MONETARY_NEW; bump 1
      cInOrder items
      emit OP_FUNDING_REVERSE; bump 1; emit OP_TAKE; emit OP_FUNDING_REVERSE; bump 1
      emit OP_FUNDING_REVERSE
      cKD rem
      bump 1; pushInteger 2; emit OP_FUNDING_ASSEMBLE
    | .allot items => do
      emit OP_FUNDING_SUM
      cAllotment items.portions
      emit OP_ALLOC
      bump items.length
      cAllotDst items
  def cKD : KeptOrDest → CM Unit
    | .kept => pure ()
    | .to d => cDest d
  def cInOrder : InOrderDstList → CM Unit
    | .nil => pure ()
    | .cons m d rest => do
      let _ ← cExpr m true
      emit OP_TAKE_MAX; bump 2; emit OP_DELETE
      cKD d
      emit OP_FUNDING_SUM; bump 3; emit OP_MONETARY_ADD; bump 1; bump 2; pushInteger 2
      emit OP_FUNDING_ASSEMBLE
      cInOrder rest
  def cAllotDst : AllotDstList → CM Unit
    | .nil => pure ()
    | .cons _ d rest => do
      bump 1; emit OP_TAKE
      cKD d
      bump 1; pushInteger 2; emit OP_FUNDING_ASSEMBLE
      cAllotDst rest
end

/-- `VisitDestination`. -/
def cDestination (d : Dest) : CM Unit := do cDest d; emit OP_REPAY

def cStmt : Stmt → CM Unit
  | .print e => do let _ ← cExpr e true; emit OP_PRINT
  | .fail => emit OP_FAIL
  | .setTxMeta k e => do
    let _ ← cExpr e true
    let a ← allocConst (.str k); apush a; emit OP_TX_META
  | .setAccountMeta acc k e => do
    let _ ← cExpr e true
    let a ← allocConst (.str k); apush a
    let ac ← cExprAddr acc false; apush ac
    emit OP_ACCOUNT_META
  | .save mon acc => do
    let a ← cExprAddr mon false; apush a
    let ac ← cExprAddr acc false; apush ac
    emit OP_SAVE
  | .saveAll asset acc => do
    let a ← cExprAddr asset false; apush a
    let ac ← cExprAddr acc false; apush ac
    emit OP_SAVE
  | .sendAll assetE src dst => do
    let assetAddr ← cExprAddr assetE false
    match src with
    | .allot _ => throw "cannot take all balance of an allotment source"
    | .src s =>
      let (accs, _) ← cSource (apush assetAddr) s
      setNeeded accs assetAddr
      cDestination dst
  | .send mon src dst => do
    let monAddr ← cExprAddr mon false
    let pushAsset : CM Unit := do apush monAddr; emit OP_ASSET
    match src with
    | .src s =>
      let (accs, fb) ← cSource pushAsset s
      setNeeded accs monAddr
      let _ ← cExpr mon true
      cTakeFromSource fb
    | .allot items =>
      let _ ← cExpr mon true
      cAllotment items.portions
      emit OP_ALLOC
      cAllotSources pushAsset monAddr items 1
      pushInteger items.length
      emit OP_FUNDING_ASSEMBLE
    cDestination dst

def cVars : List VarDecl → CM Unit
  | [] => pure ()
  | v :: vs => do
    let idx ← match v.orig with
      | .none => allocRes (.var v.ty v.name)
      | .accountMeta acc key => do
        let a ← cExprAddr acc false
        allocRes (.varMeta v.ty v.name a key)
      | .balance acc asset => do
        let a ← cExprAddr acc false
        let c ← cExprAddr asset false
        allocRes (.varBalance v.name a c)
    modify fun s => { s with vars := s.vars ++ [(v.name, idx)] }
    cVars vs

def cStmts : List Stmt → CM Unit
  | [] => pure ()
  | s :: ss => do cStmt s; cStmts ss

/-- `compiler.Compile` after parsing: the compiler's checks (`typecheck`), then the
    emission. -/
def compile (s : Script) : Except String Program :=
  match typecheck s with
  | .error e => .error e
  | .ok _ =>
    match (do cVars s.vars; cStmts s.stmts : CM Unit).run {} with
    | .error e => .error e
    | .ok (_, st) => .ok { instrs := st.instrs.toList, res := st.res.toList, needed := st.needed }

end Ledger.Machine
