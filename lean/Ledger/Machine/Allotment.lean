/-
Model of /repo/internal/machine/allotment.go and portion.go (core-only, executable).

A Go `big.Rat` is always normalised (lowest terms, positive denominator), so a
portion is modelled as a core `Rat`; `Num()`/`Denom()` are `Rat.num`/`Rat.den`.
`big.Int.Div` is Euclidean division, which is Lean's `Int./` (`Int.ediv`); for
the positive denominators of a `big.Rat` it is the floor.
-/
namespace Ledger.Machine

/-- `Portion` of portion.go: either `remaining` or a specific rational. -/
inductive Portion where
  | remaining
  | specific (r : Rat)
  deriving Repr, DecidableEq, Inhabited

/-- `NewPortionSpecific`: rejects anything outside `[0, 1]`. -/
def newPortionSpecific (r : Rat) : Except String Portion :=
  if r < 0 ∨ 1 < r then .error "portion must be between 0% and 100% inclusive"
  else .ok (.specific r)

/-- Sum of the specific portions (the `total` accumulator of `NewAllotment`). -/
def specificTotal : List Portion → Rat
  | [] => 0
  | .remaining :: ps => specificTotal ps
  | .specific r :: ps => r + specificTotal ps

def countRemaining : List Portion → Nat
  | [] => 0
  | .remaining :: ps => countRemaining ps + 1
  | .specific _ :: ps => countRemaining ps

/-- The value stored for one portion once `total` is known. -/
def fillRemaining (total : Rat) : Portion → Rat
  | .remaining => 1 - total
  | .specific r => r

/-- `NewAllotment`: at most one `remaining`, specific portions sum to at most 1,
    `remaining` is replaced by `1 - total`. -/
def newAllotment (ps : List Portion) : Except String (List Rat) :=
  if 2 ≤ countRemaining ps then .error "two uses of `remaining` in the same allotment"
  else
    let total := specificTotal ps
    if 1 < total then .error "sum of portions exceeded 100%"
    else .ok (ps.map (fillRemaining total))

/-- The floored share of one portion: `res.Mul(amt, Num); res.Div(res, Denom)`. -/
def floorPart (amt : Int) (p : Rat) : Int := (amt * p.num) / (p.den : Int)

/-- The second loop of `Allocate`: walk the parts in order, adding one unit to
    each while `totalAllocated < amount`.  `r` is the number of units still to
    hand out (`amount - totalAllocated`, possibly ≤ 0). -/
def distribute : List Int → Int → List Int
  | [], _ => []
  | x :: xs, r => if 0 < r then (x + 1) :: distribute xs (r - 1) else x :: distribute xs r

/-- `Allotment.Allocate`. -/
def allocate (a : List Rat) (amt : Int) : List Int :=
  let parts := a.map (floorPart amt)
  distribute parts (amt - parts.sum)

end Ledger.Machine

namespace Ledger.Machine

/-! `ParsePortionSpecific` (portion.go): the two regular expressions
    `^([0-9]+)(?:[.]([0-9]+))?[%]$` and `^([0-9]+)\s?[/]\s?([0-9]+)$`, written as
    direct recognisers over the character list. -/

def isDigit (c : Char) : Bool := '0' ≤ c && c ≤ '9'

/-- RE2 `\s` = `[\t\n\f\r ]`. -/
def isReSpace (c : Char) : Bool := c = '\t' || c = '\n' || c = '\x0c' || c = '\r' || c = ' '

def digitsVal (ds : List Char) : Nat := ds.foldl (fun acc c => acc * 10 + (c.toNat - '0'.toNat)) 0

/-- Longest prefix of digits and the rest. -/
def spanDigits : List Char → List Char × List Char
  | [] => ([], [])
  | c :: cs => if isDigit c then let (d, r) := spanDigits cs; (c :: d, r) else ([], c :: cs)

/-- `^([0-9]+)(?:[.]([0-9]+))?[%]$` → (integral digits, fractional digits). -/
def matchPercent (s : List Char) : Option (List Char × List Char) :=
  let (i, r) := spanDigits s
  if i.isEmpty then none else
  match r with
  | ['%'] => some (i, [])
  | '.' :: r' =>
    let (f, r'') := spanDigits r'
    if f.isEmpty then none else
    match r'' with
    | ['%'] => some (i, f)
    | _ => none
  | _ => none

def dropOneSpace : List Char → List Char
  | c :: cs => if isReSpace c then cs else c :: cs
  | [] => []

/-- `^([0-9]+)\s?[/]\s?([0-9]+)$` → (numerator digits, denominator digits). -/
def matchFraction (s : List Char) : Option (List Char × List Char) :=
  let (n, r) := spanDigits s
  if n.isEmpty then none else
  match dropOneSpace r with
  | '/' :: r' =>
    let (d, r'') := spanDigits (dropOneSpace r')
    if d.isEmpty then none else
    if r''.isEmpty then some (n, d) else none
  | _ => none

/-- `ParsePortionSpecific` with both fraction parts read in base 10.  NOTE: the real
    function reads them with `big.Rat.SetString`, i.e. in base 0 (a leading `0` means
    octal: `010/100` is 8/64, `007/008` is rejected); the exact function is
    `parsePortionGo` in `Ledger/Machine/Validate.lean`, which refines this one and is
    what the drivers compare with the code.  Errors: "invalid format", "invalid fractional format"
    (zero denominator), or the range error of `NewPortionSpecific`. -/
def parsePortionSpecific (input : String) : Except String Portion :=
  let s := input.toList
  match matchPercent s with
  | some (i, f) =>
    -- `SetString(integral + "." + fractional)` then `× 1/100`
    let v : Rat := (digitsVal (i ++ f) : Int) / ((10 ^ f.length * 100 : Nat) : Int)
    newPortionSpecific v
  | none =>
    match matchFraction s with
    | some (n, d) =>
      if digitsVal d = 0 then .error "invalid fractional format"
      else newPortionSpecific ((digitsVal n : Int) / (digitsVal d : Int))
    | none => .error "invalid format"

end Ledger.Machine
