import Ledger.Machine.Allotment

/-! Validators of pkg/accounts and pkg/assets (core-only, executable). -/
namespace Ledger.Machine

def isAlnum (c : Char) : Bool :=
  ('a' ≤ c && c ≤ 'z') || ('A' ≤ c && c ≤ 'Z') || ('0' ≤ c && c ≤ '9')

def isSegChar (c : Char) : Bool := isAlnum c || c = '_' || c = '-'

def isUpper (c : Char) : Bool := 'A' ≤ c && c ≤ 'Z'

/-- One segment `[a-zA-Z0-9_-]+` then `(:segment)*` until the end. -/
def validSegments : List Char → Bool → Bool
  | [], nonEmpty => nonEmpty
  | c :: cs, nonEmpty =>
    if isSegChar c then validSegments cs true
    else if c = ':' then nonEmpty && validSegments cs false
    else false

/-- `accounts.Regexp`: `^[a-zA-Z0-9_-]+(:[a-zA-Z0-9_-]+)*$`. -/
def validAccount (s : String) : Bool := validSegments s.toList false

def spanP (p : Char → Bool) : List Char → List Char × List Char
  | [] => ([], [])
  | c :: cs => if p c then let r := spanP p cs; (c :: r.1, r.2) else ([], c :: cs)

/-- `(\/\d{1,6})?$`. -/
def validAssetTail (cs : List Char) : Bool :=
  match cs with
  | [] => true
  | '/' :: r =>
    let d := spanP isDigit r
    d.2.isEmpty && 1 ≤ d.1.length && d.1.length ≤ 6
  | _ => false

/-- `assets.Regexp`: `^[A-Z][A-Z0-9]{0,16}(_[A-Z]{1,16})?(\/\d{1,6})?$`. -/
def validAsset (s : String) : Bool :=
  match s.toList with
  | [] => false
  | c :: cs =>
    if !isUpper c then false else
    let body := spanP (fun x => isUpper x || isDigit x) cs
    if 16 < body.1.length then false else
    match body.2 with
    | '_' :: r =>
      let u := spanP isUpper r
      1 ≤ u.1.length && u.1.length ≤ 16 && validAssetTail u.2
    | rest => validAssetTail rest

/-! `ParsePortionSpecific`, fraction form: `new(big.Rat).SetString(num + "/" + den)`
    reads numerator and denominator with base 0, so a part with a leading `0` and more
    digits is OCTAL ("010/100" = 8/64; "007/008" is rejected: 8 is not an octal digit).
    `Allotment.lean`'s `parsePortionSpecific` reads both parts in base 10; this wrapper
    corrects the fraction form and is what the machine models use.  (Found by the
    `vars` differential of the API area.) -/

def octalVal (ds : List Char) : Nat := ds.foldl (fun acc c => acc * 8 + (c.toNat - '0'.toNat)) 0

/-- Base-0 reading of a non-empty digit string: octal with a leading `0`, else decimal. -/
def base0Val? (ds : List Char) : Option Nat :=
  match ds with
  | '0' :: rest =>
    if rest.isEmpty then some 0
    else if rest.all (fun c => '0' ≤ c && c ≤ '7') then some (octalVal rest) else none
  | _ => some (digitsVal ds)

/-- `ParsePortionSpecific` as the Go code behaves. -/
def parsePortionGo (input : String) : Except String Portion :=
  match matchPercent input.toList with
  | some _ => parsePortionSpecific input
  | none =>
    match matchFraction input.toList with
    | some (n, d) =>
      match base0Val? n, base0Val? d with
      | some nv, some dv =>
        if dv = 0 then .error "invalid fractional format"
        else newPortionSpecific ((nv : Int) / (dv : Int))
      | _, _ => .error "invalid fractional format"
    | none => .error "invalid format"

/-- `assets.Pattern`, as printed in `ValidateAsset`'s error. -/
def assetPatternText : String := "[A-Z][A-Z0-9]{0,16}(_[A-Z]{1,16})?(\\/\\d{1,6})?"

end Ledger.Machine
