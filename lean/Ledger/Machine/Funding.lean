/-
Model of /repo/internal/machine/funding.go (core-only, executable).

A `Funding` is an asset and an ordered list of (account, amount) parts.  The
asset is carried separately by the semantics (`Sem.lean`); here we model the
operations on the part lists: `Take`, `TakeMax`, `Concat`, `Total`, `Reverse`.
-/
namespace Ledger.Machine

/-- `FundingPart`. -/
structure Part where
  account : String
  amount : Int
  deriving Repr, DecidableEq, Inhabited

/-- `Funding`. -/
structure Funding where
  asset : String
  parts : List Part
  deriving Repr, DecidableEq, Inhabited

/-- `Funding.Total` on the part list. -/
def total : List Part → Int
  | [] => 0
  | p :: ps => p.amount + total ps

/-- The loop shared by `Take` and `TakeMax`:
    `for remainingToWithdraw > 0 && i < len(parts)` followed by the loop that moves
    the untouched parts to the remainder.  Returns (result, remainder,
    remainingToWithdraw at exit). -/
def takeLoop : List Part → Int → List Part × List Part × Int
  | [], r => ([], [], r)
  | p :: ps, r =>
    if 0 < r then
      if r < p.amount then
        -- the part has excess: take `r`, leave `amount - r`; the loop then stops
        ([⟨p.account, r⟩], ⟨p.account, p.amount - r⟩ :: ps, 0)
      else
        (p :: (takeLoop ps (r - p.amount)).1, (takeLoop ps (r - p.amount)).2.1,
          (takeLoop ps (r - p.amount)).2.2)
    else ([], p :: ps, r)

/-- `Funding.TakeMax`: (result, remainder). -/
def takeMax (parts : List Part) (amount : Int) : List Part × List Part :=
  ((takeLoop parts amount).1, (takeLoop parts amount).2.1)

/-- The zero part `Take` puts in front of the result when the amount is zero and
    the funding is not empty. -/
def zeroHead (parts : List Part) (amount : Int) : List Part :=
  match parts with
  | p :: _ => if amount = 0 then [⟨p.account, 0⟩] else []
  | [] => []

/-- `Funding.Take`: `none` = insufficient funds. -/
def take (parts : List Part) (amount : Int) : Option (List Part × List Part) :=
  if (takeLoop parts amount).2.2 = 0 then
    some (zeroHead parts amount ++ (takeLoop parts amount).1, (takeLoop parts amount).2.1)
  else none

/-- `Funding.Concat` on the part lists: the last part of the left funding and the
    first part of the right one are merged when they name the same account. -/
def concatParts : List Part → List Part → List Part
  | [], b => b
  | [l], [] => [l]
  | [l], o :: os =>
    if l.account = o.account then ⟨l.account, l.amount + o.amount⟩ :: os else l :: o :: os
  | x :: y :: a, b => x :: concatParts (y :: a) b

/-- All amounts non-negative. -/
def partsNonneg (ps : List Part) : Prop := ∀ p ∈ ps, 0 ≤ p.amount

end Ledger.Machine
