import Ledger.Machine.Ast
import Ledger.Machine.Allotment
import Ledger.Machine.Validate
import Ledger.Machine.Funding

/-!
Structured big-step semantics of Numscript on the default machine runtime
(core-only, executable): `sem : Script → Input → Except Err Result`.

`sem` performs *the same funding operations in the same order* as the byte code
the real compiler emits for each construct is executed by the real VM
(/repo/internal/machine/script/compiler/*.go, /repo/internal/machine/vm/machine.go):
`withdrawAll` / `withdrawAlways` (OP_TAKE_ALL / OP_TAKE_ALWAYS), `Take`, `TakeMax`,
`Concat` (OP_FUNDING_ASSEMBLE), `Reverse`, `repay`, `credit` + postings (OP_SEND),
`Allocate`, the `kept` accumulator of in-order destinations, `save`.

Phases (numscript_runtime.go `MachineNumscriptRuntimeAdapter.Execute`):
  0. `typecheck`  — the compiler's logic errors, first one in visiting order;
  1. `resolveVars` — `SetVarsFromJSON` then `ResolveResources`;
  2. `initBalances` — `ResolveBalances`;
  3. `runStmts` — `Execute`.
-/
namespace Ledger.Machine

/-! ## Values, errors, state -/

/-- Runtime values of expressions (value.go).  `monetary _ none` is a Go
    `Monetary` whose `Amount` pointer is nil: the state a `balance()` variable is
    left in when a later `balance()` variable names the same account
    (`UnresolvedResourceBalances` is keyed by address only). -/
inductive Value where
  | account (s : String)
  | asset (s : String)
  | number (n : Int)
  | str (s : String)
  | monetary (asset : String) (amt : Option Int)
  | portion (p : Portion)
  deriving Repr, DecidableEq, Inhabited

inductive Err where
  /-- compiler logic error (exact message) -/
  | compile (msg : String)
  /-- error returned by the runtime adapter: stage ∈ vars/resources/balances/exec -/
  | run (stage kind : String)
  /-- the real code panics (nil dereference) -/
  | panic (sig : String)
  /-- typed-pop / stack fault of the VM: unreachable for type-checked scripts -/
  | fault (what : String)
  deriving Repr, DecidableEq, Inhabited

structure Posting where
  source : String
  destination : String
  asset : String
  amount : Int
  deriving Repr, DecidableEq, Inhabited

/-- `Machine.Balances`: `hasAcct a` = the outer map has an entry for `a`;
    `get a c` = the tracked balance of the pair. -/
structure Balances where
  hasAcct : String → Bool
  get : String → String → Option Int

def Balances.set (b : Balances) (a c : String) (v : Int) : Balances :=
  { b with get := fun a' c' => if a' = a ∧ c' = c then some v else b.get a' c' }

structure State where
  bal : Balances
  postings : List Posting
  txMeta : List (String × Value)
  accMeta : List (String × String × Value)
  /-- ghost: total amount removed from the tracked balance by `save` per pair -/
  saved : String → String → Int

abbrev Env := List (String × Value)

/-- Variants of the real code the model can follow.  `Cfg.fixed` (the default) is
    /repo's current tree; `Cfg.preFix` is the tree before the `fix:` commits
    7a34851 / 9fd408d / e8d28b8 and is only used to state what was wrong. -/
structure Cfg where
  /-- 7a34851: `allowing overdraft up to X` adds `[asset 0]` to X (OP_MONETARY_ADD), so
      an X in another asset fails with "cannot add different assets" -/
  overdraftAssetCheck : Bool := true
  /-- before 9fd408d: `UnresolvedResourceBalances` keyed by address only, so only the last
      `balance()` variable of an account was resolved (the others kept a nil amount) -/
  balanceVarsPerAddress : Bool := false
  /-- before e8d28b8: a number whose JSON text is `null` decoded to a nil pointer (panic) -/
  nullNumberIsNil : Bool := false

def Cfg.fixed : Cfg := {}
def Cfg.preFix : Cfg := { overdraftAssetCheck := false, balanceVarsPerAddress := true, nullNumberIsNil := true }

/-- Go's `MonetaryInt.Add/Sub` treat a nil operand as zero (monetary.go). -/
def nilAsZero : Option Int → Int
  | some v => v
  | none => 0

/-- Dereferencing the amount: a nil amount panics in the real code. -/
def needAmt : Option Int → Except Err Int
  | some v => .ok v
  | none => .error (.panic "nil-amount")

/-! ## Expressions -/

def evalExpr (env : Env) : Expr → Except Err Value
  | .acct s => .ok (.account s)
  | .asset s => .ok (.asset s)
  | .num n => .ok (.number n)
  | .str s => .ok (.str s)
  | .portion t =>
    match parsePortionGo t with
    | .ok p => .ok (.portion p)
    | .error _ => .error (.fault "portion literal")
  | .mon a n =>
    match evalExpr env a with
    | .ok (.asset s) => .ok (.monetary s (some n))
    | .ok _ => .error (.fault "monetary literal: asset expected")
    | .error e => .error e
  | .var x =>
    match env.lookup x with
    | some v => .ok v
    | none => .error (.fault "unbound variable")
  | .add l r =>
    match evalExpr env l with
    | .error e => .error e
    | .ok a =>
      match evalExpr env r with
      | .error e => .error e
      | .ok b =>
        match a, b with
        | .number x, .number y => .ok (.number (x + y))
        | .monetary a1 x, .monetary a2 y =>
          if a1 ≠ a2 then .error (.run "exec" "add-asset")
          else .ok (.monetary a1 (some (nilAsZero x + nilAsZero y)))
        | _, _ => .error (.fault "add: operand types")
  | .sub l r =>
    match evalExpr env l with
    | .error e => .error e
    | .ok a =>
      match evalExpr env r with
      | .error e => .error e
      | .ok b =>
        match a, b with
        | .number x, .number y => .ok (.number (x - y))
        | .monetary a1 x, .monetary a2 y =>
          if a1 ≠ a2 then .error (.run "exec" "sub-asset")
          else .ok (.monetary a1 (some (nilAsZero x - nilAsZero y)))
        | _, _ => .error (.fault "sub: operand types")

def evalAccount (env : Env) (e : Expr) : Except Err String :=
  match evalExpr env e with
  | .ok (.account s) => .ok s
  | .ok _ => .error (.fault "account expected")
  | .error e => .error e

def evalMonetary (env : Env) (e : Expr) : Except Err (String × Option Int) :=
  match evalExpr env e with
  | .ok (.monetary a v) => .ok (a, v)
  | .ok _ => .error (.fault "monetary expected")
  | .error e => .error e

def evalAssetE (env : Env) (e : Expr) : Except Err String :=
  match evalExpr env e with
  | .ok (.asset s) => .ok s
  | .ok _ => .error (.fault "asset expected")
  | .error e => .error e

/-- The resource address `VisitExpr` returns for an expression: that of its
    leftmost atom (`lhsAddr`).  `save`, `set_account_meta`, `OP_ASSET` of a send and
    `setNeededBalances` use this resource, not the value of the whole expression. -/
def Expr.leftmost : Expr → Expr
  | .add l _ => l.leftmost
  | .sub l _ => l.leftmost
  | e => e

/-- `APUSH monAddr; OP_ASSET`. -/
def leftmostAsset (env : Env) (mon : Expr) : Except Err String :=
  match evalExpr env mon.leftmost with
  | .ok (.monetary a _) => .ok a
  | .ok (.asset a) => .ok a
  | .ok _ => .error (.fault "OP_ASSET: wrong type")
  | .error e => .error e

/-! ## Balance primitives of machine.go -/

/-- `withdrawAll` (OP_TAKE_ALL). -/
def withdrawAll (b : Balances) (acc asset : String) (od : Option Int) : Except Err (Part × Balances) :=
  match b.get acc asset with
  | none => .error (.run "exec" "missing-balance")
  | some bal =>
    if 0 < bal + nilAsZero od then
      match od with
      | none => .error (.panic "nil-amount")
      | some o => .ok (⟨acc, bal + o⟩, b.set acc asset (-o))
    else .ok (⟨acc, 0⟩, b)

/-- `withdrawAlways` (OP_TAKE_ALWAYS). -/
def withdrawAlways (b : Balances) (acc asset : String) (amt : Int) : Part × Balances :=
  match b.get acc asset with
  | some bal => (⟨acc, amt⟩, b.set acc asset (bal - amt))
  | none => (⟨acc, amt⟩, b)

/-- One iteration of `repay`. -/
def repayPart (asset : String) (b : Balances) (p : Part) : Balances :=
  if p.account = "world" then b
  else if b.hasAcct p.account then
    b.set p.account asset (nilAsZero (b.get p.account asset) + p.amount)
  else b

/-- `repay` (OP_REPAY). -/
def repay (b : Balances) (asset : String) (parts : List Part) : Balances :=
  parts.foldl (repayPart asset) b

/-- `credit` (first half of OP_SEND). -/
def credit (b : Balances) (dest asset : String) (parts : List Part) : Balances :=
  if dest = "world" then b
  else
    match b.get dest asset with
    | some bal => b.set dest asset (bal + total parts)
    | none => b

def mkPostings (asset dest : String) (parts : List Part) : List Posting :=
  parts.map fun p => ⟨p.account, dest, asset, p.amount⟩

/-- OP_SEND. -/
def sendTo (asset dest : String) (parts : List Part) (st : State) : State :=
  { st with bal := credit st.bal dest asset parts,
            postings := st.postings ++ mkPostings asset dest parts }

/-! ## Sources -/

def Expr.isWorld : Expr → Bool
  | .acct s => s = "world"
  | _ => false

mutual
  /-- The `FallbackAccount` the compiler computes for a source. -/
  def Source.fallback : Source → Option Expr
    | .account e od =>
      match od with
      | .unbounded => some e
      | .none => if e.isWorld then some e else none
      | .upTo _ => none
    | .maxed _ _ => none
    | .inorder ss => ss.fallback
  def SourceList.fallback : SourceList → Option Expr
    | .nil => none
    | .cons s .nil => s.fallback
    | .cons _ (.cons s ss) => (SourceList.cons s ss).fallback
end

/-- Left fold of `Concat` (the second loop of OP_FUNDING_ASSEMBLE). -/
def concatAll (fs : List Funding) : List Part :=
  fs.foldl (fun acc f => concatParts acc f.parts) []

/-- OP_FUNDING_ASSEMBLE on the fundings in source order (the first has highest
    priority): every asset must equal the asset of the funding popped first (the
    last one). -/
def assemble (fs : List Funding) : Except Err Funding :=
  match fs.getLast? with
  | none => .error (.run "exec" "invalid-script")
  | some l =>
    if fs.all (fun f => f.asset = l.asset) then .ok ⟨l.asset, concatAll fs⟩
    else .error (.run "exec" "assemble-asset")

/-- OP_TAKE_MAX; BUMP; OP_REPAY, then either the fallback's OP_TAKE_ALWAYS of the
    missing amount + OP_FUNDING_ASSEMBLE, or the deletion of `missing`. -/
def takeMaxStep (env : Env) (fb : Option Expr) (f : Funding) (mon : String × Option Int)
    (b : Balances) : Except Err (Funding × Balances) :=
  match needAmt mon.2 with
  | .error e => .error e
  | .ok amt =>
    if amt < 0 then .error (.run "exec" "negative-max")
    else if f.asset ≠ mon.1 then .error (.run "exec" "take-asset")
    else
      let missing := if total f.parts < amt then amt - total f.parts else 0
      let tm := takeMax f.parts amt
      let b1 := repay b f.asset tm.2
      match fb with
      | none => .ok (⟨f.asset, tm.1⟩, b1)
      | some fbE =>
        match evalAccount env fbE with
        | .error e => .error e
        | .ok fbAcc =>
          let w := withdrawAlways b1 fbAcc mon.1 missing
          .ok (⟨mon.1, concatParts tm.1 [w.1]⟩, w.2)

/-- `TakeFromSource`. -/
def takeFromSource (env : Env) (fb : Option Expr) (f : Funding) (mon : String × Option Int)
    (b : Balances) : Except Err (Funding × Balances) :=
  match fb with
  | some _ => takeMaxStep env fb f mon b
  | none =>
    if f.asset ≠ mon.1 then .error (.run "exec" "take-asset")
    else
      match needAmt mon.2 with
      | .error e => .error e
      | .ok amt =>
        match take f.parts amt with
        | none => .error (.run "exec" "insufficient")
        | some (res, rem) => .ok (⟨f.asset, res⟩, repay b f.asset rem)

/-- The code emitted after the overdraft expression (commit 7a34851):
    `pushAsset; 0; OP_MONETARY_NEW; OP_MONETARY_ADD`. -/
def checkOverdraft (cfg : Cfg) (asset : String) (od : String × Option Int) : Except Err (String × Option Int) :=
  if cfg.overdraftAssetCheck then
    if od.1 ≠ asset then .error (.run "exec" "add-asset")
    else .ok (od.1, some (nilAsZero od.2 + nilAsZero (some 0)))
  else .ok od

mutual
  /-- `VisitSource`: leaves the funding available from the source. `asset` is the
      value `pushAsset` pushes. -/
  def evalSource (cfg : Cfg) (env : Env) (asset : String) : Source → Balances → Except Err (Funding × Balances)
    | .account e od, b =>
      match evalAccount env e with
      | .error err => .error err
      | .ok acc =>
        match od with
        | .none =>
          if e.isWorld then
            let w := withdrawAlways b acc asset 0
            .ok (⟨asset, [w.1]⟩, w.2)
          else
            match withdrawAll b acc asset (some 0) with
            | .error err => .error err
            | .ok (p, b1) => .ok (⟨asset, [p]⟩, b1)
        | .upTo x =>
          match evalMonetary env x with
          | .error err => .error err
          | .ok odv =>
            match checkOverdraft cfg asset odv with
            | .error err => .error err
            | .ok (oa, ov) =>
              match withdrawAll b acc oa ov with
              | .error err => .error err
              | .ok (p, b1) => .ok (⟨oa, [p]⟩, b1)
        | .unbounded =>
          let w := withdrawAlways b acc asset 0
          .ok (⟨asset, [w.1]⟩, w.2)
    | .maxed m s, b =>
      match evalSource cfg env asset s b with
      | .error err => .error err
      | .ok (f, b1) =>
        match evalMonetary env m with
        | .error err => .error err
        | .ok mon => takeMaxStep env s.fallback f mon b1
    | .inorder ss, b =>
      match evalSources cfg env asset ss b with
      | .error err => .error err
      | .ok (fs, b1) =>
        match assemble fs with
        | .error err => .error err
        | .ok f => .ok (f, b1)
  def evalSources (cfg : Cfg) (env : Env) (asset : String) : SourceList → Balances → Except Err (List Funding × Balances)
    | .nil, b => .ok ([], b)
    | .cons s ss, b =>
      match evalSource cfg env asset s b with
      | .error err => .error err
      | .ok (f, b1) =>
        match evalSources cfg env asset ss b1 with
        | .error err => .error err
        | .ok (fs, b2) => .ok (f :: fs, b2)
end

/-! ## Allotments -/

def evalPortion (env : Env) : PortionE → Except Err Portion
  | .lit t =>
    match parsePortionGo t with
    | .ok p => .ok p
    | .error _ => .error (.fault "portion literal")
  | .var x =>
    match env.lookup x with
    | some (.portion p) => .ok p
    | _ => .error (.fault "portion variable")
  | .remaining => .ok .remaining

def evalPortions (env : Env) : List PortionE → Except Err (List Portion)
  | [] => .ok []
  | p :: ps =>
    match evalPortion env p with
    | .error e => .error e
    | .ok v =>
      match evalPortions env ps with
      | .error e => .error e
      | .ok vs => .ok (v :: vs)

/-- OP_MAKE_ALLOTMENT. -/
def makeAllotment (env : Env) (ps : List PortionE) : Except Err (List Rat) :=
  match evalPortions env ps with
  | .error e => .error e
  | .ok vs =>
    match newAllotment vs with
    | .ok a => .ok a
    | .error msg =>
      if msg = "sum of portions exceeded 100%" then .error (.run "exec" "allot-exceeded")
      else .error (.run "exec" "allot-two-remaining")

/-- The per-source loop of a source allotment. -/
def evalAllotSrc (cfg : Cfg) (env : Env) (asset monAsset : String) :
    AllotSrcList → List Int → Balances → Except Err (List Funding × Balances)
  | .nil, _, b => .ok ([], b)
  | .cons _ _ _, [], _ => .error (.fault "allotment length")
  | .cons _ s rest, p :: ps, b =>
    match evalSource cfg env asset s b with
    | .error err => .error err
    | .ok (f, b1) =>
      match takeFromSource env s.fallback f (monAsset, some p) b1 with
      | .error err => .error err
      | .ok (r, b2) =>
        match evalAllotSrc cfg env asset monAsset rest ps b2 with
        | .error err => .error err
        | .ok (rs, b3) => .ok (r :: rs, b3)

/-! ## Destinations

Each function takes the funding on top of the stack (its parts; the asset is
invariant) and returns what is left of it. -/

mutual
  def evalDest (env : Env) (asset : String) : Dest → List Part → State → Except Err (List Part × State)
    | .account e, f, st =>
      -- OP_FUNDING_SUM; OP_TAKE; <account>; OP_SEND
      match take f (total f) with
      | none => .error (.run "exec" "insufficient")
      | some (res, rem) =>
        match evalAccount env e with
        | .error err => .error err
        | .ok acc => .ok (rem, sendTo asset acc res st)
    | .inorder items remaining, f, st =>
      match evalInOrder env asset items 0 f st with
      | .error err => .error err
      | .ok (kept, f1, st1) =>
        -- OP_FUNDING_REVERSE; OP_TAKE kept; reverse both back
        match take f1.reverse kept with
        | none => .error (.run "exec" "insufficient")
        | some (resR, remR) =>
          match evalKD env asset remaining remR.reverse st1 with
          | .error err => .error err
          | .ok (r, st2) => .ok (concatParts r resR.reverse, st2)
    | .allot items, f, st =>
      match makeAllotment env items.portions with
      | .error err => .error err
      | .ok a => evalAllotDst env asset items (allocate a (total f)) f st
  def evalKD (env : Env) (asset : String) : KeptOrDest → List Part → State → Except Err (List Part × State)
    | .kept, f, st => .ok (f, st)
    | .to d, f, st => evalDest env asset d f st
  /-- The `max … to/kept` items; `kept` is the accumulator monetary. -/
  def evalInOrder (env : Env) (asset : String) :
      InOrderDstList → Int → List Part → State → Except Err (Int × List Part × State)
    | .nil, k, f, st => .ok (k, f, st)
    | .cons m d rest, k, f, st =>
      match evalMonetary env m with
      | .error err => .error err
      | .ok mon =>
        match needAmt mon.2 with
        | .error err => .error err
        | .ok amt =>
          if amt < 0 then .error (.run "exec" "negative-max")
          else if asset ≠ mon.1 then .error (.run "exec" "take-asset")
          else
            let tm := takeMax f amt
            match evalKD env asset d tm.1 st with
            | .error err => .error err
            | .ok (r, st1) => evalInOrder env asset rest (total r + k) (concatParts r tm.2) st1
  def evalAllotDst (env : Env) (asset : String) :
      AllotDstList → List Int → List Part → State → Except Err (List Part × State)
    | .nil, _, f, st => .ok (f, st)
    | .cons _ _ _, [], _, _ => .error (.fault "allotment length")
    | .cons _ d rest, p :: ps, f, st =>
      match take f p with
      | none => .error (.run "exec" "insufficient")
      | some (res, rem) =>
        match evalKD env asset d res st with
        | .error err => .error err
        | .ok (r, st1) => evalAllotDst env asset rest ps (concatParts r rem) st1
end

/-! ## Statements -/

def setMeta (m : List (String × Value)) (k : String) (v : Value) : List (String × Value) :=
  (m.filter (fun kv => kv.1 ≠ k)) ++ [(k, v)]

def setAccMeta (m : List (String × String × Value)) (a k : String) (v : Value) :
    List (String × String × Value) :=
  (m.filter (fun x => ¬ (x.1 = a ∧ x.2.1 = k))) ++ [(a, k, v)]

/-- The destination half of a send: `VisitDestination` (destination, then OP_REPAY of
    what is left). -/
def finishSend (env : Env) (dst : Dest) (f : Funding) (st : State) : Except Err State :=
  match evalDest env f.asset dst f.parts st with
  | .error err => .error err
  | .ok (rem, st1) => .ok { st1 with bal := repay st1.bal f.asset rem }

def evalStmt (cfg : Cfg) (env : Env) : Stmt → State → Except Err State
  | .print e, st =>
    match evalExpr env e with
    | .error err => .error err
    | .ok _ => .ok st
  | .fail, _ => .error (.run "exec" "failed")
  | .setTxMeta k e, st =>
    match evalExpr env e with
    | .error err => .error err
    | .ok v => .ok { st with txMeta := setMeta st.txMeta k v }
  | .setAccountMeta acc k e, st =>
    match evalExpr env e with
    | .error err => .error err
    | .ok v =>
      match evalAccount env acc with
      | .error err => .error err
      | .ok a => .ok { st with accMeta := setAccMeta st.accMeta a k v }
  | .save mon acc, st =>
    -- only the resource of the leftmost atom is pushed
    match evalMonetary env mon.leftmost with
    | .error err => .error err
    | .ok (asset, amt) =>
      match evalAccount env acc with
      | .error err => .error err
      | .ok a =>
        match st.bal.get a asset with
        | some bal =>
          .ok { st with bal := st.bal.set a asset (bal - nilAsZero amt),
                        saved := fun a' c' => if a' = a ∧ c' = asset then st.saved a' c' + nilAsZero amt
                                              else st.saved a' c' }
        | none => .ok st
  | .saveAll assetE acc, st =>
    match evalAssetE env assetE with
    | .error err => .error err
    | .ok asset =>
      match evalAccount env acc with
      | .error err => .error err
      | .ok a =>
        match st.bal.get a asset with
        | some bal =>
          if 0 < bal then
            .ok { st with bal := st.bal.set a asset 0,
                          saved := fun a' c' => if a' = a ∧ c' = asset then st.saved a' c' + bal
                                                else st.saved a' c' }
          else .ok st
        | none => .ok st
  | .send mon (.src s) dst, st =>
    match leftmostAsset env mon with
    | .error err => .error err
    | .ok asset =>
      match evalSource cfg env asset s st.bal with
      | .error err => .error err
      | .ok (f, b1) =>
        match evalMonetary env mon with
        | .error err => .error err
        | .ok m =>
          match takeFromSource env s.fallback f m b1 with
          | .error err => .error err
          | .ok (r, b2) => finishSend env dst r { st with bal := b2 }
  | .send mon (.allot items) dst, st =>
    match evalMonetary env mon with
    | .error err => .error err
    | .ok m =>
      match makeAllotment env items.portions with
      | .error err => .error err
      | .ok a =>
        match needAmt m.2 with
        | .error err => .error err
        | .ok amt =>
          match leftmostAsset env mon with
          | .error err => .error err
          | .ok asset =>
            match evalAllotSrc cfg env asset m.1 items (allocate a amt) st.bal with
            | .error err => .error err
            | .ok (fs, b1) =>
              match assemble fs with
              | .error err => .error err
              | .ok f => finishSend env dst f { st with bal := b1 }
  | .sendAll assetE (.src s) dst, st =>
    match evalAssetE env assetE with
    | .error err => .error err
    | .ok asset =>
      match evalSource cfg env asset s st.bal with
      | .error err => .error err
      | .ok (f, b1) => finishSend env dst f { st with bal := b1 }
  | .sendAll _ (.allot _) _, _ => .error (.fault "send all from allotment")

def runStmts (cfg : Cfg) (env : Env) : List Stmt → State → Except Err State
  | [], st => .ok st
  | s :: ss, st =>
    match evalStmt cfg env s st with
    | .error err => .error err
    | .ok st1 => runStmts cfg env ss st1

end Ledger.Machine
