import Ledger.Machine.Compile
import Ledger.Machine.Resolve

/-!
Byte-code level, part 2: `exec`, a model of the VM loop `Machine.tick`
(/repo/internal/machine/vm/machine.go) over the real opcodes.  Total and fuel-free:
the VM has no jumps, so execution is a structural recursion over the decoded
instruction list (`pc` strictly increases).  A typed-pop / index fault of the real
VM (a Go panic) is `Err.fault`.
-/
namespace Ledger.Machine

/-- Values on the VM stack. -/
inductive SVal where
  | val (v : Value)
  | funding (f : Funding)
  | allotment (a : List Rat)
  deriving Repr, Inhabited

/-- Decoding: OP_APUSH is followed by a little-endian uint16. -/
def decode : List Nat → Except Err (List Instr)
  | [] => .ok []
  | b :: rest =>
    if b = OP_APUSH then
      match rest with
      | lo :: hi :: rest' =>
        match decode rest' with
        | .ok is => .ok (.apush (lo + 256 * hi) :: is)
        | .error e => .error e
      | _ => .error (.fault "truncated APUSH")
    else
      match decode rest with
      | .ok is => .ok (.op b :: is)
      | .error e => .error e
termination_by l => l.length

/-- The value of one resource, given the values of the earlier ones. -/
def resVal (env : Env) (acc : List Value) : Res → Except Err Value
  | .const (.account s) => .ok (.account s)
  | .const (.asset s) => .ok (.asset s)
  | .const (.number n) => .ok (.number n)
  | .const (.str s) => .ok (.str s)
  | .const (.portion p) => .ok (.portion p)
  | .var _ n => match env.lookup n with | some v => .ok v | none => .error (.fault "unresolved variable")
  | .varMeta _ n _ _ => match env.lookup n with | some v => .ok v | none => .error (.fault "unresolved variable")
  | .varBalance n _ _ => match env.lookup n with | some v => .ok v | none => .error (.fault "unresolved variable")
  | .mon a amt =>
    match acc[a]? with
    | some (.asset s) => .ok (.monetary s (some amt))
    | _ => .error (.fault "monetary resource: asset expected")

/-- `ResolveResources` at the byte-code level, given the resolved variables. -/
def resolveRes (env : Env) : List Res → List Value → Except Err (List Value)
  | [], acc => .ok acc
  | r :: rs, acc =>
    match resVal env acc r with
    | .error e => .error e
    | .ok x => resolveRes env rs (acc ++ [x])

abbrev Stack := List SVal   -- head = top

def popNumber : Stack → Except Err (Int × Stack)
  | .val (.number n) :: s => .ok (n, s)
  | _ => .error (.fault "pop number")

def popMonetary : Stack → Except Err ((String × Option Int) × Stack)
  | .val (.monetary a v) :: s => .ok ((a, v), s)
  | _ => .error (.fault "pop monetary")

def popAccount : Stack → Except Err (String × Stack)
  | .val (.account a) :: s => .ok (a, s)
  | _ => .error (.fault "pop account")

def popFunding : Stack → Except Err (Funding × Stack)
  | .funding f :: s => .ok (f, s)
  | _ => .error (.fault "pop funding")

def popString : Stack → Except Err (String × Stack)
  | .val (.str a) :: s => .ok (a, s)
  | _ => .error (.fault "pop string")

def popValue : Stack → Except Err (Value × Stack)
  | .val v :: s => .ok (v, s)
  | _ => .error (.fault "pop value")

def popPortions : Nat → Stack → Except Err (List Portion × Stack)
  | 0, s => .ok ([], s)
  | n + 1, .val (.portion p) :: s =>
    match popPortions n s with
    | .ok (ps, s') => .ok (p :: ps, s')
    | .error e => .error e
  | _, _ => .error (.fault "pop portion")

/-- The fundings below the first one of OP_FUNDING_ASSEMBLE: popped one by one, each
    checked against the first one's asset.  Returned in pop order. -/
def popFundings (asset : String) : Nat → Stack → Except Err (List Funding × Stack)
  | 0, s => .ok ([], s)
  | n + 1, .funding f :: s =>
    if f.asset ≠ asset then .error (.run "exec" "assemble-asset")
    else
      match popFundings asset n s with
      | .ok (fs, s') => .ok (f :: fs, s')
      | .error e => .error e
  | _, _ => .error (.fault "pop funding")

/-- One instruction (`tick`). -/
def step (resv : List Value) (i : Instr) (stk : Stack) (st : State) : Except Err (Stack × State) :=
  match i with
  | .apush a =>
    match resv[a]? with
    | some v => .ok (.val v :: stk, st)
    | none => .error (.run "exec" "resource-not-found")
  | .op c =>
    if c = OP_BUMP then
      match popNumber stk with
      | .error e => .error e
      | .ok (n, s) =>
        if n < 0 then .error (.fault "bump index") else
        match s[n.toNat]? with
        | none => .error (.fault "bump index")
        | some v => .ok (v :: s.eraseIdx n.toNat, st)
    else if c = OP_DELETE then
      match stk with
      | .funding _ :: _ => .error (.run "exec" "invalid-script")
      | _ :: s => .ok (s, st)
      | [] => .error (.fault "pop")
    else if c = OP_IADD then
      match popNumber stk with
      | .error e => .error e
      | .ok (b, s) =>
        match popNumber s with
        | .error e => .error e
        | .ok (a, s') => .ok (.val (.number (a + b)) :: s', st)
    else if c = OP_ISUB then
      match popNumber stk with
      | .error e => .error e
      | .ok (b, s) =>
        match popNumber s with
        | .error e => .error e
        | .ok (a, s') => .ok (.val (.number (a - b)) :: s', st)
    else if c = OP_PRINT then
      match stk with
      | _ :: s => .ok (s, st)
      | [] => .error (.fault "pop")
    else if c = OP_FAIL then .error (.run "exec" "failed")
    else if c = OP_ASSET then
      match stk with
      | .val (.asset a) :: s => .ok (.val (.asset a) :: s, st)
      | .val (.monetary a _) :: s => .ok (.val (.asset a) :: s, st)
      | .funding f :: s => .ok (.val (.asset f.asset) :: s, st)
      | _ :: _ => .error (.run "exec" "invalid-script")
      | [] => .error (.fault "pop")
    else if c = OP_MONETARY_NEW then
      match popNumber stk with
      | .error e => .error e
      | .ok (n, s) =>
        match s with
        | .val (.asset a) :: s' => .ok (.val (.monetary a (some n)) :: s', st)
        | _ => .error (.fault "pop asset")
    else if c = OP_MONETARY_ADD then
      match popMonetary stk with
      | .error e => .error e
      | .ok (b, s) =>
        match popMonetary s with
        | .error e => .error e
        | .ok (a, s') =>
          if a.1 ≠ b.1 then .error (.run "exec" "add-asset")
          else .ok (.val (.monetary a.1 (some (nilAsZero a.2 + nilAsZero b.2))) :: s', st)
    else if c = OP_MONETARY_SUB then
      match popMonetary stk with
      | .error e => .error e
      | .ok (b, s) =>
        match popMonetary s with
        | .error e => .error e
        | .ok (a, s') =>
          if a.1 ≠ b.1 then .error (.run "exec" "sub-asset")
          else .ok (.val (.monetary a.1 (some (nilAsZero a.2 - nilAsZero b.2))) :: s', st)
    else if c = OP_MAKE_ALLOTMENT then
      match popNumber stk with
      | .error e => .error e
      | .ok (n, s) =>
        match popPortions n.toNat s with
        | .error e => .error e
        | .ok (ps, s') =>
          match newAllotment ps with
          | .ok a => .ok (.allotment a :: s', st)
          | .error msg =>
            if msg = "sum of portions exceeded 100%" then .error (.run "exec" "allot-exceeded")
            else .error (.run "exec" "allot-two-remaining")
    else if c = OP_TAKE_ALL then
      match popMonetary stk with
      | .error e => .error e
      | .ok (od, s) =>
        match popAccount s with
        | .error e => .error e
        | .ok (acc, s') =>
          match withdrawAll st.bal acc od.1 od.2 with
          | .error e => .error e
          | .ok (p, b1) => .ok (.funding ⟨od.1, [p]⟩ :: s', { st with bal := b1 })
    else if c = OP_TAKE_ALWAYS then
      match popMonetary stk with
      | .error e => .error e
      | .ok (mon, s) =>
        match popAccount s with
        | .error e => .error e
        | .ok (acc, s') =>
          match needAmt mon.2 with
          | .error e => .error e
          | .ok amt =>
            let w := withdrawAlways st.bal acc mon.1 amt
            .ok (.funding ⟨mon.1, [w.1]⟩ :: s', { st with bal := w.2 })
    else if c = OP_TAKE then
      match popMonetary stk with
      | .error e => .error e
      | .ok (mon, s) =>
        match popFunding s with
        | .error e => .error e
        | .ok (f, s') =>
          if f.asset ≠ mon.1 then .error (.run "exec" "take-asset")
          else
            match needAmt mon.2 with
            | .error e => .error e
            | .ok amt =>
              match take f.parts amt with
              | none => .error (.run "exec" "insufficient")
              | some (res, rem) => .ok (.funding ⟨f.asset, res⟩ :: .funding ⟨f.asset, rem⟩ :: s', st)
    else if c = OP_TAKE_MAX then
      match popMonetary stk with
      | .error e => .error e
      | .ok (mon, s) =>
        match needAmt mon.2 with
        | .error e => .error e
        | .ok amt =>
          if amt < 0 then .error (.run "exec" "negative-max")
          else
            match popFunding s with
            | .error e => .error e
            | .ok (f, s') =>
              if f.asset ≠ mon.1 then .error (.run "exec" "take-asset")
              else
                let missing := if total f.parts < amt then amt - total f.parts else 0
                let tm := takeMax f.parts amt
                .ok (.funding ⟨f.asset, tm.1⟩ :: .funding ⟨f.asset, tm.2⟩ ::
                     .val (.monetary mon.1 (some missing)) :: s', st)
    else if c = OP_FUNDING_ASSEMBLE then
      match popNumber stk with
      | .error e => .error e
      | .ok (n, s) =>
        if n.toNat = 0 then .error (.run "exec" "invalid-script")
        else
          match popFunding s with
          | .error e => .error e
          | .ok (first, s') =>
            match popFundings first.asset (n.toNat - 1) s' with
            | .error e => .error e
            | .ok (others, s'') =>
              -- popped: first, others…; concatenated in the reverse order
              .ok (.funding ⟨first.asset, concatAll ((first :: others).reverse)⟩ :: s'', st)
    else if c = OP_FUNDING_SUM then
      match popFunding stk with
      | .error e => .error e
      | .ok (f, s) => .ok (.val (.monetary f.asset (some (total f.parts))) :: .funding f :: s, st)
    else if c = OP_FUNDING_REVERSE then
      match popFunding stk with
      | .error e => .error e
      | .ok (f, s) => .ok (.funding ⟨f.asset, f.parts.reverse⟩ :: s, st)
    else if c = OP_ALLOC then
      match stk with
      | .allotment a :: s =>
        match popMonetary s with
        | .error e => .error e
        | .ok (mon, s') =>
          match needAmt mon.2 with
          | .error e => .error e
          | .ok amt =>
            .ok ((allocate a amt).map (fun p => SVal.val (.monetary mon.1 (some p))) ++ s', st)
      | _ => .error (.fault "pop allotment")
    else if c = OP_REPAY then
      match popFunding stk with
      | .error e => .error e
      | .ok (f, s) => .ok (s, { st with bal := repay st.bal f.asset f.parts })
    else if c = OP_SEND then
      match popAccount stk with
      | .error e => .error e
      | .ok (dest, s) =>
        match popFunding s with
        | .error e => .error e
        | .ok (f, s') => .ok (s', sendTo f.asset dest f.parts st)
    else if c = OP_TX_META then
      match popString stk with
      | .error e => .error e
      | .ok (k, s) =>
        match popValue s with
        | .error e => .error e
        | .ok (v, s') => .ok (s', { st with txMeta := setMeta st.txMeta k v })
    else if c = OP_ACCOUNT_META then
      match popAccount stk with
      | .error e => .error e
      | .ok (a, s) =>
        match popString s with
        | .error e => .error e
        | .ok (k, s') =>
          match popValue s' with
          | .error e => .error e
          | .ok (v, s'') => .ok (s'', { st with accMeta := setAccMeta st.accMeta a k v })
    else if c = OP_SAVE then
      match popAccount stk with
      | .error e => .error e
      | .ok (a, s) =>
        match popValue s with
        | .error e => .error e
        | .ok (.asset asset, s') =>
          match st.bal.get a asset with
          | some bal =>
            if 0 < bal then
              .ok (s', { st with bal := st.bal.set a asset 0,
                                 saved := fun a' c' => if a' = a ∧ c' = asset then st.saved a' c' + bal
                                                       else st.saved a' c' })
            else .ok (s', st)
          | none => .ok (s', st)
        | .ok (.monetary asset amt, s') =>
          match st.bal.get a asset with
          | some bal =>
            .ok (s', { st with bal := st.bal.set a asset (bal - nilAsZero amt),
                               saved := fun a' c' => if a' = a ∧ c' = asset then st.saved a' c' + nilAsZero amt
                                                     else st.saved a' c' })
          | none => .ok (s', st)
        | .ok _ => .error (.panic "save: invalid value type")
    else .error (.run "exec" "invalid-script")

/-- A code segment: the instructions one after the other. -/
def runSeg (resv : List Value) : List Instr → Stack → State → Except Err (Stack × State)
  | [], stk, st => .ok (stk, st)
  | i :: is, stk, st =>
    match step resv i stk st with
    | .error e => .error e
    | .ok (stk', st') => runSeg resv is stk' st'

/-- `Execute`: the loop; at the end the stack must be empty (the real VM panics). -/
def execInstrs (resv : List Value) : List Instr → Stack → State → Except Err State
  | [], stk, st => if stk.isEmpty then .ok st else .error (.panic "stack not empty after execution")
  | i :: is, stk, st =>
    match step resv i stk st with
    | .error e => .error e
    | .ok (stk', st') => execInstrs resv is stk' st'

/-- `exec`: run a compiled program (its instruction list `code`; `instrs` is the byte
    encoding, `decode p.instrs = code` is checked on every generated program) from the
    resolved variables and initial tracked balances. -/
def exec (p : Program) (env : Env) (bal : Balances) : Except Err State :=
  match resolveRes env p.res [] with
  | .error e => .error e
  | .ok resv =>
    execInstrs resv p.code [] (initState bal)

/-- The byte-code pipeline: compile, prepare (same as `sem`), exec. -/
def semBytecode (cfg : Cfg) (s : Script) (inp : Input) : Except Err Result :=
  match compile s with
  | .error msg => .error (.compile msg)
  | .ok p =>
    match prepare cfg s inp with
    | .error e => .error e
    | .ok (env, bal, _) =>
      match exec p env bal with
      | .error e => .error e
      | .ok st => .ok { postings := st.postings, txMeta := st.txMeta, accMeta := st.accMeta, final := st }

end Ledger.Machine
