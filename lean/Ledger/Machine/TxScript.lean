import Ledger.Machine.Resolve

/-!
Model of `TxToScriptData` (/repo/internal/controller/ledger/numscript.go): the
conversion of an explicit posting list into a Numscript program + variables
(core-only, executable).  The model produces the AST (`txScript`), the variables
(`txVars`) and the exact text the Go function writes (`txText`); the `postings`
workload compares text and variables with the real ones.
-/
namespace Ledger.Machine

/-- A posting as submitted (amounts may be any integer; the pipeline rejects
    negative ones when parsing the variables). -/
abbrev TxPosting := Posting

def insertNew (xs : List String) (x : String) : List String :=
  if xs.contains x then xs else xs ++ [x]

/-- `accountsToVars`: non-world accounts in order of first appearance (source, then
    destination of each posting); the i-th one is `va{i}`. -/
def txAccounts : List TxPosting → List String → List String
  | [], acc => acc
  | p :: ps, acc =>
    let acc1 := if p.source = "world" then acc else insertNew acc p.source
    let acc2 := if p.destination = "world" then acc1 else insertNew acc1 p.destination
    txAccounts ps acc2

/-- The key `fmt.Sprintf("[%s %s]", amount, asset)` identifies a monetary; two
    postings share a variable iff amount and asset are equal. -/
def monKey (p : TxPosting) : String := "[" ++ toString p.amount ++ " " ++ p.asset ++ "]"

/-- `monetaryToVars`: distinct (asset, amount) in order of first appearance. -/
def txMons : List TxPosting → List (String × Int) → List (String × Int)
  | [], acc => acc
  | p :: ps, acc =>
    if acc.any (fun m => m.1 = p.asset ∧ m.2 = p.amount) then txMons ps acc
    else txMons ps (acc ++ [(p.asset, p.amount)])

def indexOfStr (xs : List String) (x : String) : Nat := xs.findIdx (· = x)

def indexOfMon (xs : List (String × Int)) (a : String) (v : Int) : Nat :=
  xs.findIdx (fun m => m.1 = a ∧ m.2 = v)

def accVar (i : Nat) : String := "va" ++ toString i
def monVar (j : Nat) : String := "vm" ++ toString j

/-- Insertion sort on strings (`sort.Strings`: byte-wise lexicographic order, which
    is `String.<` on the ASCII names used here). -/
def insertSorted (x : String) : List String → List String
  | [] => [x]
  | y :: ys => if x < y then x :: y :: ys else y :: insertSorted x ys

def sortStrings (xs : List String) : List String := xs.foldr insertSorted []

def txStmt (accs : List String) (mons : List (String × Int)) (force : Bool) (p : TxPosting) : Stmt :=
  let mon := Expr.var (monVar (indexOfMon mons p.asset p.amount))
  let src : Source :=
    if p.source = "world" then .account (.acct "world") .none
    else .account (.var (accVar (indexOfStr accs p.source))) (if force then .unbounded else .none)
  let dst : Dest :=
    if p.destination = "world" then .account (.acct "world")
    else .account (.var (accVar (indexOfStr accs p.destination)))
  .send mon (.src src) dst

/-- The program `TxToScriptData` writes, as an AST. -/
def txScript (ps : List TxPosting) (force : Bool) : Script :=
  let accs := txAccounts ps []
  let mons := txMons ps []
  let accNames := sortStrings ((List.range accs.length).map accVar)
  let monNames := sortStrings ((List.range mons.length).map monVar)
  { vars := accNames.map (fun n => ⟨.account, n, .none⟩) ++ monNames.map (fun n => ⟨.monetary, n, .none⟩),
    stmts := ps.map (txStmt accs mons force) }

/-- The `Vars` map. -/
def txVars (ps : List TxPosting) : List (String × String) :=
  let accs := txAccounts ps []
  let mons := txMons ps []
  (List.zipIdx accs).map (fun (a, i) => (accVar i, a)) ++
  (List.zipIdx mons).map (fun (m, j) => (monVar j, m.1 ++ " " ++ toString m.2))

/-- The `Plain` text, exactly as `TxToScriptData` writes it. -/
def txText (ps : List TxPosting) (force : Bool) : String :=
  let accs := txAccounts ps []
  let mons := txMons ps []
  let accNames := sortStrings ((List.range accs.length).map accVar)
  let monNames := sortStrings ((List.range mons.length).map monVar)
  let header := "vars {\n" ++ String.join (accNames.map fun n => "\taccount $" ++ n ++ "\n") ++
    String.join (monNames.map fun n => "\tmonetary $" ++ n ++ "\n") ++ "}\n"
  let one (p : TxPosting) : String :=
    "send $" ++ monVar (indexOfMon mons p.asset p.amount) ++ " (\n" ++
    (if p.source = "world" then "\tsource = @world\n"
     else "\tsource = $" ++ accVar (indexOfStr accs p.source) ++
          (if force then " allowing unbounded overdraft" else "") ++ "\n") ++
    (if p.destination = "world" then "\tdestination = @world\n"
     else "\tdestination = $" ++ accVar (indexOfStr accs p.destination) ++ "\n") ++
    ")\n"
  header ++ String.join (ps.map one)

/-! ## The specification C25 compares with -/

/-- Applying the postings in order to running balances: `none` as soon as a posting
    with a positive amount exceeds the running balance of its non-world source. -/
def applyPostings (bal : String → String → Int) : List TxPosting → Option (String → String → Int)
  | [] => some bal
  | p :: ps =>
    if p.source ≠ "world" ∧ 0 < p.amount ∧ bal p.source p.asset < p.amount then none
    else
      let b1 : String → String → Int := fun a c =>
        if a = p.source ∧ c = p.asset then bal a c - p.amount else bal a c
      let b2 : String → String → Int := fun a c =>
        if a = p.destination ∧ c = p.asset then b1 a c + p.amount else b1 a c
      applyPostings b2 ps

end Ledger.Machine

namespace Ledger.Machine

/-- The resolved environment binds the variables of the generated script to the
    fields of the postings (decidable; evaluated on every generated case by the
    `postings` handler). -/
def txEnvOK (env : Env) (accs : List String) (mons : List (String × Int)) : List TxPosting → Bool
  | [] => true
  | p :: ps =>
    (match evalExpr env (.var (monVar (indexOfMon mons p.asset p.amount))) with
     | .ok (.monetary a (some v)) => a = p.asset && v = p.amount
     | _ => false) &&
    (p.source = "world" ||
      match evalExpr env (.var (accVar (indexOfStr accs p.source))) with
      | .ok (.account a) => a = p.source
      | _ => false) &&
    (p.destination = "world" ||
      match evalExpr env (.var (accVar (indexOfStr accs p.destination))) with
      | .ok (.account a) => a = p.destination
      | _ => false) &&
    txEnvOK env accs mons ps

end Ledger.Machine
