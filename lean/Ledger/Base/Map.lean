/-!
Finite maps as key-sorted association lists (core-only, executable).

`Map κ ν` is just `List (κ × ν)`; the representation invariant (keys strictly
increasing) is the *separate* predicate `Map.WF`.  No operation relies on the
invariant for being total; lemmas that need it say so (see
`Ledger/Proofs/CoreMap.lean`).

Keys are ordered by a Boolean strict order `KeyOrd.lt`; the laws a proof needs
(`LawfulKeyOrd`) are a separate `Prop` class.  Instances: `String` (code-point
lexicographic order = Go's byte-wise `<` on valid UTF-8 strings) and pairs
(lexicographic — the `(account, asset)` order of `Transaction.VolumeUpdates`'
final sort).
-/
namespace Ledger.Base

/-- Boolean strict order on keys. -/
class KeyOrd (κ : Type) where
  lt : κ → κ → Bool

/-- What proofs need of a key order: a strict total order. -/
class LawfulKeyOrd (κ : Type) [KeyOrd κ] : Prop where
  irrefl : ∀ a : κ, KeyOrd.lt a a = false
  trans : ∀ {a b c : κ}, KeyOrd.lt a b = true → KeyOrd.lt b c = true → KeyOrd.lt a c = true
  tri : ∀ {a b : κ}, KeyOrd.lt a b = false → KeyOrd.lt b a = false → a = b

instance : KeyOrd String := ⟨fun a b => decide (a < b)⟩
instance : KeyOrd Nat := ⟨fun a b => decide (a < b)⟩

instance {α β : Type} [KeyOrd α] [KeyOrd β] [DecidableEq α] : KeyOrd (α × β) :=
  ⟨fun a b => KeyOrd.lt a.1 b.1 || (decide (a.1 = b.1) && KeyOrd.lt a.2 b.2)⟩

abbrev Map (κ ν : Type) := List (κ × ν)

namespace Map
variable {κ ν : Type}

def empty : Map κ ν := []

/-- Keys strictly increasing (hence distinct). -/
def WF [KeyOrd κ] (m : Map κ ν) : Prop := m.Pairwise (fun a b => KeyOrd.lt a.1 b.1 = true)

/-- Decidable form of `WF` for drivers/tests. -/
def isSorted [KeyOrd κ] : Map κ ν → Bool
  | [] => true
  | [_] => true
  | a :: b :: r => KeyOrd.lt a.1 b.1 && isSorted (b :: r)

/-- Value of the first entry with key `k`. -/
def get? [DecidableEq κ] : Map κ ν → κ → Option ν
  | [], _ => none
  | (k', v) :: r, k => if k' = k then some v else get? r k

def contains [DecidableEq κ] (m : Map κ ν) (k : κ) : Bool := (m.get? k).isSome

def keys (m : Map κ ν) : List κ := m.map (·.1)

/-- Insert `(k, v)` at its sorted position; if `k` is present combine as `f old v`. -/
def insertWith [DecidableEq κ] [KeyOrd κ] (f : ν → ν → ν) (k : κ) (v : ν) : Map κ ν → Map κ ν
  | [] => [(k, v)]
  | (k', v') :: r =>
    if k' = k then (k, f v' v) :: r
    else if KeyOrd.lt k k' then (k, v) :: (k', v') :: r
    else (k', v') :: insertWith f k v r

/-- Overwrite / insert. -/
def insert [DecidableEq κ] [KeyOrd κ] (k : κ) (v : ν) (m : Map κ ν) : Map κ ν :=
  insertWith (fun _ new => new) k v m

/-- Apply `f` to the value of the first entry with key `k`; no-op when absent. -/
def adjust [DecidableEq κ] (k : κ) (f : ν → ν) : Map κ ν → Map κ ν
  | [] => []
  | (k', v) :: r => if k' = k then (k', f v) :: r else (k', v) :: adjust k f r

def erase [DecidableEq κ] (k : κ) : Map κ ν → Map κ ν
  | [] => []
  | (k', v) :: r => if k' = k then r else (k', v) :: erase k r

def mapVal {μ : Type} (f : κ → ν → μ) (m : Map κ ν) : Map κ μ := m.map (fun e => (e.1, f e.1 e.2))

/-- Σ over the entries of an integer-valued measure. -/
def sumBy (h : κ → ν → Int) : Map κ ν → Int
  | [] => 0
  | (k, v) :: r => h k v + sumBy h r

/-- Sort an arbitrary association list into a map (later duplicates combined with `f`). -/
def ofList [DecidableEq κ] [KeyOrd κ] (f : ν → ν → ν) (l : List (κ × ν)) : Map κ ν :=
  l.foldl (fun m e => insertWith f e.1 e.2 m) []

end Map
end Ledger.Base
