/-!
Regex-lite: the subset of Go `regexp` (RE2 syntax, Perl flags, no `(?flags)`)
needed for chart-of-accounts segment patterns, the account / asset patterns and
the NumScript lexer rules.

* `Re`        – AST (char classes are explicit code-point ranges; `+ ? {m,n}` are
                derived forms so that proofs only see six constructors + anchors)
* `Lang`      – denotational semantics of anchor-free expressions
* `accepts`   – Brzozowski-derivative matcher (whole-string match of an
                anchor-free expression); proved equivalent to `Lang` in
                `Ledger/Proofs/ChartRegex.lean`
* `search`    – position-set simulation with anchors = Go `regexp.Match`
                (unanchored search); executable, differential-tested against Go
* `parse`     – parser for the supported concrete syntax (errors mirror the cases
                in which Go's `regexp.Compile` fails; constructs outside the subset
                yield `.unsupported`)

Core-only (no imports).
-/
namespace Ledger.Regex

/-- Largest Unicode code point. -/
def maxRune : Nat := 0x10FFFF

inductive Re where
  | emp                         -- matches nothing
  | eps                         -- matches the empty string
  | cls (rs : List (Nat × Nat)) -- one char whose code point lies in one of the inclusive ranges
  | cat (a b : Re)
  | alt (a b : Re)
  | star (a : Re)
  | bol                         -- `^` / `\A` (begin of text; no multi-line mode)
  | eol                         -- `$` / `\z` (end of text)
deriving Repr, DecidableEq, Inhabited

namespace Re

def chr (c : Char) : Re := .cls [(c.toNat, c.toNat)]
def plus (a : Re) : Re := .cat a (.star a)
def opt (a : Re) : Re := .alt a .eps

/-- `a` repeated exactly `n` times, followed by `k`. -/
def pow (a : Re) : Nat → Re → Re
  | 0, k => k
  | n + 1, k => .cat a (pow a n k)

/-- at most `n` times `a`, nested as `(a(a(a)?)?)?` (derivatives stay small) -/
def optN (a : Re) : Nat → Re
  | 0 => .eps
  | n + 1 => opt (.cat a (optN a n))

/-- `a{m,n}` (`n = none`: unbounded). Ill-formed bounds (`n < m`) give `emp`;
    the parser rejects them before getting here, as Go does. -/
def rep (a : Re) (m : Nat) : Option Nat → Re
  | none => pow a m (.star a)
  | some n => if n < m then .emp else pow a m (optN a (n - m))

def anchorFree : Re → Bool
  | .bol | .eol => false
  | .cat a b | .alt a b => anchorFree a && anchorFree b
  | .star a => anchorFree a
  | _ => true

/-- `^ body $` → `body` (the shape of every validation pattern in the repo). -/
def dropLastEol : Re → Option Re
  | .cat a .eol => some a
  | .cat a b => (dropLastEol b).map (.cat a)
  | _ => none

def unanchor : Re → Option Re
  | .cat .bol b => dropLastEol b
  | _ => none

/-- `'c' rest` → `rest` (lexer rules with a sigil: `@account`, `$variable`). -/
def dropFirstChr (c : Char) : Re → Option Re
  | .cat (.cls [(lo, hi)]) rest => if lo = c.toNat && hi = c.toNat then some rest else none
  | _ => none

end Re

def clsMem (rs : List (Nat × Nat)) (c : Char) : Bool :=
  rs.any fun (lo, hi) => lo ≤ c.toNat && c.toNat ≤ hi

/-! ### Denotational semantics (anchor-free) -/

inductive Lang : Re → List Char → Prop where
  | eps : Lang .eps []
  | cls {rs c} : clsMem rs c = true → Lang (.cls rs) [c]
  | cat {a b s t} : Lang a s → Lang b t → Lang (.cat a b) (s ++ t)
  | altL {a b s} : Lang a s → Lang (.alt a b) s
  | altR {a b s} : Lang b s → Lang (.alt a b) s
  | starNil {a} : Lang (.star a) []
  | starCons {a s t} : Lang a s → Lang (.star a) t → Lang (.star a) (s ++ t)

/-! ### Derivative matcher (whole string, anchor-free) -/

def nullable : Re → Bool
  | .eps | .star _ => true
  | .cat a b => nullable a && nullable b
  | .alt a b => nullable a || nullable b
  | _ => false

def mkCat : Re → Re → Re
  | .emp, _ => .emp
  | _, .emp => .emp
  | .eps, b => b
  | a, b => .cat a b

def mkAlt : Re → Re → Re
  | .emp, b => b
  | a, .emp => a
  | a, b => .alt a b

def deriv (c : Char) : Re → Re
  | .cls rs => if clsMem rs c then .eps else .emp
  | .cat a b =>
    if nullable a then mkAlt (mkCat (deriv c a) b) (deriv c b) else mkCat (deriv c a) b
  | .alt a b => mkAlt (deriv c a) (deriv c b)
  | .star a => mkCat (deriv c a) (.star a)
  | _ => .emp

def accepts (r : Re) : List Char → Bool
  | [] => nullable r
  | c :: s => accepts (deriv c r) s

/-! ### Position-set matcher with anchors (= Go `regexp.Match`, unanchored) -/

def insertPos (p : Nat) : List Nat → List Nat
  | [] => [p]
  | q :: qs => if p < q then p :: q :: qs else if p = q then q :: qs else q :: insertPos p qs

def unionPos (a b : List Nat) : List Nat := a.foldl (fun acc p => insertPos p acc) b

/-- Iterate `f` from `frontier` until no new position appears. -/
def starLoop (f : List Nat → List Nat) : Nat → List Nat → List Nat → List Nat
  | 0, _, acc => acc
  | fuel + 1, frontier, acc =>
    let nxt := (f frontier).filter fun p => !acc.contains p
    if nxt.isEmpty then acc else starLoop f fuel nxt (unionPos nxt acc)

/-- `ends inp r P` = positions reachable by matching `r` from a position in `P`. -/
def ends (inp : Array Char) : Re → List Nat → List Nat
  | .emp, _ => []
  | .eps, ps => ps
  | .cls rs, ps =>
    ps.filterMap fun p => if h : p < inp.size then (if clsMem rs inp[p] then some (p + 1) else none) else none
  | .cat a b, ps => ends inp b (ends inp a ps)
  | .alt a b, ps => unionPos (ends inp a ps) (ends inp b ps)
  | .star a, ps => starLoop (ends inp a) (inp.size + 1) ps ps
  | .bol, ps => ps.filter (· = 0)
  | .eol, ps => ps.filter (· = inp.size)

/-- Go `regexp.Match(r, s)`: does `r` match some substring of `s`? -/
def search (r : Re) (s : List Char) : Bool :=
  let inp := s.toArray
  !(ends inp r (List.range (inp.size + 1))).isEmpty

/-- Whole-string match through the position-set matcher (no implicit anchors). -/
def fullMatchPos (r : Re) (s : List Char) : Bool :=
  let inp := s.toArray
  (ends inp r [0]).contains inp.size

/-! ### Parser -/

inductive ParseErr where
  | syntax (msg : String)        -- Go's regexp.Compile fails as well
  | unsupported (msg : String)   -- valid (or possibly valid) Go syntax outside the subset
deriving Repr, DecidableEq

/-- Sort + merge inclusive ranges (Go's `cleanClass`). -/
def insertRange (r : Nat × Nat) : List (Nat × Nat) → List (Nat × Nat)
  | [] => [r]
  | q :: qs => if r.1 < q.1 || (r.1 = q.1 && r.2 ≥ q.2) then r :: q :: qs else q :: insertRange r qs

def mergeSorted : List (Nat × Nat) → List (Nat × Nat)
  | [] => []
  | [r] => [r]
  | a :: b :: rest =>
    if b.1 ≤ a.2 + 1 then mergeSorted ((a.1, max a.2 b.2) :: rest) else a :: mergeSorted (b :: rest)
termination_by l => l.length

def cleanClass (rs : List (Nat × Nat)) : List (Nat × Nat) :=
  mergeSorted (rs.foldl (fun acc r => insertRange r acc) [])

/-- Complement within `[0, maxRune]` of a cleaned class. -/
def negateClass (rs : List (Nat × Nat)) : List (Nat × Nat) :=
  let rec go (next : Nat) : List (Nat × Nat) → List (Nat × Nat)
    | [] => if next ≤ maxRune then [(next, maxRune)] else []
    | (lo, hi) :: rest => if next < lo then (next, lo - 1) :: go (hi + 1) rest else go (hi + 1) rest
  go 0 rs

def digitC : List (Nat × Nat) := [(48, 57)]
def wordC : List (Nat × Nat) := [(48, 57), (65, 90), (95, 95), (97, 122)]
def spaceC : List (Nat × Nat) := [(9, 10), (12, 13), (32, 32)]
def anyNotNL : List (Nat × Nat) := [(0, 9), (11, maxRune)]

def isDigit (c : Char) : Bool := '0' ≤ c && c ≤ '9'
def isAlnum (c : Char) : Bool := isDigit c || ('a' ≤ c && c ≤ 'z') || ('A' ≤ c && c ≤ 'Z')

/-- Smart alternation mirroring Go's merge of adjacent single-char alternatives. -/
def altMerge : Re → Re → Re
  | .cls a, .cls b => .cls (cleanClass (a ++ b))
  | .cls a, .alt (.cls b) rest => .alt (.cls (cleanClass (a ++ b))) rest
  | a, b => .alt a b

def catList : List Re → Re
  | [] => .eps
  | [a] => a
  | a :: rest => .cat a (catList rest)

/-- A class escape (`\d \w \s` and negations) usable inside and outside `[...]`. -/
def classEscape (c : Char) : Option (List (Nat × Nat)) :=
  match c with
  | 'd' => some digitC
  | 'D' => some (negateClass digitC)
  | 'w' => some wordC
  | 'W' => some (negateClass wordC)
  | 's' => some spaceC
  | 'S' => some (negateClass spaceC)
  | _ => none

/-- A single-char escape: returns the code point. -/
def charEscape (c : Char) : Except ParseErr Nat :=
  if c = 'n' then pure 10 else if c = 't' then pure 9 else if c = 'r' then pure 13
  else if c = 'f' then pure 12 else if c = 'v' then pure 11 else if c = 'a' then pure 7
  else if c.toNat < 128 && !isAlnum c then pure c.toNat
  else if c = 'x' || c = 'p' || c = 'P' || c = 'Q' || c = 'E' || c = 'b' || c = 'B' || c = 'C'
          || isDigit c then
    throw (.unsupported s!"escape \\{c}")
  else throw (.syntax s!"invalid escape sequence \\{c}")

def readNat : List Char → Nat → Option (Nat × List Char)
  | c :: rest, acc => if isDigit c then
      match readNat rest (acc * 10 + (c.toNat - 48)) with
      | some r => some r
      | none => some (acc * 10 + (c.toNat - 48), rest)
    else none
  | [], _ => none

/-- `{m}`, `{m,}`, `{m,n}` after the `{`; `none` = not a repetition (literal `{`). -/
def readRepeat (s : List Char) : Option (Nat × Option Nat × List Char) :=
  match readNat s 0 with
  | none => none
  | some (m, '}' :: rest) => some (m, some m, rest)
  | some (m, ',' :: '}' :: rest) => some (m, none, rest)
  | some (m, ',' :: rest) =>
    match readNat rest 0 with
    | some (n, '}' :: rest') => some (m, some n, rest')
    | _ => none
  | _ => none

/-- One item of a bracket class: a code point (possibly start of a range) or a class escape. -/
inductive ClassItem where
  | ch (c : Nat)
  | set (rs : List (Nat × Nat))

def readClassItem : List Char → Except ParseErr (ClassItem × List Char)
  | '\\' :: c :: rest =>
    match classEscape c with
    | some rs => pure (.set rs, rest)
    | none => do pure (.ch (← charEscape c), rest)
  | ['\\'] => throw (.syntax "trailing backslash")
  | '[' :: ':' :: _ => throw (.unsupported "posix class")
  | c :: rest => pure (.ch c.toNat, rest)
  | [] => throw (.syntax "missing closing ]")

/-- Body of `[...]` after the optional `^`; `first` allows a literal `]`. -/
def readClass : Nat → Bool → List Char → List (Nat × Nat) → Except ParseErr (List (Nat × Nat) × List Char)
  | 0, _, _, _ => throw (.syntax "missing closing ]")
  | _ + 1, _, [], _ => throw (.syntax "missing closing ]")
  | fuel + 1, first, s@(c :: rest), acc =>
    if c = ']' && !first then pure (acc, rest) else do
    let (it, rest1) ← readClassItem s
    match it with
    | .set rs => readClass fuel false rest1 (acc ++ rs)
    | .ch lo =>
      match rest1 with
      | '-' :: c2 :: rest2 =>
        if c2 = ']' then readClass fuel false rest1 (acc ++ [(lo, lo)]) else do
        let (it2, rest3) ← readClassItem (c2 :: rest2)
        match it2 with
        | .set _ => throw (.syntax "invalid character class range")
        | .ch hi =>
          if hi < lo then throw (.syntax "invalid character class range")
          else readClass fuel false rest3 (acc ++ [(lo, hi)])
      | _ => readClass fuel false rest1 (acc ++ [(lo, lo)])

mutual
/-- alternation; stops at `)` or end of input -/
def parseAlt : Nat → List Char → Except ParseErr (Re × List Char)
  | 0, _ => throw (.syntax "too deep")
  | fuel + 1, s => do
    let (a, rest) ← parseCat fuel s []
    match rest with
    | '|' :: rest' => do
      let (b, rest'') ← parseAlt fuel rest'
      pure (altMerge a b, rest'')
    | _ => pure (a, rest)

/-- concatenation of repeated atoms -/
def parseCat : Nat → List Char → List Re → Except ParseErr (Re × List Char)
  | 0, _, _ => throw (.syntax "too deep")
  | _ + 1, [], acc => pure (catList acc.reverse, [])
  | fuel + 1, s@(c :: rest), acc =>
    if c = '|' || c = ')' then pure (catList acc.reverse, s) else
    if c = '*' || c = '+' || c = '?' then throw (.syntax "missing argument to repetition operator") else do
    -- atom
    let (atom, rest1) ←
      (if c = '(' then
        match rest with
        | '?' :: ':' :: inner => do
          let (r, rest2) ← parseAlt fuel inner
          match rest2 with
          | ')' :: rest3 => pure (r, rest3)
          | _ => throw (.syntax "missing closing )")
        | '?' :: _ => throw (.unsupported "group flags / named groups")
        | inner => do
          let (r, rest2) ← parseAlt fuel inner
          match rest2 with
          | ')' :: rest3 => pure (r, rest3)
          | _ => throw (.syntax "missing closing )")
      else if c = '[' then
        match rest with
        | '^' :: body => do
          let (rs, rest2) ← readClass (body.length + 1) true body []
          pure (Re.cls (negateClass (cleanClass rs)), rest2)
        | body => do
          let (rs, rest2) ← readClass (body.length + 1) true body []
          pure (Re.cls (cleanClass rs), rest2)
      else if c = '.' then pure (Re.cls anyNotNL, rest)
      else if c = '^' then pure (Re.bol, rest)
      else if c = '$' then pure (Re.eol, rest)
      else if c = '\\' then
        match rest with
        | [] => throw (.syntax "trailing backslash")
        | e :: rest2 =>
          if e = 'A' then pure (Re.bol, rest2) else if e = 'z' then pure (Re.eol, rest2) else
          match classEscape e with
          | some rs => pure (Re.cls rs, rest2)
          | none => do pure (Re.cls [((← charEscape e), (← charEscape e))], rest2)
      else pure (Re.chr c, rest) : Except ParseErr (Re × List Char))
    -- at most one repetition operator (Perl mode: stacking is an error)
    let (r, rest2) ←
      (match rest1 with
      | '*' :: t => pure (Re.star atom, t, true)
      | '+' :: t => pure (Re.plus atom, t, true)
      | '?' :: t => pure (Re.opt atom, t, true)
      | '{' :: t =>
        match readRepeat t with
        | some (m, n, t') =>
          if m > 1000 || (match n with | some n => n > 1000 || n < m | none => false) then
            throw (.syntax "invalid repeat count")
          else pure (Re.rep atom m n, t', true)
        | none => pure (atom, rest1, false)
      | _ => pure (atom, rest1, false) : Except ParseErr (Re × List Char × Bool)) >>= fun (r, t, isRep) =>
        if !isRep then pure (r, t) else
        -- optional non-greedy marker, then no further repetition operator
        let t := match t with | '?' :: t' => t' | _ => t
        match t with
        | '*' :: _ | '+' :: _ | '?' :: _ => throw (.syntax "invalid nested repetition operator")
        | '{' :: t' => if (readRepeat t').isSome then throw (.syntax "invalid nested repetition operator") else pure (r, t)
        | _ => pure (r, t)
    parseCat fuel rest2 (r :: acc)
end

def parseChars (s : List Char) : Except ParseErr Re := do
  let (r, rest) ← parseAlt (2 * s.length + 4) s
  match rest with
  | [] => pure r
  | _ => throw (.syntax "unexpected )")

def parse (s : String) : Except ParseErr Re := parseChars s.toList

/-- Go `regexp.Match(pattern, s)` through the Lean parser and matcher. `none` when
    the pattern is outside the supported subset or does not compile. -/
def matchString (pattern s : String) : Option Bool :=
  match parse pattern with
  | .ok r => some (search r s.toList)
  | .error _ => none

end Ledger.Regex
