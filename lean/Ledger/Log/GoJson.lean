import Ledger.Log.PlAst

/-!
Byte-exact model of the parts of Go's `encoding/json` (go1.26, `encode.go`) that
`Log.ComputeHash` and `InsertLog` (memento) exercise, with `escapeHTML = true`
(the default of `json.Marshal` and of `json.NewEncoder`):

* strings (`appendString`): `"` and `\` get a backslash; `\b \f \n \r \t` their
  short form; other bytes `< 0x20` and `<`, `>`, `&` become `\u00XX` (lower-case
  hex); invalid UTF-8 becomes the six characters backslash-u-f-f-f-d (one byte consumed);
  U+2028 / U+2029 become backslash-u-2028 / backslash-u-2029; everything else is copied;
* integers in decimal; `[]byte` as padded standard base64 in quotes, `null` when nil;
* structs as objects in field order, `omitempty` dropping empty strings;
* maps with keys sorted bytewise (`slices.SortFunc(sv, strings.Compare)`), nil
  maps and nil slices as `null`.

Strings are Go strings, i.e. arbitrary byte sequences (`Bytes`).  Everything is
structurally recursive so that the kernel can evaluate it on concrete inputs.
Tied to the real encoder by the `gohash` workload (hash of these bytes = hash
computed by the real `ComputeHash`; memento bytes compared directly).
Core-only.
-/
namespace Ledger.Log

open Lean in
/-- `b!"…"`: the UTF-8 bytes of a string literal as an explicit `List UInt8`
    (numerals, so that `simp`/`decide` see through it). -/
macro:max "b!" s:str : term => do
  let bs := s.getString.toUTF8.toList
  let elems := bs.toArray.map fun b => Syntax.mkNumLit (toString b.toNat)
  `(([$elems,*] : List UInt8))

/-! ### strings -/

/-- `htmlSafeSet[b]` for `b < 0x80` (encoding/json/tables.go): printable ASCII and
    DEL, except `"`, `\`, `<`, `>`, `&`. -/
def htmlSafe (b : UInt8) : Bool :=
  0x20 ≤ b && b < 0x80 && b != 0x22 && b != 0x5c && b != 0x3c && b != 0x3e && b != 0x26

def hexLower (n : UInt8) : UInt8 := if n < 10 then 0x30 + n else 0x57 + n

/-- what `appendString` writes for one byte `< 0x80` -/
def escAscii (b : UInt8) : Bytes :=
  if htmlSafe b then [b]
  else if b = 0x5c || b = 0x22 then [0x5c, b]
  else if b = 0x08 then [0x5c, 0x62]
  else if b = 0x0c then [0x5c, 0x66]
  else if b = 0x0a then [0x5c, 0x6e]
  else if b = 0x0d then [0x5c, 0x72]
  else if b = 0x09 then [0x5c, 0x74]
  else [0x5c, 0x75, 0x30, 0x30, hexLower (b >>> 4), hexLower (b &&& 0xf)]

def isCont (b : UInt8) : Bool := 0x80 ≤ b && b ≤ 0xbf

/-- `utf8.DecodeRune` validity (unicode/utf8 `first`/`acceptRanges` tables): the
    number of CONTINUATION bytes of the well-formed sequence that starts with
    `b0 ≥ 0x80` and continues with the head of `t`; `0` when the sequence is
    ill-formed or truncated (then Go reports `RuneError, 1`). -/
def contCount (b0 : UInt8) (t : Bytes) : Nat :=
  if 0xc2 ≤ b0 && b0 ≤ 0xdf then
    match t with
    | b1 :: _ => if isCont b1 then 1 else 0
    | _ => 0
  else if 0xe0 ≤ b0 && b0 ≤ 0xef then
    match t with
    | b1 :: b2 :: _ =>
      let lo : UInt8 := if b0 = 0xe0 then 0xa0 else 0x80
      let hi : UInt8 := if b0 = 0xed then 0x9f else 0xbf
      if lo ≤ b1 && b1 ≤ hi && isCont b2 then 2 else 0
    | _ => 0
  else if 0xf0 ≤ b0 && b0 ≤ 0xf4 then
    match t with
    | b1 :: b2 :: b3 :: _ =>
      let lo : UInt8 := if b0 = 0xf0 then 0x90 else 0x80
      let hi : UInt8 := if b0 = 0xf4 then 0x8f else 0xbf
      if lo ≤ b1 && b1 ≤ hi && isCont b2 && isCont b3 then 3 else 0
    | _ => 0
  else 0

/-- U+2028 / U+2029 = `E2 80 A8` / `E2 80 A9`; returns the last hex digit (8 or 9) -/
def lineSep (b0 : UInt8) (t : Bytes) : Option UInt8 :=
  match t with
  | b1 :: b2 :: _ =>
    if b0 = 0xe2 && b1 = 0x80 && (b2 = 0xa8 || b2 = 0xa9) then some (b2 &&& 0xf) else none
  | _ => none

/-- Body of `appendString` (between the quotes).  `skip`/`keep`: the next `skip`
    bytes are continuation bytes of a sequence already validated by look-ahead;
    they are copied (`keep`) or were replaced by an escape (`!keep`). -/
def goStrAux : Nat → Bool → Bytes → Bytes
  | _, _, [] => []
  | n + 1, keep, b :: t => if keep then b :: goStrAux n keep t else goStrAux n keep t
  | 0, _, b0 :: t =>
    if b0 < 0x80 then escAscii b0 ++ goStrAux 0 true t
    else
      let k := contCount b0 t
      if k = 0 then b!"\\ufffd" ++ goStrAux 0 true t
      else match lineSep b0 t with
        | some d => [0x5c, 0x75, 0x32, 0x30, 0x32, 0x30 + d] ++ goStrAux 2 false t
        | none => b0 :: goStrAux k true t

/-- `appendString(dst, s, escapeHTML=true)` -/
def goString (s : Bytes) : Bytes := 0x22 :: (goStrAux 0 true s ++ [0x22])

/-! ### numbers -/

def digitChar : Nat → UInt8
  | 0 => 0x30 | 1 => 0x31 | 2 => 0x32 | 3 => 0x33 | 4 => 0x34
  | 5 => 0x35 | 6 => 0x36 | 7 => 0x37 | 8 => 0x38 | _ => 0x39

/-- decimal digits of `n`, most significant first; `fuel` bounds the number of
    digits (`n + 1` is always enough) -/
def natDecAux : Nat → Nat → Bytes → Bytes
  | 0, _, acc => acc
  | fuel + 1, n, acc =>
    if n < 10 then digitChar n :: acc else natDecAux fuel (n / 10) (digitChar (n % 10) :: acc)

/-- `strconv.AppendUint(…, 10)` -/
def natDec (n : Nat) : Bytes := natDecAux (n + 1) n []

/-- `strconv.AppendInt(…, 10)` / `big.Int.String` -/
def intDec (i : Int) : Bytes :=
  match i with
  | .ofNat n => natDec n
  | .negSucc n => 0x2d :: natDec (n + 1)

/-- `n` zero-padded to two digits (`n < 100`) -/
def pad2 (n : Nat) : Bytes := [digitChar (n / 10 % 10), digitChar (n % 10)]

/-- `n` zero-padded to at least four digits (Go `appendInt(b, year, 4)`, C `%04d`) -/
def pad4 (n : Nat) : Bytes :=
  if n < 10000 then [digitChar (n / 1000 % 10), digitChar (n / 100 % 10), digitChar (n / 10 % 10), digitChar (n % 10)]
  else natDec n

/-! ### base64 (RFC 4648 §4, with padding) -/

def b64Char (n : UInt8) : UInt8 :=
  if n < 26 then 0x41 + n else if n < 52 then 0x61 + (n - 26) else if n < 62 then 0x30 + (n - 52)
  else if n = 62 then 0x2b else 0x2f

/-- `base64.StdEncoding.EncodeToString` -/
def base64 : Bytes → Bytes
  | a :: b :: c :: r =>
    b64Char (a >>> 2) :: b64Char (((a &&& 3) <<< 4) ||| (b >>> 4)) ::
    b64Char (((b &&& 0xf) <<< 2) ||| (c >>> 6)) :: b64Char (c &&& 0x3f) :: base64 r
  | [a, b] =>
    [b64Char (a >>> 2), b64Char (((a &&& 3) <<< 4) ||| (b >>> 4)), b64Char ((b &&& 0xf) <<< 2), 0x3d]
  | [a] => [b64Char (a >>> 2), b64Char ((a &&& 3) <<< 4), 0x3d, 0x3d]
  | [] => []

/-- `[]byte` field: `null` when nil, else base64 in quotes -/
def goBytes : Option Bytes → Bytes
  | none => b!"null"
  | some b => 0x22 :: (base64 b ++ [0x22])

/-! ### maps: keys sorted bytewise -/

/-- `strings.Compare(a, b) < 0` (bytewise lexicographic order) -/
def bytesLt : Bytes → Bytes → Bool
  | [], [] => false
  | [], _ :: _ => true
  | _ :: _, [] => false
  | a :: s, b :: t => if a < b then true else if b < a then false else bytesLt s t

def insertByKey {α : Type} (kv : Bytes × α) : List (Bytes × α) → List (Bytes × α)
  | [] => [kv]
  | x :: r => if bytesLt kv.1 x.1 then kv :: x :: r else x :: insertByKey kv r

/-- stable insertion sort by key (Go map keys are unique, so stability is moot) -/
def sortByKey {α : Type} : List (Bytes × α) → List (Bytes × α)
  | [] => []
  | x :: r => insertByKey x (sortByKey r)

/-- `a,b,c` -/
def joinComma : List Bytes → Bytes
  | [] => []
  | [x] => x
  | x :: r => x ++ 0x2c :: joinComma r

/-- object from already encoded `(key, value)` pairs: `{"k":v,…}` (keys escaped
    like any string) -/
def goObject (fields : List (Bytes × Bytes)) : Bytes :=
  0x7b :: (joinComma (fields.map fun (k, v) => goString k ++ 0x3a :: v) ++ [0x7d])

def goArray (elems : List Bytes) : Bytes := 0x5b :: (joinComma elems ++ [0x5d])

end Ledger.Log
