import Ledger.Log.Model

/-!
Encode / decode of the log payloads at the level of JSON TREES (property C08,
payload part; also what export → import relies on).

`encodePayload` models `json.Marshal(payload)` (what `InsertLog` stores in
`logs.data` and what the export writes as `"data"`), `decodePayload` models
`HydrateLog(type, data)` (`json.Unmarshal` into the payload struct, with the custom
`UnmarshalJSON` of `SavedMetadata` / `DeletedMetadata`), both on `JVal` trees.
The layer between trees and bytes is Go's `encoding/json` itself (executed, not
modelled here — the byte-exact encoder model of GoJson.lean covers the memento
only); three leaf conversions are modelled because they are lossy:

* strings: invalid UTF-8 becomes U+FFFD when encoded (`sanitize`);
* times: go-libs `ParseTime` rounds to the microsecond and converts to UTC
  (`normTime`);
* `uint64` ids / `any` target ids: range and dynamic type.

Derived members that the decoder ignores (`reverted`, `preCommitVolumes`,
`preCommitEffectiveVolumes`, `balance`) are not part of the tree.
Core-only.
-/
namespace Ledger.Log

inductive JVal
  | null
  | bool (b : Bool)
  | num (i : Int)
  | str (s : Bytes)
  /-- a JSON string holding an RFC3339Nano time -/
  | time (d : Date)
  /-- an already encoded JSON value (the schema of `InsertedSchema`) -/
  | raw (b : Bytes)
  | arr (xs : List JVal)
  | obj (kvs : List (Bytes × JVal))
  deriving Repr, Inhabited

/-! ### leaves -/

/-- what a Go string looks like after `json.Marshal` + `json.Unmarshal`: ill-formed
    bytes are replaced by U+FFFD (`EF BF BD`), one per byte (`appendString`) -/
def sanitizeAux : Nat → Bytes → Bytes
  | _, [] => []
  | n + 1, b :: t => b :: sanitizeAux n t
  | 0, b0 :: t =>
    if b0 < 0x80 then b0 :: sanitizeAux 0 t
    else if contCount b0 t = 0 then 0xef :: 0xbf :: 0xbd :: sanitizeAux 0 t
    else b0 :: sanitizeAux (contCount b0 t) t

def sanitize (s : Bytes) : Bytes := sanitizeAux 0 s

/-- well-formed UTF-8 (Go `utf8.Valid`) -/
def validUtf8Aux : Nat → Bytes → Bool
  | 0, [] => true
  | _ + 1, [] => false
  | n + 1, b :: t => isCont b && validUtf8Aux n t
  | 0, b0 :: t =>
    if b0 < 0x80 then validUtf8Aux 0 t
    else contCount b0 t != 0 && validUtf8Aux (contCount b0 t) t

def validUtf8 (s : Bytes) : Bool := validUtf8Aux 0 s

/-- days since 1970-01-01 of a proleptic Gregorian date (Hinnant's `days_from_civil`) -/
def daysFromCivil (y m d : Nat) : Int :=
  let y' : Int := if m ≤ 2 then (y : Int) - 1 else y
  let era : Int := y' / 400
  let yoe : Int := y' - era * 400
  let mp : Int := if m > 2 then (m : Int) - 3 else (m : Int) + 9
  let doy : Int := (153 * mp + 2) / 5 + (d : Int) - 1
  let doe : Int := yoe * 365 + yoe / 4 - yoe / 100 + doy
  era * 146097 + doe - 719468

/-- inverse (`civil_from_days`) -/
def civilFromDays (z0 : Int) : Nat × Nat × Nat :=
  let z := z0 + 719468
  let era := z / 146097
  let doe := z - era * 146097
  let yoe := (doe - doe / 1460 + doe / 36524 - doe / 146096) / 365
  let y := yoe + era * 400
  let doy := doe - (365 * yoe + yoe / 4 - yoe / 100)
  let mp := (5 * doy + 2) / 153
  let d := doy - (153 * mp + 2) / 5 + 1
  let m := if mp < 10 then mp + 3 else mp - 9
  ((if m ≤ 2 then y + 1 else y).toNat, m.toNat, d.toNat)

/-- go-libs `ParseTime`: `t.Round(time.Microsecond).UTC()` (Round: halfway values
    round up; instants here are after year 1, so "up" = away from zero) -/
def normTime (d : Date) : Date :=
  let secs : Int := daysFromCivil d.year d.month d.day * 86400 + (d.hour : Int) * 3600 + (d.minute : Int) * 60 +
    (d.second : Int) - d.zone * 60
  let micros : Int := secs * 1000000 + ((d.nano : Int) + 500) / 1000
  let s := micros / 1000000
  let us := micros % 1000000
  let days := s / 86400
  let rem := s % 86400
  let (y, m, dd) := civilFromDays days
  { year := y, month := m, day := dd, hour := (rem / 3600).toNat, minute := (rem % 3600 / 60).toNat,
    second := (rem % 60).toNat, nano := (us * 1000).toNat, zone := 0 }

/-! ### errors of the decoder -/

inductive DecodeErr
  /-- `json: cannot unmarshal …` / missing shape -/
  | shape (what : String)
  /-- number outside `uint64` -/
  | range
  /-- `SavedMetadata.UnmarshalJSON` panics (`unknown type`) / `DeletedMetadata` returns `unknown type '…'` -/
  | unknownTargetType
  /-- an account target whose id is a JSON number decodes into a `float64` -/
  | floatTarget
  deriving DecidableEq, Repr, Inhabited

/-! ### encode -/

def encStr (s : Bytes) : JVal := .str (sanitize s)

def encMetadataJ : Metadata → JVal
  | none => .null
  | some m => .obj ((sortByKey m).map fun (k, v) => (sanitize k, encStr v))

def encAccountMetadataJ : AccountMetadata → JVal
  | none => .null
  | some m => .obj ((sortByKey m).map fun (k, v) => (sanitize k, encMetadataJ v))

def encPostingJ (p : Posting) : JVal :=
  .obj [(b!"source", encStr p.source), (b!"destination", encStr p.destination),
        (b!"amount", match p.amount with | none => .null | some a => .num a), (b!"asset", encStr p.asset)]

def encVolumesJ (v : Volumes) : JVal := .obj [(b!"input", .num v.input), (b!"output", .num v.output)]

def encVolumesByAssetsJ (m : VolumesByAssets) : JVal :=
  .obj ((sortByKey m).map fun (k, v) => (sanitize k, encVolumesJ v))

/-- `omitempty`: `none` for a nil or empty map -/
def encPcvJ : PostCommitVolumes → Option JVal
  | none => none
  | some [] => none
  | some m => some (.obj ((sortByKey m).map fun (k, v) => (sanitize k, encVolumesByAssetsJ v)))

def optField (k : Bytes) : Option JVal → List (Bytes × JVal)
  | none => []
  | some v => [(k, v)]

def encPostingsJ : Option (List Posting) → JVal
  | none => .null
  | some ps => .arr (ps.map encPostingJ)

def encOptNatJ : Option Nat → JVal
  | none => .null
  | some n => .num n

/-- `Transaction.MarshalJSON` without the derived members -/
def encTransactionJ (tx : Transaction) : JVal :=
  .obj ([(b!"postings", encPostingsJ tx.postings),
         (b!"metadata", encMetadataJ tx.metadata),
         (b!"timestamp", .time tx.timestamp)] ++
        (if tx.reference = [] then [] else [(b!"reference", encStr tx.reference)]) ++
        [(b!"id", encOptNatJ tx.id),
         (b!"insertedAt", .time tx.insertedAt),
         (b!"updatedAt", .time tx.updatedAt)] ++
        optField b!"revertedAt" (tx.revertedAt.map .time) ++
        optField b!"postCommitVolumes" (encPcvJ tx.postCommitVolumes) ++
        optField b!"postCommitEffectiveVolumes" (encPcvJ tx.postCommitEffectiveVolumes) ++
        (if tx.template = [] then [] else [(b!"template", encStr tx.template)]))

def encTargetIdJ : TargetId → JVal
  | .account a => encStr a
  | .transaction n => .num n

def encodePayload : Payload → JVal
  | .createdTransaction tx am =>
    .obj [(b!"transaction", encTransactionJ tx), (b!"accountMetadata", encAccountMetadataJ am)]
  | .revertedTransaction reverted revert =>
    .obj [(b!"revertedTransaction", encTransactionJ reverted), (b!"transaction", encTransactionJ revert)]
  | .savedMetadata tt tid md =>
    .obj [(b!"targetType", encStr tt), (b!"targetId", encTargetIdJ tid), (b!"metadata", encMetadataJ md)]
  | .deletedMetadata tt tid key =>
    .obj [(b!"targetType", encStr tt), (b!"targetId", encTargetIdJ tid), (b!"key", encStr key)]
  | .insertedSchema schema => .obj [(b!"schema", .raw schema)]

/-! ### decode -/

/-- last occurrence of a key wins (`encoding/json` object decoding) -/
def jlookup (k : Bytes) : List (Bytes × JVal) → Option JVal
  | [] => none
  | (a, v) :: r => match jlookup k r with
    | some w => some w
    | none => if a = k then some v else none

/-- insert-or-replace, keeping the list sorted by key: a Go map built by successive
    assignments, presented in canonical (key) order -/
def mapSet {α : Type} (k : Bytes) (v : α) : List (Bytes × α) → List (Bytes × α)
  | [] => [(k, v)]
  | (a, w) :: r => if bytesLt k a then (k, v) :: (a, w) :: r else if a = k then (k, v) :: r else (a, w) :: mapSet k v r

def decStr : JVal → Except DecodeErr Bytes
  | .str s => .ok s
  | .null => .ok []          -- null leaves a string at its zero value
  | _ => .error (.shape "string")

def decTime : JVal → Except DecodeErr Date
  | .time d => .ok (normTime d)
  | .null => .ok { year := 1, month := 1, day := 1, hour := 0, minute := 0, second := 0, nano := 0, zone := 0 }
  | _ => .error (.shape "time")

def decUint64 : JVal → Except DecodeErr (Option Nat)
  | .null => .ok none
  | .num i => if 0 ≤ i ∧ i < 18446744073709551616 then .ok (some i.toNat) else .error .range
  | _ => .error (.shape "uint64")

def decMetadataKvs : List (Bytes × JVal) → Except DecodeErr (List (Bytes × Bytes))
  | [] => .ok []
  | (k, v) :: r => match decStr v with
    | .error e => .error e
    | .ok s => match decMetadataKvs r with
      | .error e => .error e
      | .ok m => .ok ((k, s) :: m)

/-- fold the pairs into a map, in order (later pairs override earlier ones) -/
def buildMap {α : Type} : List (Bytes × α) → List (Bytes × α) → List (Bytes × α)
  | acc, [] => acc
  | acc, (k, v) :: r => buildMap (mapSet k v acc) r

def decMetadata : JVal → Except DecodeErr Metadata
  | .null => .ok none
  | .obj kvs => match decMetadataKvs kvs with
    | .error e => .error e
    | .ok m => .ok (some (buildMap [] m))
  | _ => .error (.shape "metadata")

def decAccountMetadataKvs : List (Bytes × JVal) → Except DecodeErr (List (Bytes × Metadata))
  | [] => .ok []
  | (k, v) :: r => match decMetadata v with
    | .error e => .error e
    | .ok s => match decAccountMetadataKvs r with
      | .error e => .error e
      | .ok m => .ok ((k, s) :: m)

def decAccountMetadata : JVal → Except DecodeErr AccountMetadata
  | .null => .ok none
  | .obj kvs => match decAccountMetadataKvs kvs with
    | .error e => .error e
    | .ok m => .ok (some (buildMap [] m))
  | _ => .error (.shape "accountMetadata")

def fieldOr (kvs : List (Bytes × JVal)) (k : Bytes) : JVal := (jlookup k kvs).getD .null

def decPosting : JVal → Except DecodeErr Posting
  | .obj kvs =>
    match decStr (fieldOr kvs b!"source"), decStr (fieldOr kvs b!"destination"), decStr (fieldOr kvs b!"asset") with
    | .ok s, .ok d, .ok a =>
      match fieldOr kvs b!"amount" with
      | .null => .ok { source := s, destination := d, amount := none, asset := a }
      | .num i => .ok { source := s, destination := d, amount := some i, asset := a }
      | _ => .error (.shape "amount")
    | _, _, _ => .error (.shape "posting")
  | _ => .error (.shape "posting")

def decPostings : List JVal → Except DecodeErr (List Posting)
  | [] => .ok []
  | x :: r => match decPosting x with
    | .error e => .error e
    | .ok p => match decPostings r with
      | .error e => .error e
      | .ok ps => .ok (p :: ps)

def decVolumes : JVal → Except DecodeErr Volumes
  | .obj kvs =>
    match fieldOr kvs b!"input", fieldOr kvs b!"output" with
    | .num i, .num o => .ok { input := i, output := o }
    | _, _ => .error (.shape "volumes")
  | _ => .error (.shape "volumes")

def decVolumesKvs : List (Bytes × JVal) → Except DecodeErr (List (Bytes × Volumes))
  | [] => .ok []
  | (k, v) :: r => match decVolumes v with
    | .error e => .error e
    | .ok s => match decVolumesKvs r with
      | .error e => .error e
      | .ok m => .ok ((k, s) :: m)

def decVolumesByAssets : JVal → Except DecodeErr VolumesByAssets
  | .obj kvs => match decVolumesKvs kvs with
    | .error e => .error e
    | .ok m => .ok (buildMap [] m)
  | _ => .error (.shape "volumesByAssets")

def decPcvKvs : List (Bytes × JVal) → Except DecodeErr (List (Bytes × VolumesByAssets))
  | [] => .ok []
  | (k, v) :: r => match decVolumesByAssets v with
    | .error e => .error e
    | .ok s => match decPcvKvs r with
      | .error e => .error e
      | .ok m => .ok ((k, s) :: m)

def decPcv : Option JVal → Except DecodeErr PostCommitVolumes
  | none => .ok none
  | some .null => .ok none
  | some (.obj kvs) => match decPcvKvs kvs with
    | .error e => .error e
    | .ok m => .ok (some (buildMap [] m))
  | some _ => .error (.shape "postCommitVolumes")

def decOptTime : Option JVal → Except DecodeErr (Option Date)
  | none => .ok none
  | some .null => .ok none
  | some v => match decTime v with
    | .ok d => .ok (some d)
    | .error e => .error e

def decPostingsOpt : JVal → Except DecodeErr (Option (List Posting))
  | .null => .ok none
  | .arr xs => (match decPostings xs with | .ok ps => .ok (some ps) | .error e => .error e)
  | _ => .error (.shape "postings")

def decTransaction : JVal → Except DecodeErr Transaction
  | .obj kvs =>
    match decPostingsOpt (fieldOr kvs b!"postings"), decMetadata (fieldOr kvs b!"metadata"), decTime (fieldOr kvs b!"timestamp"),
          decStr (fieldOr kvs b!"reference"), decUint64 (fieldOr kvs b!"id") with
    | .ok ps, .ok md, .ok ts, .ok ref, .ok id =>
      match decTime (fieldOr kvs b!"insertedAt"), decTime (fieldOr kvs b!"updatedAt"),
            decOptTime (jlookup b!"revertedAt" kvs), decPcv (jlookup b!"postCommitVolumes" kvs),
            decPcv (jlookup b!"postCommitEffectiveVolumes" kvs), decStr (fieldOr kvs b!"template") with
      | .ok ia, .ok ua, .ok ra, .ok pcv, .ok pcev, .ok tpl =>
        .ok { postings := ps, metadata := md, timestamp := ts, reference := ref, id := id, insertedAt := ia,
              updatedAt := ua, revertedAt := ra, postCommitVolumes := pcv, postCommitEffectiveVolumes := pcev,
              template := tpl }
      | _, _, _, _, _, _ => .error (.shape "transaction")
    | _, _, _, _, _ => .error (.shape "transaction")
  | _ => .error (.shape "transaction")

def asciiUpper (s : Bytes) : Bytes := s.map fun c => if 0x61 ≤ c && c ≤ 0x7a then c - 0x20 else c

/-- the `switch strings.ToUpper(x.TargetType)` of `SavedMetadata` / `DeletedMetadata`
    (ASCII target types only) -/
def decTarget (tt : Bytes) (v : JVal) : Except DecodeErr TargetId :=
  if asciiUpper tt = b!"ACCOUNT" then
    match v with
    | .str s => .ok (.account s)
    | .num _ => .error .floatTarget
    | _ => .error (.shape "targetId")
  else if asciiUpper tt = b!"TRANSACTION" then
    match v with
    | .num i => if 0 ≤ i ∧ i < 18446744073709551616 then .ok (.transaction i.toNat) else .error .range
    | _ => .error (.shape "targetId")
  else .error .unknownTargetType

/-- `HydrateLog(type, data)` -/
def decodePayload (ty : LogType) (j : JVal) : Except DecodeErr Payload :=
  match j with
  | .obj kvs =>
    match ty with
    | .newTransaction =>
      match decTransaction (fieldOr kvs b!"transaction"), decAccountMetadata (fieldOr kvs b!"accountMetadata") with
      | .ok tx, .ok am => .ok (.createdTransaction tx am)
      | .error e, _ => .error e
      | _, .error e => .error e
    | .revertedTransaction =>
      match decTransaction (fieldOr kvs b!"revertedTransaction"), decTransaction (fieldOr kvs b!"transaction") with
      | .ok a, .ok b => .ok (.revertedTransaction a b)
      | .error e, _ => .error e
      | _, .error e => .error e
    | .setMetadata =>
      match decStr (fieldOr kvs b!"targetType"), decMetadata (fieldOr kvs b!"metadata") with
      | .ok tt, .ok md => (match decTarget tt (fieldOr kvs b!"targetId") with
        | .ok tid => .ok (.savedMetadata tt tid md)
        | .error e => .error e)
      | .error e, _ => .error e
      | _, .error e => .error e
    | .deleteMetadata =>
      match decStr (fieldOr kvs b!"targetType"), decStr (fieldOr kvs b!"key") with
      | .ok tt, .ok key => (match decTarget tt (fieldOr kvs b!"targetId") with
        | .ok tid => .ok (.deletedMetadata tt tid key)
        | .error e => .error e)
      | .error e, _ => .error e
      | _, .error e => .error e
    | .insertedSchema =>
      match fieldOr kvs b!"schema" with
      | .raw b => .ok (.insertedSchema b)
      | _ => .error (.shape "schema")
  | _ => .error (.shape "payload")

end Ledger.Log
