import Ledger.Log.PgEval

/-!
`SafeChars`: the explicit, decidable condition under which the SQL and the Go
digest preimages are proved equal (C10 `hash_preimages_agree_safe`), and the
classification of the inputs outside it (the `sig` of the `gohash` workload).
Core-only.
-/
namespace Ledger.Log

/-- Text that `encoding/json` prints verbatim between quotes AND that PostgreSQL
    accepts as `text` and leaves unchanged through `::bytea`: well-formed UTF-8 whose
    ASCII characters are printable (0x20..0x7f) other than `"`, `\`, `<`, `>`, `&`
    and which contains neither U+2028 nor U+2029.  (Non-ASCII characters ARE safe.) -/
def safeTextAux : Nat → Bytes → Bool
  | 0, [] => true
  | _ + 1, [] => false
  | n + 1, b :: t => isCont b && safeTextAux n t
  | 0, b0 :: t =>
    if b0 < 0x80 then htmlSafe b0 && safeTextAux 0 t
    else contCount b0 t != 0 && (lineSep b0 t).isNone && safeTextAux (contCount b0 t) t

def safeText (s : Bytes) : Bool := safeTextAux 0 s

/-- UTC, whole microseconds, year 1..9999, and not the zero `time.Time` when the
    column is `nullzero` (then PostgreSQL's `transaction_date()` default applies). -/
def safeDate (nullZero : Bool) (d : Date) : Bool :=
  d.zone = 0 && d.nano % 1000 = 0 && 1 ≤ d.year && d.year ≤ 9999 && !(nullZero && isZeroDate d)

/-- The hypothesis of C10 `hash_preimages_agree_safe`:
    * idempotency key: `safeText`;
    * schema version: empty (the final `set_log_hash` never reads `schema_version`);
    * date: `safeDate`;
    * `Log.Hash` not yet set (the SQL writes the constant `"hash":null`);
    * previous hash shorter than 57 bytes (PostgreSQL breaks base64 lines at 76
      characters; a SHA-256 hash has 32 bytes).
    No condition at all on the payload (memento). -/
def SafeChars (dateNullZero : Bool) (log : Log) (prev : PrevHash) : Bool :=
  safeText log.idempotencyKey && log.schemaVersion = [] && safeDate dateNullZero log.date &&
  log.hash = none && (match prev with | none => true | some h => h.length < 57)

/-! ### classification of unsafe inputs (driver only) -/

/-- class of the first character of `s` that makes it unsafe -/
def textClassAux : Nat → Bytes → Option String
  | 0, [] => none
  | _ + 1, [] => some "invalid-utf8"
  | n + 1, b :: t => if isCont b then textClassAux n t else some "invalid-utf8"
  | 0, b0 :: t =>
    if b0 < 0x80 then
      if htmlSafe b0 then textClassAux 0 t
      else if b0 = 0x22 then some "quote"
      else if b0 = 0x5c then some "backslash"
      else if b0 = 0x3c || b0 = 0x3e || b0 = 0x26 then some "html"
      else if b0 = 0 then some "nul"
      else some "control"
    else if contCount b0 t = 0 then some "invalid-utf8"
    else if (lineSep b0 t).isSome then some "linesep"
    else textClassAux (contCount b0 t) t

def textClass (s : Bytes) : Option String := textClassAux 0 s

/-- Which part of `SafeChars` fails first (fixed order), as a stable signature. -/
def unsafeClass (dateNullZero : Bool) (log : Log) (prev : PrevHash) : Option String :=
  match textClass log.idempotencyKey with
  | some c => some ("ik-" ++ c)
  | none =>
    if log.schemaVersion ≠ [] then some "schema-version"
    else if log.date.zone ≠ 0 then some "date-zone"
    else if log.date.nano % 1000 ≠ 0 then some "date-submicro"
    else if log.date.year = 0 || 9999 < log.date.year then some "date-year"
    else if dateNullZero && isZeroDate log.date then some "date-zero"
    else if log.hash ≠ none then some "hash-preset"
    else match prev with
      | some h => if 57 ≤ h.length then some "prev-long" else none
      | none => none

end Ledger.Log
