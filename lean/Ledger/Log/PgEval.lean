import Ledger.Log.Model

/-!
Meaning of the PL/pgSQL fragment of `Ledger/Log/PlAst.lean` — the part of
PostgreSQL that `set_log_hash()` / `compute_hash()` exercise.  This evaluator is
TRUSTED (there is no PostgreSQL in the sandbox to validate it against); every rule
cites the PostgreSQL 15 documentation (or, where the documentation is silent, the
source file).  `public.digest(x, 'sha256')` is kept SYMBOLIC (`PgVal.digest x`):
theorems are about the preimage `x`, never about SHA-256.

How a Go `Log` becomes the row the trigger sees (`rowOfLog`) models
`internal/storage/ledger/logs.go: InsertLog` + the `bun` tags of `ledger.Log`.
Core-only, structurally recursive (kernel-evaluable on concrete inputs).
-/
namespace Ledger.Log

/-! ### values -/

/-- `timestamp without time zone`, microsecond resolution (docs 8.5, table 8.9), AD only -/
structure PgTimestamp where
  year : Nat
  month : Nat
  day : Nat
  hour : Nat
  minute : Nat
  second : Nat
  micro : Nat
  deriving DecidableEq, Repr, Inhabited

inductive PgVal
  | null
  /-- an untyped string constant (docs 4.1.2.7 / 10.1: type `unknown` until resolved) -/
  | unknown (b : Bytes)
  /-- `text` / `varchar` -/
  | text (b : Bytes)
  | bytea (b : Bytes)
  /-- a value of an enum type (`log_type`), by label -/
  | enumv (label : Bytes)
  | num (n : Int)
  | timestamp (t : PgTimestamp)
  | json (b : Bytes)
  /-- the `bytea` returned by `public.digest(pre, 'sha256')`, kept symbolic -/
  | digest (pre : Bytes)
  deriving DecidableEq, Repr, Inhabited

/-- The columns of `logs` that matter (final schema after all migrations). -/
structure Row where
  ledger : PgVal
  id : PgVal
  type : PgVal
  memento : PgVal
  date : PgVal
  idempotencyKey : PgVal
  schemaVersion : PgVal
  hash : PgVal
  deriving DecidableEq, Repr, Inhabited

def Row.get (r : Row) (col : String) : Option PgVal :=
  if col = "ledger" then some r.ledger
  else if col = "id" then some r.id
  else if col = "type" then some r.type
  else if col = "memento" then some r.memento
  else if col = "date" then some r.date
  else if col = "idempotency_key" then some r.idempotencyKey
  else if col = "schema_version" then some r.schemaVersion
  else if col = "hash" then some r.hash
  else none

def Row.set (r : Row) (col : String) (v : PgVal) : Option Row :=
  if col = "hash" then some { r with hash := v } else none

abbrev Table := List Row

/-! ### `bytea` input / `encode` -/

/-- `encode(data, 'escape')`, docs 9.5 (table 9.13, "escape"): "converts zero bytes
    and bytes with the high bit set into octal escape sequences (\nnn), and it
    doubles backslashes. Other byte values are represented literally." -/
def escEncodeByte (c : UInt8) : Bytes :=
  if c = 0 || 0x80 ≤ c then [0x5c, (0x30 : UInt8) + (c >>> 6), (0x30 : UInt8) + ((c >>> 3) &&& 7), (0x30 : UInt8) + (c &&& 7)]
  else if c = 0x5c then [0x5c, 0x5c]
  else [c]

def escEncode : Bytes → Bytes
  | [] => []
  | c :: t => escEncodeByte c ++ escEncode t

/-- state of the `bytea` escape-format scanner -/
inductive BSt
  | normal
  | bs                      -- after `\`
  | o1 (d1 : UInt8)         -- after `\d`
  | o2 (d1 d2 : UInt8)      -- after `\dd`
  deriving DecidableEq, Repr

def isOct (b : UInt8) : Bool := 0x30 ≤ b && b ≤ 0x37

/-- `bytea` escape input format, docs 8.4.2: a backslash must be followed by
    another backslash (→ one `\`) or by three octal digits `\ooo` with value
    0–255, i.e. first digit 0–3 (→ that byte); anything else is
    `invalid input syntax for type bytea` (src/backend/utils/adt/varlena.c:byteain). -/
def byteaInAux : BSt → Bytes → Except HashErr Bytes
  | .normal, [] => .ok []
  | _, [] => .error .invalidByteaInput
  | .normal, b :: t =>
    if b = 0x5c then byteaInAux .bs t
    else match byteaInAux .normal t with
      | .ok r => .ok (b :: r)
      | .error e => .error e
  | .bs, b :: t =>
    if b = 0x5c then
      match byteaInAux .normal t with
      | .ok r => .ok (0x5c :: r)
      | .error e => .error e
    else if 0x30 ≤ b && b ≤ 0x33 then byteaInAux (.o1 b) t
    else .error .invalidByteaInput
  | .o1 d1, b :: t => if isOct b then byteaInAux (.o2 d1 b) t else .error .invalidByteaInput
  | .o2 d1 d2, b :: t =>
    if isOct b then
      match byteaInAux .normal t with
      | .ok r => .ok ((((d1 - 0x30) <<< 6) + ((d2 - 0x30) <<< 3) + (b - 0x30)) :: r)
      | .error e => .error e
    else .error .invalidByteaInput

/-- `byteain`: docs 8.4 — input starting with `\x` is the hex format (not produced
    by the modelled functions: reported as unsupported), otherwise escape format. -/
def byteaIn (s : Bytes) : Except HashErr Bytes :=
  match s with
  | a :: b :: _ => if a = 0x5c && b = 0x78 then .error (.unsupported "bytea hex input") else byteaInAux .normal s
  | _ => byteaInAux .normal s

/-- `encode(data, 'base64')`, docs 9.5: "The base64 format is that of RFC 2045
    Section 6.8. As per the RFC, encoded lines are broken at 76 characters.
    However instead of the MIME CRLF end-of-line marker, only a newline is used".
    src/backend/utils/adt/encode.c:pg_base64_encode emits the newline as soon as 76
    characters (57 input bytes) have been written, also at the very end. -/
def pgBase64Aux : Nat → Bytes → Bytes
  | 0, b => base64 b
  | f + 1, b => if b.length < 57 then base64 b else base64 (b.take 57) ++ 0x0a :: pgBase64Aux f (b.drop 57)

def pgBase64 (b : Bytes) : Bytes := pgBase64Aux (b.length / 57 + 1) b

def hexEncode : Bytes → Bytes
  | [] => []
  | c :: t => hexLower (c >>> 4) :: hexLower (c &&& 0xf) :: hexEncode t

/-! ### text validity -/

/-- A `text` value in a UTF8 database: docs 8.3 / 4.1.2.2 "The character with the
    code zero cannot be in a string constant", docs 24.3 (character set support):
    invalid byte sequences are rejected (`invalid byte sequence for encoding "UTF8"`).
    Well-formedness per `pg_utf8_islegal` (src/common/wchar.c) = the Unicode table
    3-7 ranges, the same ranges as Go's `utf8` (`contCount`). -/
def pgTextAux : Nat → Bytes → Bool
  | 0, [] => true
  | _ + 1, [] => false
  | n + 1, b :: t => isCont b && pgTextAux n t
  | 0, b0 :: t =>
    if b0 < 0x80 then b0 != 0 && pgTextAux 0 t
    else contCount b0 t != 0 && pgTextAux (contCount b0 t) t

def pgTextOk (s : Bytes) : Bool := pgTextAux 0 s

/-! ### timestamps -/

def isLeap (y : Nat) : Bool := (y % 4 = 0 && y % 100 != 0) || y % 400 = 0

def daysInMonth (y m : Nat) : Nat :=
  if m = 2 then (if isLeap y then 29 else 28)
  else if m = 4 || m = 6 || m = 9 || m = 11 then 30 else 31

/-- civil time + 1 s -/
def PgTimestamp.addSecond (t : PgTimestamp) : PgTimestamp :=
  if t.second + 1 < 60 then { t with second := t.second + 1 }
  else if t.minute + 1 < 60 then { t with second := 0, minute := t.minute + 1 }
  else if t.hour + 1 < 24 then { t with second := 0, minute := 0, hour := t.hour + 1 }
  else if t.day + 1 ≤ daysInMonth t.year t.month then { t with second := 0, minute := 0, hour := 0, day := t.day + 1 }
  else if t.month + 1 ≤ 12 then { t with second := 0, minute := 0, hour := 0, day := 1, month := t.month + 1 }
  else { t with second := 0, minute := 0, hour := 0, day := 1, month := 1, year := t.year + 1 }

/-- What the `timestamp` column `logs.date` holds after `InsertLog` sent the string
    `Log.Date.Format(RFC3339Nano)` (go-libs `time.Time.Value`).
    docs 8.5.1.3: "In a literal that has been determined to be timestamp without time
    zone, PostgreSQL will silently ignore any time zone indication. That is, the
    resulting value is derived from the date/time fields in the input value, and is not
    adjusted for time zone."  docs 8.5 table 8.9: resolution 1 microsecond; the
    fraction is rounded to it (datetime.c:ParseFractionalSecond, `rint(frac * 1000000)`:
    ties depend on the binary double and are modelled as round-half-even).
    Years outside 1..9999 are outside the modelled fragment. -/
def timestampIn (d : Date) : Except HashErr PgTimestamp :=
  if d.year = 0 || 9999 < d.year then .error (.unsupported "timestamp year outside 1..9999") else
  let q := d.nano / 1000
  let r := d.nano % 1000
  let up := if r < 500 then false else if 500 < r then true else q % 2 = 1
  let base : PgTimestamp := { year := d.year, month := d.month, day := d.day, hour := d.hour,
                              minute := d.minute, second := d.second, micro := 0 }
  if up then
    (if q + 1 = 1000000 then .ok base.addSecond else .ok { base with micro := q + 1 })
  else .ok { base with micro := q }

/-- `to_json(timestamp)`, docs 9.16 table 9.47 (`to_json`: "…converted to…a JSON
    string") — src/backend/utils/adt/json.c:JsonEncodeDateTime formats with
    `EncodeDateTime(…, USE_XSD_DATES)`: ISO 8601 `YYYY-MM-DDTHH:MM:SS[.ffffff]`,
    fractional digits without trailing zeros (`AppendTimestampSeconds`). -/
def pgTimestampIso (t : PgTimestamp) : Bytes :=
  civilBytes t.year t.month t.day t.hour t.minute t.second ++ fracBytes (digits6 t.micro)

/-! ### operators, casts, functions -/

def textual : PgVal → Option Bytes
  | .unknown b => some b
  | .text b => some b
  | .enumv b => some b
  | _ => none

/-- `a || b`.  docs 9.4 (`text || text`, `text || anynonarray`, `anynonarray || text`:
    "Converts the non-string input to text, then concatenates"; an enum converts to
    its label), docs 9.5 (`bytea || bytea`), docs 10.2 (operator resolution: an
    `unknown` literal next to `bytea` is read as `bytea` — through `byteain` —,
    two `unknown`s as `text`).  All these operators are strict: NULL if an argument
    is NULL.  Mixing `text` and `bytea` (which PostgreSQL would accept through
    `text || anynonarray`, printing the bytea in hex) is outside the fragment. -/
def concatVals : PgVal → PgVal → Except HashErr PgVal
  | .null, _ => .ok .null
  | _, .null => .ok .null
  | .bytea a, .bytea b => .ok (.bytea (a ++ b))
  | .bytea a, .unknown b => match byteaIn b with
    | .ok b' => .ok (.bytea (a ++ b'))
    | .error e => .error e
  | .unknown a, .bytea b => match byteaIn a with
    | .ok a' => .ok (.bytea (a' ++ b))
    | .error e => .error e
  | x, y => match textual x, textual y with
    | some a, some b => .ok (.text (a ++ b))
    | _, _ => .error (.unsupported "operands of ||")

/-- `e::ty`.  docs CREATE CAST (notes): "automatic I/O conversion casts … to string
    types are treated as assignment casts, while … from string types are
    explicit-only": `text::bytea` runs `byteain` on the characters of the string. -/
def castVal (v : PgVal) (ty : SqlTy) : Except HashErr PgVal :=
  match v, ty with
  | .null, _ => .ok .null
  | .unknown b, .bytea => match byteaIn b with | .ok r => .ok (.bytea r) | .error e => .error e
  | .text b, .bytea => match byteaIn b with | .ok r => .ok (.bytea r) | .error e => .error e
  | .bytea b, .bytea => .ok (.bytea b)
  | .unknown b, .text => .ok (.text b)
  | .text b, .text => .ok (.text b)
  | .enumv b, .text => .ok (.text b)
  | .unknown b, .varchar => .ok (.text b)
  | .text b, .varchar => .ok (.text b)
  | .enumv b, .varchar => .ok (.text b)
  | .timestamp t, .timestamp => .ok (.timestamp t)
  | _, _ => .error (.unsupported "cast")

/-- body of a JSON string without escapes: `"…"` → `…` -/
def jsonPlainString : Bytes → Option Bytes
  | 0x22 :: rest =>
    match rest.reverse with
    | 0x22 :: body => if body.all (fun c => c != 0x22 && c != 0x5c) then some body.reverse else none
    | _ => none
  | _ => none

def call1Val (f : PlFn) (a : PgVal) : Except HashErr PgVal :=
  match f, a with
  | .toJson, .null => .ok .null
  | .toJson, .timestamp t => .ok (.json (0x22 :: (pgTimestampIso t ++ [0x22])))
  | _, _ => .error (.unsupported "function call")

def call2Val (f : PlFn) (a b : PgVal) : Except HashErr PgVal :=
  match f with
  | .encode =>
    -- docs 9.5 `encode(bytes bytea, format text) → text`; strict
    match a, textual b with
    | .null, _ => .ok .null
    | .bytea x, some fmt =>
      if fmt = b!"escape" then .ok (.text (escEncode x))
      else if fmt = b!"base64" then .ok (.text (pgBase64 x))
      else if fmt = b!"hex" then .ok (.text (hexEncode x))
      else .error (.unsupported "encode format")
    | _, _ => .error (.unsupported "encode arguments")
  | .coalesce =>
    -- docs 9.18.2: "returns the first of its arguments that is not null"
    match a with
    | .null => (match b with | .unknown x => .ok (.text x) | v => .ok v)
    | .unknown x => .ok (.text x)
    | v => .ok v
  | .digest =>
    -- pgcrypto, docs F.28.1: digest(data bytea|text, type text) returns bytea; strict
    match textual b with
    | some alg =>
      if alg = b!"sha256" then
        match a with
        | .null => .ok .null
        | .bytea x => .ok (.digest x)
        | .text x => .ok (.digest x)
        | _ => .error (.unsupported "digest data")
      else .error (.unsupported "digest algorithm")
    | none => .error (.unsupported "digest algorithm")
  | .convertTo =>
    -- docs 9.5 `convert_to(string text, dest_encoding name) → bytea`; UTF8 database
    match a, textual b with
    | .null, _ => .ok .null
    | .text x, some enc => if enc = b!"UTF8" || enc = b!"utf8" then .ok (.bytea x) else .error (.unsupported "convert_to encoding")
    | .unknown x, some enc => if enc = b!"UTF8" || enc = b!"utf8" then .ok (.bytea x) else .error (.unsupported "convert_to encoding")
    | _, _ => .error (.unsupported "convert_to arguments")
  | _ => .error (.unsupported "function call")

/-! ### expressions -/

structure Env where
  vars : List (String × PgVal)
  /-- name of the record variable (`new` in the trigger, `r` in compute_hash) -/
  recName : String
  row : Row
  deriving Repr

def lookupVar : List (String × PgVal) → String → Option PgVal
  | [], _ => none
  | (k, v) :: r, n => if k = n then some v else lookupVar r n

def setVar : List (String × PgVal) → String → PgVal → Option (List (String × PgVal))
  | [], _, _ => none
  | (k, v) :: r, n, x => if k = n then some ((k, x) :: r) else
    match setVar r n x with
    | some r' => some ((k, v) :: r')
    | none => none

/-- `cb prev row`: how a call `compute_hash(prev, <record>)` is answered -/
def evalExpr (cb : PgVal → Row → Except HashErr PgVal) (env : Env) : PlExpr → Except HashErr PgVal
  | .lit b => .ok (.unknown b)
  | .var n => match lookupVar env.vars n with
    | some v => .ok v
    | none => .error (.unsupported ("variable " ++ n))
  | .field r c =>
    if r = env.recName then
      match env.row.get c with
      | some v => .ok v
      | none => .error (.unsupported ("column " ++ c))
    else .error (.unsupported ("record " ++ r))
  | .concat a b => match evalExpr cb env a with
    | .error e => .error e
    | .ok x => match evalExpr cb env b with
      | .error e => .error e
      | .ok y => concatVals x y
  | .jsonPathText a p => match evalExpr cb env a with
    | .error e => .error e
    | .ok x => match evalExpr cb env p with
      | .error e => .error e
      | .ok y =>
        -- docs 9.16 table 9.45 `json #>> text[] → text`: "Extracts JSON sub-object at the
        -- specified path as text"; the empty path `'{}'` is the value itself, a JSON
        -- string yields its (unescaped) content
        match x, textual y with
        | .null, _ => .ok .null
        | .json j, some path =>
          if path = b!"{}" then
            match jsonPlainString j with
            | some body => .ok (.text body)
            | none => .error (.unsupported "#>> on a non-plain JSON string")
          else .error (.unsupported "#>> path")
        | _, _ => .error (.unsupported "#>> operands")
  | .cast e ty => match evalExpr cb env e with
    | .error e => .error e
    | .ok v => castVal v ty
  | .call1 f a => match evalExpr cb env a with
    | .error e => .error e
    | .ok x => call1Val f x
  | .call2 f a b =>
    match f, b with
    | .computeHash, .var r =>
      if r = env.recName then
        match evalExpr cb env a with
        | .error e => .error e
        | .ok x => cb x env.row
      else .error (.unsupported "compute_hash record argument")
    | .computeHash, _ => .error (.unsupported "compute_hash record argument")
    | _, _ => match evalExpr cb env a with
      | .error e => .error e
      | .ok x => match evalExpr cb env b with
        | .error e => .error e
        | .ok y => call2Val f x y
  | .caseNull s whenNull t e => match evalExpr cb env s with
    -- docs 9.18.1: only the selected branch is evaluated
    | .error er => .error er
    | .ok v => if (v = .null) = whenNull then evalExpr cb env t else evalExpr cb env e
  | .subselect e => evalExpr cb env e   -- scalar sub-select without FROM: the value

/-! ### statements -/

/-- `select col into var from logs where wcol = new.rcol order by ocol desc limit 1`.
    docs 43.5.3: "If the query returns zero rows, null values are assigned to the
    target(s)".  Rows are compared on a numeric order column. -/
def pickLast (desc : Bool) (ocol : String) : Table → Option Row → Except HashErr (Option Row)
  | [], best => .ok best
  | r :: rest, none => pickLast desc ocol rest (some r)
  | r :: rest, some b =>
    match r.get ocol, b.get ocol with
    | some (.num x), some (.num y) =>
      if (if desc then y < x else x < y) then pickLast desc ocol rest (some r) else pickLast desc ocol rest (some b)
    | _, _ => .error (.unsupported "order by column")

/-- the query, as a function of the record name and of the key `record.recordCol` only -/
def selectLastKey (q : LastRowQuery) (tbl : Table) (recName : String) (key : Option PgVal) : Except HashErr PgVal :=
  if q.table != "logs" || q.limit != 1 || q.record != recName then .error (.unsupported "select … from") else
  match key with
  | none => .error (.unsupported "where column")
  | some key =>
    match pickLast q.desc q.orderCol (tbl.filter fun r => r.get q.whereCol = some key) none with
    | .error e => .error e
    | .ok none => .ok .null
    | .ok (some r) => match r.get q.col with
      | some v => .ok v
      | none => .error (.unsupported "select column")

def selectLast (q : LastRowQuery) (tbl : Table) (env : Env) : Except HashErr PgVal :=
  selectLastKey q tbl env.recName (env.row.get q.recordCol)

/-- assignment to a declared variable: the value is converted to the variable's type
    (docs 43.5.1: assignment cast); only the identity conversions that occur -/
def coerceAssign (ty : SqlTy) (v : PgVal) : Except HashErr PgVal :=
  match ty, v with
  | _, .null => .ok .null
  | .bytea, .bytea b => .ok (.bytea b)
  | .bytea, .digest p => .ok (.digest p)
  | .varchar, .text b => .ok (.text b)
  | .varchar, .unknown b => .ok (.text b)
  | .text, .text b => .ok (.text b)
  | .text, .unknown b => .ok (.text b)
  | _, _ => .error (.unsupported "assignment conversion")

def lookupDecl : List (String × SqlTy) → String → Option SqlTy
  | [], _ => none
  | (k, t) :: r, n => if k = n then some t else lookupDecl r n

inductive Ret
  | record (r : Row)
  | value (v : PgVal)
  deriving Repr

def assignTo (decls : List (String × SqlTy)) (env : Env) (name : String) (v : PgVal) : Except HashErr Env :=
  match lookupDecl decls name with
  | none => .error (.unsupported ("undeclared variable " ++ name))
  | some ty => match coerceAssign ty v with
    | .error e => .error e
    | .ok v' => match setVar env.vars name v' with
      | some vs => .ok { env with vars := vs }
      | none => .error (.unsupported ("variable " ++ name))

def execStmts (cb : PgVal → Row → Except HashErr PgVal) (decls : List (String × SqlTy)) (tbl : Table) :
    List PlStmt → Env → Except HashErr Ret
  | [], _ => .error (.unsupported "control reached end of function without RETURN")
  | s :: rest, env =>
    let guardOk : Except HashErr Bool :=
      match s.guard with
      | none => .ok true
      | some (g, whenNull) => match evalExpr cb env g with
        | .error e => .error e
        | .ok v => .ok ((v = .null) = whenNull)
    match guardOk with
    | .error e => .error e
    | .ok false => execStmts cb decls tbl rest env
    | .ok true =>
      match s.stmt with
      | .returnRecord r => if r = env.recName then .ok (.record env.row) else .error (.unsupported "return record")
      | .returnExpr e => match evalExpr cb env e with
        | .error er => .error er
        | .ok v => .ok (.value v)
      | .selectLast q => match selectLast q tbl env with
        | .error e => .error e
        | .ok v => match assignTo decls env q.var v with
          | .error e => .error e
          | .ok env' => execStmts cb decls tbl rest env'
      | .selectInto e var => match evalExpr cb env e with
        | .error er => .error er
        | .ok v => match assignTo decls env var v with
          | .error e => .error e
          | .ok env' => execStmts cb decls tbl rest env'
      | .assignVar var e => match evalExpr cb env e with
        | .error er => .error er
        | .ok v => match assignTo decls env var v with
          | .error e => .error e
          | .ok env' => execStmts cb decls tbl rest env'
      | .assignField r c e =>
        if r = env.recName then
          match evalExpr cb env e with
          | .error er => .error er
          | .ok v => match env.row.set c v with
            | some row' => execStmts cb decls tbl rest { env with row := row' }
            | none => .error (.unsupported ("assignment to column " ++ c))
        else .error (.unsupported "assignment to record")

def noNestedCall : PgVal → Row → Except HashErr PgVal := fun _ _ => .error (.unsupported "nested function call")

/-- declared variables start as NULL (docs 43.3) -/
def initVars (decls : List (String × SqlTy)) : List (String × PgVal) := decls.map fun (n, _) => (n, .null)

/-- `compute_hash(previous_hash bytea, r logs)` as defined by `fn` -/
def callComputeHash (fn : Option PlFunc) (prev : PgVal) (row : Row) : Except HashErr PgVal :=
  match fn with
  | none => .error (.unsupported "compute_hash is not defined")
  | some f =>
    match f.params with
    | [(p, pty), (r, rty)] =>
      if pty = "bytea" && rty = "logs" then
        match execStmts noNestedCall ((p, .bytea) :: f.decls) []
                f.body { vars := (p, prev) :: initVars f.decls, recName := r, row := row } with
        | .error e => .error e
        | .ok (.value v) => .ok v
        | .ok (.record _) => .error (.unsupported "compute_hash returns a record")
      else .error (.unsupported "compute_hash parameters")
    | _ => .error (.unsupported "compute_hash parameters")

/-- Run the BEFORE INSERT row trigger `trig` on `row` against the table `tbl`;
    docs 43.10.1: a BEFORE row trigger returns the (possibly modified) NEW row,
    which is what gets inserted. -/
def runTrigger (trig : PlFunc) (computeHash : Option PlFunc) (tbl : Table) (row : Row) : Except HashErr Row :=
  match trig.params with
  | [] =>
    match execStmts (callComputeHash computeHash) trig.decls tbl trig.body
            { vars := initVars trig.decls, recName := "new", row := row } with
    | .error e => .error e
    | .ok (.record r) => .ok r
    | .ok (.value _) => .error (.unsupported "trigger returns a value")
  | _ => .error (.unsupported "trigger function with parameters")

/-! ### from a Go `Log` to the inserted row (`InsertLog` + bun tags) -/

def isZeroDate (d : Date) : Bool :=
  d.year = 1 && d.month = 1 && d.day = 1 && d.hour = 0 && d.minute = 0 && d.second = 0 && d.nano = 0 && d.zone = 0

/-- a Go string sent as a `text`/`varchar` parameter; `nullzero`: `""` → NULL -/
def textParam (column : String) (nullzero : Bool) (s : Bytes) : Except HashErr PgVal :=
  if nullzero && s = [] then .ok .null
  else if pgTextOk s then .ok (.text s) else .error (.invalidText column)

structure BunTags where
  idempotencyKeyNullZero : Bool
  schemaVersionNullZero : Bool
  dateNullZero : Bool

/-- The row `InsertLog` sends for `log` (before the trigger): `memento` =
    `json.Marshal(memento)`; `type` = `LogType.Value()`; `date` = the RFC3339Nano
    string read by `timestamp_in` (a zero date would be `DEFAULT`, i.e.
    `transaction_date()`, which is outside this model); `hash` = `Log.Hash`. -/
def rowOfLog (tags : BunTags) (ledger : Bytes) (id : Nat) (log : Log) : Except HashErr Row :=
  match mementoBytes log.payload with
  | .error e => .error e
  | .ok m =>
    if tags.dateNullZero && isZeroDate log.date then .error (.unsupported "date DEFAULT transaction_date()") else
    match timestampIn log.date with
    | .error e => .error e
    | .ok ts =>
      match textParam "idempotency_key" tags.idempotencyKeyNullZero log.idempotencyKey with
      | .error e => .error e
      | .ok ik =>
        match textParam "schema_version" tags.schemaVersionNullZero log.schemaVersion with
        | .error e => .error e
        | .ok sv =>
          .ok { ledger := .text ledger, id := .num id, type := .enumv log.payload.type.label,
                memento := .bytea m, date := .timestamp ts, idempotencyKey := ik, schemaVersion := sv,
                hash := match log.hash with | none => .null | some h => .bytea h }

end Ledger.Log
