import Ledger.Log.PayloadJson

/-!
`canonicalPayload`: the explicit, decidable condition under which
`decodePayload (encodePayload p) = p` is proved (C08 payload part) — i.e. the
payloads that `HydrateLog` itself produces (fixed points of the lossy leaves):
well-formed UTF-8 strings, map entries listed in strictly increasing key order
(the model's canonical presentation of a Go map), times that `ParseTime` leaves
unchanged (UTC, whole microseconds), ids within `uint64`, no EMPTY (non-nil)
post-commit volume map (`omitempty` turns it into nil), and a target id whose
dynamic type matches the target type.  Core-only.
-/
namespace Ledger.Log

def keysAbove {α : Type} (k : Bytes) : List (Bytes × α) → Bool
  | [] => true
  | (a, _) :: r => bytesLt k a && keysAbove k r

/-- keys strictly increasing (each key below all later ones) -/
def strictKeys {α : Type} : List (Bytes × α) → Bool
  | [] => true
  | (k, _) :: r => keysAbove k r && strictKeys r

def canonDate (d : Date) : Bool := normTime d = d

def canonMetaEntries : List (Bytes × Bytes) → Bool
  | [] => true
  | (k, v) :: r => validUtf8 k && validUtf8 v && canonMetaEntries r

def canonMetadata : Metadata → Bool
  | none => true
  | some m => strictKeys m && canonMetaEntries m

def canonAcctEntries : List (Bytes × Metadata) → Bool
  | [] => true
  | (k, v) :: r => validUtf8 k && canonMetadata v && canonAcctEntries r

def canonAccountMetadata : AccountMetadata → Bool
  | none => true
  | some m => strictKeys m && canonAcctEntries m

def canonVolEntries : List (Bytes × Volumes) → Bool
  | [] => true
  | (k, _) :: r => validUtf8 k && canonVolEntries r

def canonVolumesByAssets (m : VolumesByAssets) : Bool := strictKeys m && canonVolEntries m

def canonPcvEntries : List (Bytes × VolumesByAssets) → Bool
  | [] => true
  | (k, v) :: r => validUtf8 k && canonVolumesByAssets v && canonPcvEntries r

def canonPcv : PostCommitVolumes → Bool
  | none => true
  | some [] => false
  | some m => strictKeys m && canonPcvEntries m

def canonPosting (p : Posting) : Bool := validUtf8 p.source && validUtf8 p.destination && validUtf8 p.asset

def canonPostings : List Posting → Bool
  | [] => true
  | p :: r => canonPosting p && canonPostings r

def canonTransaction (tx : Transaction) : Bool :=
  (match tx.postings with | none => true | some ps => canonPostings ps) &&
  canonMetadata tx.metadata && canonDate tx.timestamp && validUtf8 tx.reference &&
  (match tx.id with | none => true | some n => decide (n < 18446744073709551616)) &&
  canonDate tx.insertedAt && canonDate tx.updatedAt &&
  (match tx.revertedAt with | none => true | some d => canonDate d) &&
  canonPcv tx.postCommitVolumes && canonPcv tx.postCommitEffectiveVolumes && validUtf8 tx.template

def canonTarget (tt : Bytes) : TargetId → Bool
  | .account a => asciiUpper tt = b!"ACCOUNT" && validUtf8 a
  | .transaction n => asciiUpper tt = b!"TRANSACTION" && decide (n < 18446744073709551616)

def canonicalPayload : Payload → Bool
  | .createdTransaction tx am => canonTransaction tx && canonAccountMetadata am
  | .revertedTransaction a b => canonTransaction a && canonTransaction b
  | .savedMetadata tt tid md => validUtf8 tt && canonTarget tt tid && canonMetadata md
  | .deletedMetadata tt tid key => validUtf8 tt && canonTarget tt tid && validUtf8 key
  | .insertedSchema _ => true

/-- a canonical date used by examples -/
def wDateC : Date := { year := 2024, month := 2, day := 29, hour := 23, minute := 59, second := 59, nano := 123456000, zone := 0 }

end Ledger.Log
