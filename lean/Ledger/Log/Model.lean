import Ledger.Log.GoJson

/-!
Model of `internal/log.go`: `Log`, the payload types, their mementos
(`GetMemento()`; `SavedMetadata`, `DeletedMetadata`, `InsertedSchema` have none, so
the payload itself is encoded) and the digest PREIMAGE of `Log.ComputeHash`:

    [ base64(previous.Hash) in quotes, "\n" ]                    -- when previous ≠ nil
    {"type":T,"data":MEMENTO,"date":D,"idempotencyKey":IK,"id":0,"hash":H[,"schemaVersion":SV]} "\n"

(`json.Encoder.Encode` appends the newline; `schemaVersion` has `omitempty`).
Strings are Go strings = arbitrary bytes.  Dates are civil fields + zone offset as
`time.Time.Format(time.RFC3339Nano)` prints them (go-libs `time.Time.MarshalJSON`
= `"` + `Format(RFC3339Nano)` + `"`, in the time's own location, no rounding).
Tied to the real code by the `gohash` workload.  Core-only.
-/
namespace Ledger.Log

/-- A `time.Time` as the civil fields of its own location; `zone` = offset east of
    UTC in minutes (`0` prints as `Z`). -/
structure Date where
  year : Nat
  month : Nat
  day : Nat
  hour : Nat
  minute : Nat
  second : Nat
  nano : Nat
  zone : Int
  deriving DecidableEq, Repr, Inhabited

/-- drop trailing zero digits -/
def trimZeros : List Nat → List Nat
  | [] => []
  | d :: t => match trimZeros t with
    | [] => if d = 0 then [] else [d]
    | r => d :: r

def digits9 (n : Nat) : List Nat :=
  [n / 100000000 % 10, n / 10000000 % 10, n / 1000000 % 10, n / 100000 % 10, n / 10000 % 10,
   n / 1000 % 10, n / 100 % 10, n / 10 % 10, n % 10]

def digits6 (n : Nat) : List Nat :=
  [n / 100000 % 10, n / 10000 % 10, n / 1000 % 10, n / 100 % 10, n / 10 % 10, n % 10]

/-- fractional seconds: nothing when zero, else `.` and the digits without trailing zeros -/
def fracBytes (ds : List Nat) : Bytes :=
  match trimZeros ds with
  | [] => []
  | r => 0x2e :: r.map digitChar

def civilBytes (y mo d h mi s : Nat) : Bytes :=
  pad4 y ++ 0x2d :: (pad2 mo ++ 0x2d :: (pad2 d ++ 0x54 :: (pad2 h ++ 0x3a :: (pad2 mi ++ 0x3a :: pad2 s))))

def zoneBytes (z : Int) : Bytes :=
  if z = 0 then [0x5a]
  else (if z < 0 then 0x2d else 0x2b) :: (pad2 (z.natAbs / 60) ++ 0x3a :: pad2 (z.natAbs % 60))

/-- `t.Format(time.RFC3339Nano)` = `2006-01-02T15:04:05.999999999Z07:00` -/
def goTime (d : Date) : Bytes :=
  civilBytes d.year d.month d.day d.hour d.minute d.second ++ (fracBytes (digits9 d.nano) ++ zoneBytes d.zone)

/-- go-libs `time.Time.MarshalJSON` (then `compact`, which leaves it unchanged) -/
def goTimeJson (d : Date) : Bytes := 0x22 :: (goTime d ++ [0x22])

/-! ### payloads -/

structure Posting where
  source : Bytes
  destination : Bytes
  /-- `*big.Int`; `none` = nil pointer (encoded `null`) -/
  amount : Option Int
  asset : Bytes
  deriving DecidableEq, Repr, Inhabited

/-- `metadata.Metadata` = `map[string]string`; `none` = nil map (encoded `null`) -/
abbrev Metadata := Option (List (Bytes × Bytes))
instance instDecEqMetadata : DecidableEq Metadata :=
  inferInstanceAs (DecidableEq (Option (List (Bytes × Bytes))))
/-- `AccountMetadata` = `map[string]metadata.Metadata` -/
abbrev AccountMetadata := Option (List (Bytes × Metadata))
instance instDecEqAccountMetadata : DecidableEq AccountMetadata :=
  inferInstanceAs (DecidableEq (Option (List (Bytes × Metadata))))

structure Volumes where
  input : Int
  output : Int
  deriving DecidableEq, Repr, Inhabited

/-- `PostCommitVolumes` = `map[string]map[string]Volumes` -/
abbrev VolumesByAssets := List (Bytes × Volumes)
instance instDecEqVolumesByAssets : DecidableEq VolumesByAssets :=
  inferInstanceAs (DecidableEq (List (Bytes × Volumes)))
abbrev PostCommitVolumes := Option (List (Bytes × VolumesByAssets))
instance instDecEqPostCommitVolumes : DecidableEq PostCommitVolumes :=
  inferInstanceAs (DecidableEq (Option (List (Bytes × VolumesByAssets))))

structure Transaction where
  postings : Option (List Posting)
  metadata : Metadata
  timestamp : Date
  reference : Bytes
  id : Option Nat
  insertedAt : Date
  updatedAt : Date
  revertedAt : Option Date
  postCommitVolumes : PostCommitVolumes
  postCommitEffectiveVolumes : PostCommitVolumes
  template : Bytes
  deriving DecidableEq, Repr, Inhabited

/-- `TargetID any`: an account address (string) or a transaction id (uint64) -/
inductive TargetId
  | account (address : Bytes)
  | transaction (id : Nat)
  deriving DecidableEq, Repr, Inhabited

inductive Payload
  | createdTransaction (tx : Transaction) (accountMetadata : AccountMetadata)
  | revertedTransaction (reverted : Transaction) (revert : Transaction)
  | savedMetadata (targetType : Bytes) (targetId : TargetId) (metadata : Metadata)
  | deletedMetadata (targetType : Bytes) (targetId : TargetId) (key : Bytes)
  /-- `schema` = `json.Marshal(payload.Schema)` (chart / templates are another area's
      model; here the schema is an already encoded JSON value) -/
  | insertedSchema (schema : Bytes)
  deriving DecidableEq, Repr, Inhabited

inductive LogType
  | setMetadata | newTransaction | revertedTransaction | deleteMetadata | insertedSchema
  deriving DecidableEq, Repr, Inhabited

/-- `LogType.String()` -/
def LogType.label : LogType → Bytes
  | .setMetadata => b!"SET_METADATA"
  | .newTransaction => b!"NEW_TRANSACTION"
  | .revertedTransaction => b!"REVERTED_TRANSACTION"
  | .deleteMetadata => b!"DELETE_METADATA"
  | .insertedSchema => b!"INSERTED_SCHEMA"

/-- `payload.Type()` (what `NewLog` stores in `Log.Type`) -/
def Payload.type : Payload → LogType
  | .createdTransaction .. => .newTransaction
  | .revertedTransaction .. => .revertedTransaction
  | .savedMetadata .. => .setMetadata
  | .deletedMetadata .. => .deleteMetadata
  | .insertedSchema .. => .insertedSchema

structure Log where
  payload : Payload
  date : Date
  idempotencyKey : Bytes
  /-- `Log.Hash` at the time `ComputeHash` runs (`nil` for a fresh log) -/
  hash : Option Bytes
  schemaVersion : Bytes
  deriving DecidableEq, Repr, Inhabited

/-- `previous`: `none` = no previous log (`nil`), `some h` = `previous.Hash = h` -/
abbrev PrevHash := Option Bytes

/-! ### memento encoding (json.Marshal of `GetMemento()`) -/

def encMetadata : Metadata → Bytes
  | none => b!"null"
  | some m => goObject ((sortByKey m).map fun (k, v) => (k, goString v))

def encAccountMetadata : AccountMetadata → Bytes
  | none => b!"null"
  | some m => goObject ((sortByKey m).map fun (k, v) => (k, encMetadata v))

def encAmount : Option Int → Bytes
  | none => b!"null"
  | some a => intDec a

def encPosting (p : Posting) : Bytes :=
  b!"{\"source\":" ++ (goString p.source ++ (b!",\"destination\":" ++ (goString p.destination ++
  (b!",\"amount\":" ++ (encAmount p.amount ++ (b!",\"asset\":" ++ (goString p.asset ++ b!"}")))))))

def encPostings : Option (List Posting) → Bytes
  | none => b!"null"
  | some ps => goArray (ps.map encPosting)

def encOptNat : Option Nat → Bytes
  | none => b!"null"
  | some n => natDec n

/-- `transactionResume` of `GetMemento` (`Reverted` is never set there: always `false`) -/
def encTxResume (tx : Transaction) : Bytes :=
  b!"{\"postings\":" ++ (encPostings tx.postings ++ (b!",\"metadata\":" ++ (encMetadata tx.metadata ++
  (b!",\"timestamp\":" ++ (goTimeJson tx.timestamp ++
  ((if tx.reference = [] then [] else b!",\"reference\":" ++ goString tx.reference) ++
  (b!",\"id\":" ++ (encOptNat tx.id ++ b!",\"reverted\":false}"))))))))

def encTargetId : TargetId → Bytes
  | .account a => goString a
  | .transaction id => natDec id

/-- Errors shared by both sides of the comparison. -/
inductive HashErr
  /-- `GetMemento` dereferences a nil `RevertedTransaction.ID`: Go panics before any SQL -/
  | goNilDeref
  /-- PostgreSQL: `invalid input syntax for type bytea` -/
  | invalidByteaInput
  /-- PostgreSQL rejects the text value (`invalid byte sequence for encoding "UTF8"`, NUL) -/
  | invalidText (column : String)
  /-- a construct or value outside the modelled fragment (breaks the tie) -/
  | unsupported (what : String)
  deriving DecidableEq, Repr, Inhabited

instance instDecEqExcept {ε α : Type} [DecidableEq ε] [DecidableEq α] : DecidableEq (Except ε α)
  | .ok a, .ok b => if h : a = b then isTrue (by rw [h]) else isFalse (fun h' => h (by injection h'))
  | .error a, .error b => if h : a = b then isTrue (by rw [h]) else isFalse (fun h' => h (by injection h'))
  | .ok _, .error _ => isFalse (fun h => by cases h)
  | .error _, .ok _ => isFalse (fun h => by cases h)

/-- `json.Marshal(memento)`: the bytes `InsertLog` stores in `logs.memento` and the
    `data` member of the `ComputeHash` preimage. -/
def mementoBytes : Payload → Except HashErr Bytes
  | .createdTransaction tx am =>
    .ok (b!"{\"transaction\":" ++ (encTxResume tx ++ (b!",\"accountMetadata\":" ++ (encAccountMetadata am ++ b!"}"))))
  | .revertedTransaction reverted revert =>
    match reverted.id with
    | none => .error .goNilDeref
    | some rid => .ok (b!"{\"revertedTransactionID\":" ++ (natDec rid ++ (b!",\"transaction\":" ++ (encTxResume revert ++ b!"}"))))
  | .savedMetadata tt tid md =>
    .ok (b!"{\"targetType\":" ++ (goString tt ++ (b!",\"targetId\":" ++ (encTargetId tid ++
      (b!",\"metadata\":" ++ (encMetadata md ++ b!"}"))))))
  | .deletedMetadata tt tid key =>
    .ok (b!"{\"targetType\":" ++ (goString tt ++ (b!",\"targetId\":" ++ (encTargetId tid ++
      (b!",\"key\":" ++ (goString key ++ b!"}"))))))
  | .insertedSchema schema => .ok (b!"{\"schema\":" ++ (schema ++ b!"}"))

/-! ### `ComputeHash` -/

/-- first `enc.Encode(previous.Hash)`: base64 in quotes, then the encoder's newline -/
def goPrevBytes : PrevHash → Bytes
  | none => []
  | some h => goBytes (some h) ++ [0x0a]

/-- second `enc.Encode(struct{…})` given the memento bytes -/
def goLogJson (log : Log) (memento : Bytes) : Bytes :=
  b!"{\"type\":" ++ (goString log.payload.type.label ++ (b!",\"data\":" ++ (memento ++
  (b!",\"date\":" ++ (goTimeJson log.date ++ (b!",\"idempotencyKey\":" ++ (goString log.idempotencyKey ++
  (b!",\"id\":0,\"hash\":" ++ (goBytes log.hash ++
  ((if log.schemaVersion = [] then [] else b!",\"schemaVersion\":" ++ goString log.schemaVersion) ++
  b!"}\n"))))))))))

/-- The bytes `Log.ComputeHash(previous)` feeds to SHA-256. -/
def goPreimage (log : Log) (prev : PrevHash) : Except HashErr Bytes :=
  match mementoBytes log.payload with
  | .error e => .error e
  | .ok m => .ok (goPrevBytes prev ++ goLogJson log m)

end Ledger.Log
