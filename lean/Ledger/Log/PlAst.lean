/-!
Abstract syntax of the PL/pgSQL fragment used by `set_log_hash()` /
`compute_hash(bytea, logs)`.  `tools/t2_loghash` parses the FINAL definitions of
those functions (after folding every migration) into these types and prints
`Ledger/Generated/LogHash.lean`.  The meaning of the syntax is given by
`Ledger/Log/PgEval.lean`.  Core-only.
-/
namespace Ledger.Log

abbrev Bytes := List UInt8

/-- SQL types that occur in casts / declarations of the two functions. -/
inductive SqlTy
  | bytea | text | varchar | timestamp | timestamptz
  deriving DecidableEq, Repr, Inhabited

/-- Functions called by the two bodies (the translator rejects any other name). -/
inductive PlFn
  | encode        -- encode(bytea, format)
  | toJson        -- to_json(anyelement)
  | coalesce      -- coalesce(a, b)
  | digest        -- public.digest(data, algorithm)   (pgcrypto)
  | convertTo     -- convert_to(text, encoding)
  | computeHash   -- compute_hash(previous_hash bytea, r logs)
  deriving DecidableEq, Repr, Inhabited

/-- Expressions.  `lit` is a string constant AFTER SQL-literal processing
    (`''` → `'`, and for `E'…'` constants the backslash escapes), of type `unknown`. -/
inductive PlExpr
  | lit (b : Bytes)
  | var (name : String)
  | field (record col : String)                       -- new.x / r.x
  | concat (a b : PlExpr)                             -- a || b
  | jsonPathText (a path : PlExpr)                    -- a #>> path
  | cast (e : PlExpr) (ty : SqlTy)                    -- e::ty
  | call1 (f : PlFn) (a : PlExpr)
  | call2 (f : PlFn) (a b : PlExpr)
  | caseNull (scrut : PlExpr) (whenNull : Bool) (thenE elseE : PlExpr)
      -- case when scrut is [not] null then thenE else elseE end   (whenNull = `is null`)
  | subselect (e : PlExpr)                            -- (select e)
  deriving Repr, Inhabited

/-- `select <col> into <var> from <table> where <whereCol> = <record>.<recordCol>
     order by <orderCol> [desc] limit <limit>` -/
structure LastRowQuery where
  col : String
  var : String
  table : String
  whereCol : String
  record : String
  recordCol : String
  orderCol : String
  desc : Bool
  limit : Nat
  deriving Repr, Inhabited

inductive PlSimple
  | selectLast (q : LastRowQuery)
  | selectInto (e : PlExpr) (var : String)            -- select e into var;
  | assignVar (var : String) (e : PlExpr)             -- var := e;  /  var = e;
  | assignField (record col : String) (e : PlExpr)    -- new.col = e;
  | returnRecord (record : String)                    -- return new;
  | returnExpr (e : PlExpr)                           -- return e;
  deriving Repr, Inhabited

/-- One statement, possibly inside `if <guard> is [not] null then … end if;`
    (`guard = some (e, whenNull)`).  The translator flattens an `if` block into
    guarded statements and refuses blocks whose body assigns something the
    condition reads. -/
structure PlStmt where
  guard : Option (PlExpr × Bool) := none
  stmt : PlSimple
  deriving Repr, Inhabited

/-- A function definition as found in the migrations. -/
structure PlFunc where
  /-- number of the migration holding the final definition -/
  migration : Nat
  /-- parameters `(name, type name)`; a trigger function has none -/
  params : List (String × String)
  /-- `declare` section -/
  decls : List (String × SqlTy)
  body : List PlStmt
  deriving Repr, Inhabited

/-- How (and whether) the trigger is attached by `ledgerSetups` in
    `internal/storage/bucket/default_bucket.go`. -/
structure TriggerFacts where
  attached : Bool
  timing : String            -- "before insert"
  table : String             -- "logs"
  forEachRow : Bool
  whenLedgerEqName : Bool    -- when (new.ledger = '{{.Name}}')
  function : String          -- "set_log_hash"
  featureName : String       -- "HASH_LOGS"
  featureValue : String      -- "SYNC"
  deriving Repr, Inhabited, DecidableEq

end Ledger.Log
