import Ledger.Log.SqlHash

/-!
Sequential inserts of logs with HASH_LOGS=SYNC (property C09): each `InsertLog`
takes the next id of the per-ledger sequence, the BEFORE INSERT trigger (the
GENERATED `set_log_hash`) computes `new.hash`, the row is appended.  The digest is a
parameter `H : Bytes → Bytes` (opaque in the theorems, the Lean SHA-256 in the
driver).  Concurrency (the advisory lock taken by `InsertLog`, sessions, schedules)
is NOT modelled here: this is the one-session-at-a-time behaviour only.
Core-only.
-/
namespace Ledger.Log

/-- one `InsertLog` (no rollback in between: the sequence value is `rows + 1`) -/
def insertLog (H : Bytes → Bytes) (ledger : Bytes) (tbl : Table) (log : Log) : Except HashErr Table :=
  match rowOfLog bunTags ledger (tbl.length + 1) log with
  | .error e => .error e
  | .ok row => match runSetLogHash tbl row with
    | .error e => .error e
    | .ok r => match r.hash with
      | .digest pre => .ok (tbl ++ [{ r with hash := .bytea (H pre) }])
      | _ => .error (.unsupported "new.hash is not a digest")

def insertAll (H : Bytes → Bytes) (ledger : Bytes) : List Log → Table → Except HashErr Table
  | [], tbl => .ok tbl
  | l :: ls, tbl => match insertLog H ledger tbl l with
    | .error e => .error e
    | .ok t => insertAll H ledger ls t

/-- `Chained H n p logs rows`: `rows` are the stored rows of `logs`, with ids
    `n+1, n+2, …`; the first chains from `p`, each next one from the STORED hash of
    the row just before it, and every stored hash is `H` of the SQL preimage. -/
inductive Chained (H : Bytes → Bytes) : Nat → PrevHash → List Log → List Row → Prop
  | nil (n : Nat) (p : PrevHash) : Chained H n p [] []
  | cons (n : Nat) (p : PrevHash) (log : Log) (logs : List Log) (row : Row) (rows : List Row) (pre : Bytes) :
      row.id = .num (n + 1) →
      sqlPreimage log p = .ok pre →
      row.hash = .bytea (H pre) →
      Chained H (n + 1) (some (H pre)) logs rows →
      Chained H n p (log :: logs) (row :: rows)

/-- The documented chain hash input: what the reference implementation
    `Log.ComputeHash` hashes — the JSON of the previous log's hash, then the JSON
    object with the log's type, memento (`data`), date, idempotency key, the constants
    `"id":0,"hash":null`, and the schema version when there is one. -/
def documentedPreimage (log : Log) (prev : PrevHash) : Except HashErr Bytes := goPreimage log prev

end Ledger.Log
