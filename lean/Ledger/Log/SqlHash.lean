import Ledger.Log.PgEval
import Ledger.Generated.LogHash

/-!
The digest preimage PostgreSQL builds when a log is inserted with HASH_LOGS=SYNC:
the GENERATED final `set_log_hash()` (and `compute_hash()` if it is called) run by
the evaluator of `PgEval.lean` on the row `InsertLog` sends.  Core-only.
-/
namespace Ledger.Log
open Ledger.Generated

def bunTags : BunTags :=
  { idempotencyKeyNullZero := LogHash.idempotencyKeyNullZero
    schemaVersionNullZero := LogHash.schemaVersionNullZero
    dateNullZero := LogHash.dateNullZero }

/-- the trigger as generated from the migrations -/
def runSetLogHash (tbl : Table) (row : Row) : Except HashErr Row :=
  runTrigger LogHash.setLogHash LogHash.computeHash tbl row

/-- the argument of `public.digest(…, 'sha256')` whose result the trigger stores in `new.hash` -/
def triggerPreimage (tbl : Table) (row : Row) : Except HashErr Bytes :=
  match runSetLogHash tbl row with
  | .error e => .error e
  | .ok r => match r.hash with
    | .digest pre => .ok pre
    | _ => .error (.unsupported "new.hash is not a digest")

/-- a table holding (at most) the previous log of ledger `ledger`, with id `id` -/
def prevTable (ledger : Bytes) (id : Nat) : PrevHash → Table
  | none => []
  | some h => [{ ledger := .text ledger, id := .num id, type := .null, memento := .null, date := .null,
                 idempotencyKey := .null, schemaVersion := .null, hash := .bytea h }]

def sqlPreimageAt (ledger : Bytes) (id : Nat) (log : Log) (prev : PrevHash) : Except HashErr Bytes :=
  match rowOfLog bunTags ledger (id + 1) log with
  | .error e => .error e
  | .ok row => triggerPreimage (prevTable ledger id prev) row

/-- The bytes PostgreSQL hashes for `log` inserted after a log whose hash is `prev`
    (ledger name and ids are irrelevant to the preimage; fixed here). -/
def sqlPreimage (log : Log) (prev : PrevHash) : Except HashErr Bytes :=
  sqlPreimageAt b!"l" 1 log prev

end Ledger.Log
