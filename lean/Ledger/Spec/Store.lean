import Ledger.Spec.Fold

/-!
The abstract reference ledger, part 2: an *abstract store* — the tables the SQL
maintains, updated by hand-written pure functions that mirror what the statements
of `CommitTransaction` and the triggers of migration 11 do:

* `upsertVolumes`    — `UpdateVolumes`: `INSERT … ON CONFLICT (ledger, accounts_address, asset)
                       DO UPDATE SET input = accounts_volumes.input + excluded.input,
                       output = accounts_volumes.output + excluded.output RETURNING input, output`
* `setEffective`     — trigger `set_effective_volumes` (BEFORE INSERT ON moves FOR EACH ROW)
* `updateEffective`  — trigger `update_effective_volumes` (AFTER INSERT ON moves FOR EACH ROW)
* `insertMoves`      — the multi-row `INSERT INTO moves`: BEFORE-ROW triggers fire row by row
                       and see the rows of the same statement inserted before; AFTER-ROW
                       triggers fire once all rows are in, in row order.
* `upsertAccounts`   — `UpsertAccounts` CTE (`LEAST(first_usage)`, insert-if-absent).

These functions are NOT yet derived from the rendered SQL (that is the job of the
LeanPG/translator layer); until then they are hand-written abstractions.
-/
namespace Ledger.Spec
open Ledger.Base Ledger.Core

/-! ### accounts_volumes -/

/-- The upsert on one `VALUES` row: new row value. -/
def upsertRow (av : PCV) (k : Key) (v : Volumes) : Volumes :=
  match av.get? k with
  | some o => o.add v
  | none => v

/-- `UpdateVolumes(vu…)` = (new accounts_volumes table, RETURNING rows keyed like `vu`). -/
def upsertVolumes (av : PCV) (vu : PCV) : PCV × PCV :=
  (vu.foldl (fun m e => m.insertWith Volumes.add e.1 e.2) av, vu.mapVal (fun k v => upsertRow av k v))

/-- Volumes of the touched (account, asset) pairs *before* the upsert; a pair without
    a row counts as zero (the upsert inserts `0 + excluded`). -/
def preVolumes (av : PCV) (vu : PCV) : PCV :=
  vu.mapVal (fun k _ => match av.get? k with | some o => o | none => Volumes.zero)

/-! ### moves -/

structure MoveRow where
  seq : Nat
  txId : Nat
  account : String
  asset : String
  amount : Int
  isSource : Bool
  insertionDate : Int
  effectiveDate : Int
  pcv : Volumes
  pcev : Volumes
  deriving DecidableEq, Repr, Inhabited

def MoveRow.key (m : MoveRow) : Key := (m.account, m.asset)

/-- Projection of a moves row on the columns computed in Go. -/
def MoveRow.toMove (r : MoveRow) : Move :=
  { account := r.account, asset := r.asset, amount := r.amount, isSource := r.isSource, pcv := r.pcv }


/-- What the move adds to the volumes of its account/asset. -/
def MoveRow.delta (m : MoveRow) : Volumes :=
  if m.isSource then ⟨0, m.amount⟩ else ⟨m.amount, 0⟩

/-- `(effective_date, seq)` lexicographic, strict. -/
def MoveRow.before (a b : MoveRow) : Bool :=
  decide (a.effectiveDate < b.effectiveDate) ||
  (decide (a.effectiveDate = b.effectiveDate) && decide (a.seq < b.seq))

/-- `select … from moves where accounts_address = new.accounts_address and asset = new.asset
    and (effective_date < new.effective_date or (effective_date = new.effective_date and
    seq < new.seq)) order by effective_date desc, seq desc limit 1`. -/
def prevMove : List MoveRow → MoveRow → Option MoveRow
  | [], _ => none
  | m :: r, n =>
    if m.key = n.key ∧ m.before n = true then
      match prevMove r n with
      | none => some m
      | some b => some (if m.before b then b else m)
    else prevMove r n

/-- `set_effective_volumes`: previous move's effective volumes + own delta, or own delta. -/
def setEffective (table : List MoveRow) (n : MoveRow) : MoveRow :=
  { n with pcev := match prevMove table n with
                   | some p => p.pcev.add n.delta
                   | none => n.delta }

/-- `update_effective_volumes`: every move of the same account/asset with a strictly
    later effective date gets the new move's delta added. -/
def updateEffective (n : MoveRow) (table : List MoveRow) : List MoveRow :=
  table.map fun m =>
    if m.key = n.key ∧ n.effectiveDate < m.effectiveDate then { m with pcev := m.pcev.add n.delta } else m

/-- Phase 1 of the multi-row insert (BEFORE-ROW triggers + the inserts themselves). -/
def insertPhase1 : List MoveRow → List MoveRow → List MoveRow
  | table, [] => table
  | table, n :: ns => insertPhase1 (table ++ [setEffective table n]) ns

/-- The rows as inserted (what `RETURNING post_commit_effective_volumes` reports). -/
def insertedRows : List MoveRow → List MoveRow → List MoveRow
  | _, [] => []
  | table, n :: ns => setEffective table n :: insertedRows (table ++ [setEffective table n]) ns

/-- Phase 2 (AFTER-ROW triggers, in row order). -/
def insertPhase2 : List MoveRow → List MoveRow → List MoveRow
  | table, [] => table
  | table, r :: rs => insertPhase2 (updateEffective r table) rs

def insertMoves (table news : List MoveRow) : List MoveRow :=
  insertPhase2 (insertPhase1 table news) (insertedRows table news)

/-! ### accounts -/

structure AccountRow where
  firstUsage : Int
  insertionDate : Int
  updatedAt : Int
  metadata : Metadata := []
  deriving DecidableEq, Repr, Inhabited

/-- `a.metadata @> d.metadata` -/
def metaContains (a d : Metadata) : Bool := d.all (fun e => a.get? e.1 == some e.2)

def metaMerge (a d : Metadata) : Metadata := d.foldl (fun acc e => acc.insert e.1 e.2) a

/-- One row of the `UpsertAccounts` batch.  `firstUsage = none` is SQL `NULL`
    (metadata-only upsert): `LEAST` ignores it, the insert uses `now`. -/
def upsertAccount (accounts : Map String AccountRow) (address : String) (firstUsage : Option Int)
    (date : Int) (md : Metadata) : Map String AccountRow :=
  match accounts.get? address with
  | some a =>
    let lower := match firstUsage with | some f => decide (f < a.firstUsage) | none => false
    if lower || !metaContains a.metadata md then
      accounts.insert address
        { a with metadata := metaMerge a.metadata md,
                 firstUsage := (match firstUsage with | some f => if f < a.firstUsage then f else a.firstUsage | none => a.firstUsage),
                 updatedAt := date }
    else accounts
  | none =>
    accounts.insert address
      { firstUsage := firstUsage.getD date, insertionDate := date, updatedAt := date, metadata := md }

/-- `tx.InvolvedAccounts()`: sources and destinations, sorted, deduplicated. -/
def involvedAccounts (ps : List Posting) : List String :=
  (ps.foldl (fun (m : Map String Unit) p => (m.insert p.source ()).insert p.destination ()) []).keys

/-! ### the store -/

structure TxRow where
  tx : TxRec
  /-- `transactions.post_commit_volumes` -/
  pcv : PCV
  deriving Repr, Inhabited

structure Store where
  accountsVolumes : PCV := []
  txs : List TxRow := []
  moves : List MoveRow := []
  accounts : Map String AccountRow := []
  nextTxId : Nat := 1
  nextSeq : Nat := 1
  deriving Repr, Inhabited

/-- What `CommitTransaction` is given, with the store-side defaults (timestamp,
    inserted_at) already resolved. -/
structure TxIn where
  postings : List Posting
  timestamp : Int
  insertedAt : Int
  reference : String := ""
  metadata : Metadata := []
  accountMetadata : Map String Metadata := []
  /-- `upsertTransactionAccounts` runs after the commit (transaction creation and import);
      `false` for the revert path, which only calls `CommitTransaction` -/
  upsertAccounts : Bool := true
  deriving Repr, Inhabited

/-- Number the Go-computed moves (`seq` from the table's sequence) and attach the dates. -/
def toRows (seq0 txId : Nat) (ins eff : Int) : List Move → List MoveRow
  | [] => []
  | m :: ms =>
    { seq := seq0, txId := txId, account := m.account, asset := m.asset, amount := m.amount,
      isSource := m.isSource, insertionDate := ins, effectiveDate := eff, pcv := m.pcv,
      pcev := Volumes.zero } :: toRows (seq0 + 1) txId ins eff ms

def Store.txRecs (st : Store) : List TxRec := st.txs.map (·.tx)

/-- `CommitTransaction` (+ `upsertTransactionAccounts` when `t.upsertAccounts`) on the abstract store (features
    MOVES_HISTORY=ON, MOVES_HISTORY_POST_COMMIT_EFFECTIVE_VOLUMES=SYNC). -/
def applyTx (st : Store) (t : TxIn) : Except Err Store :=
  let vu := volumeUpdates t.postings
  let (av, ret) := upsertVolumes st.accountsVolumes vu
  match movesOf ret t.postings with
  | .error e => .error e
  | .ok ms =>
    let rows := toRows st.nextSeq st.nextTxId t.insertedAt t.timestamp ms
    let accts := involvedAccounts t.postings
    let accounts1 := accts.foldl (fun acc a =>
        upsertAccount acc a (some t.timestamp) t.insertedAt ((t.accountMetadata.get? a).getD [])) st.accounts
    let accounts2 := (t.accountMetadata.filter (fun e => !accts.contains e.1)).foldl (fun acc e =>
        upsertAccount acc e.1 (some t.timestamp) t.insertedAt e.2) accounts1
    .ok { accountsVolumes := av
          txs := st.txs ++ [{ tx := { id := st.nextTxId, postings := t.postings, timestamp := t.timestamp,
                                      insertedAt := t.insertedAt, reference := t.reference,
                                      metadata := t.metadata }, pcv := ret }]
          moves := insertMoves st.moves rows
          accounts := if t.upsertAccounts then accounts2 else st.accounts
          nextTxId := st.nextTxId + 1
          nextSeq := st.nextSeq + ms.length }

/-- The zero rows `GetBalances` creates to lock never-used balances
    (`INSERT … VALUES (…, 0, 0) ON CONFLICT DO NOTHING`); they persist when the
    surrounding write commits. -/
def lockBalances (st : Store) (keys : List Key) : Store :=
  { st with accountsVolumes :=
      keys.foldl (fun m k => m.insertWith (fun old _ => old) k Volumes.zero) st.accountsVolumes }

/-- `UPDATE transactions SET reverted_at = … WHERE id = … AND reverted_at IS NULL`. -/
def markReverted (st : Store) (id : Nat) (at_ : Int) : Store :=
  { st with txs := st.txs.map fun r =>
      if r.tx.id = id ∧ r.tx.revertedAt = none then { r with tx := { r.tx with revertedAt := some at_ } } else r }

/-- Store-level operations. -/
inductive StoreOp where
  | commit (t : TxIn)
  | lock (keys : List Key)
  | markReverted (id : Nat) (at_ : Int)
  /-- `saveAccountMetadata`: `UpsertAccounts` with one row without dates (metadata written on
      an account; creates it — first usage = insertion date = the write's date — when absent) -/
  | saveAccountMeta (address : String) (at_ : Int) (md : Metadata)
  deriving Repr, Inhabited

def applyOp (st : Store) : StoreOp → Except Err Store
  | .commit t => applyTx st t
  | .lock keys => .ok (lockBalances st keys)
  | .markReverted id a => .ok (markReverted st id a)
  | .saveAccountMeta a at_ md => .ok { st with accounts := upsertAccount st.accounts a none at_ md }

def runOpsFrom : Store → List StoreOp → Except Err Store
  | st, [] => .ok st
  | st, o :: os =>
    match applyOp st o with
    | .error e => .error e
    | .ok st' => runOpsFrom st' os

/-- Any sequence of store operations from the empty store. -/
def runOps (ops : List StoreOp) : Except Err Store := runOpsFrom {} ops

/-- Committed transactions from the empty store. -/
def run (h : List TxIn) : Except Err Store := runOps (h.map StoreOp.commit)

def commitsOf : List StoreOp → List TxIn
  | [] => []
  | .commit t :: os => t :: commitsOf os
  | _ :: os => commitsOf os

/-- The committed history a list of `TxIn` denotes (ids 1, 2, … in commit order). -/
def recsFrom (id0 : Nat) : List TxIn → List TxRec
  | [] => []
  | t :: ts => { id := id0, postings := t.postings, timestamp := t.timestamp, insertedAt := t.insertedAt,
                 reference := t.reference, metadata := t.metadata } :: recsFrom (id0 + 1) ts

/-- Effective volumes a transaction read reports: last move per account/asset of the transaction. -/
def txEffectiveVolumes (moves : List MoveRow) (txId : Nat) : Except Err PCV :=
  computePCEV ((moves.filter (·.txId = txId)).map fun r =>
    { account := r.account, asset := r.asset, amount := r.amount, isSource := r.isSource,
      pcv := r.pcv, pcev := some r.pcev })

end Ledger.Spec
