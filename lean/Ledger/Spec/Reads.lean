import Ledger.Spec.Pcev

/-!
Reads the way the point-in-time SQL computes them — from the `moves` table — to be related to
the Spec folds (C05, algebra part).  Hand-written images of the two dataset shapes with
arithmetic: `sum(case when is_source …)` over the moves in the window, and
`first_value(post_commit_[effective_]volumes)` of the latest move at or before the point in time.
-/
namespace Ledger.Spec
open Ledger.Base Ledger.Core

def MoveRow.date (mode : DateMode) (m : MoveRow) : Int :=
  match mode with
  | .insertion => m.insertionDate
  | .effective => m.effectiveDate

/-- `select sum(case when not is_source then amount else 0 end), sum(case when is_source …)
    from moves where accounts_address = … and asset = … and <date> >= oot and <date> <= pit` -/
def movesWindowVolumes (moves : List MoveRow) (w : Window) (mode : DateMode) (k : Key) : Volumes :=
  sumDeltas (moves.filter fun m => m.key == k && w.contains (m.date mode))

/-- The latest move of `k` at or before `pit` in `(effective_date, seq)` order. -/
def lastEffectiveMove : List MoveRow → Key → Int → Option MoveRow
  | [], _, _ => none
  | m :: r, k, pit =>
    if m.key = k ∧ m.effectiveDate ≤ pit then
      match lastEffectiveMove r k pit with
      | none => some m
      | some b => some (if m.before b then b else m)
    else lastEffectiveMove r k pit

/-- `first_value(post_commit_effective_volumes) over (partition by accounts_address, asset
    order by effective_date desc, seq desc)` restricted to `effective_date <= pit`;
    no move ⇒ no row (reads as zero volumes). -/
def effectiveVolumesAt (moves : List MoveRow) (k : Key) (pit : Int) : Volumes :=
  match lastEffectiveMove moves k pit with
  | some m => m.pcev
  | none => Volumes.zero

end Ledger.Spec
