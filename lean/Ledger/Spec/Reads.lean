import Ledger.Spec.Pcev

/-!
Reads the way the point-in-time SQL computes them — from the `moves` table — to be related to
the Spec folds (C05, algebra part).  Hand-written images of the two dataset shapes with
arithmetic: `sum(case when is_source …)` over the moves in the window, and
`first_value(post_commit_[effective_]volumes)` of the latest move at or before the point in time.
-/
namespace Ledger.Spec
open Ledger.Base Ledger.Core

def MoveRow.date (mode : DateMode) (m : MoveRow) : Int :=
  match mode with
  | .insertion => m.insertionDate
  | .effective => m.effectiveDate

/-- `select sum(case when not is_source then amount else 0 end), sum(case when is_source …)
    from moves where accounts_address = … and asset = … and <date> >= oot and <date> <= pit` -/
def movesWindowVolumes (moves : List MoveRow) (w : Window) (mode : DateMode) (k : Key) : Volumes :=
  sumDeltas (moves.filter fun m => m.key == k && w.contains (m.date mode))

/-- The latest move of `k` at or before `pit` in `(effective_date, seq)` order. -/
def lastEffectiveMove : List MoveRow → Key → Int → Option MoveRow
  | [], _, _ => none
  | m :: r, k, pit =>
    if m.key = k ∧ m.effectiveDate ≤ pit then
      match lastEffectiveMove r k pit with
      | none => some m
      | some b => some (if m.before b then b else m)
    else lastEffectiveMove r k pit

/-- `first_value(post_commit_effective_volumes) over (partition by accounts_address, asset
    order by effective_date desc, seq desc)` restricted to `effective_date <= pit`;
    no move ⇒ no row (reads as zero volumes). -/
def effectiveVolumesAt (moves : List MoveRow) (k : Key) (pit : Int) : Volumes :=
  match lastEffectiveMove moves k pit with
  | some m => m.pcev
  | none => Volumes.zero

/-- The latest move of `k` (largest `seq`) inserted at or before `pit`. -/
def lastInsertionMove : List MoveRow → Key → Int → Option MoveRow
  | [], _, _ => none
  | m :: r, k, pit =>
    if m.key = k ∧ m.insertionDate ≤ pit then
      match lastInsertionMove r k pit with
      | none => some m
      | some b => some (if m.seq < b.seq then b else m)
    else lastInsertionMove r k pit

/-- `first_value(post_commit_volumes) over (partition by accounts_address, asset order by seq desc)`
    restricted to `insertion_date <= pit`; no move ⇒ zero volumes. -/
def insertionVolumesAt (moves : List MoveRow) (k : Key) (pit : Int) : Volumes :=
  match lastInsertionMove moves k pit with
  | some m => m.pcv
  | none => Volumes.zero

/-- C03 at move level: a move's post-commit volumes are the sum of the deltas of the moves of
    its account/asset up to and including itself, in `seq` order. -/
def PCV_Inv (table : List MoveRow) : Prop :=
  ∀ m ∈ table, m.pcv = sumDeltas (table.filter fun m' => m'.key == m.key && decide (m'.seq ≤ m.seq))

/-- `GetAggregatedBalances` with an empty filter and no point in time: per asset
    (Σ input, Σ output) over the `accounts_volumes` rows (`sum(input), sum(output) … group by asset`). -/
def aggregatedVolumes (av : PCV) : Map String Volumes :=
  av.foldl (fun m e => m.insertWith Volumes.add e.1.2 e.2) []

/-- The same at a point in time / window, from the Spec fold: per asset the sum over a list of
    accounts of their volumes in the window. -/
def aggregatedAt (txs : List TxRec) (w : Window) (mode : DateMode) (accts : List String) (s : String) : Volumes :=
  accts.foldl (fun acc a => acc.add (volumesAt txs w mode (a, s))) Volumes.zero

end Ledger.Spec
