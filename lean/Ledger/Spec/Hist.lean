import Ledger.Spec.Pcev

/-!
Histories: the high-level write operations of the ledger applied to the Spec (the journal
`Ledger`) and, in lock-step, to the abstract store.  Used by the `hist` driver handler to
compare a *ledger snapshot* produced elsewhere (later: the real SQL store running on LeanPG)
with what the Spec says.  JSON shapes: see `Ledger/Spec/README.md`.
-/
namespace Ledger.Spec
open Ledger.Base Ledger.Core

inductive Op where
  /-- create a transaction by postings; `timestamp = none` → the write's date -/
  | tx (at_ : Int) (timestamp : Option Int) (postings : List Posting) (reference : String)
       (metadata : Metadata) (accountMeta : Map String Metadata) (force : Bool)
  | revert (at_ : Int) (id : Nat) (force : Bool) (atEffectiveDate : Bool) (metadata : Metadata)
  | saveMeta (at_ : Int) (target : Target) (metadata : Metadata)
  | deleteMeta (at_ : Int) (target : Target) (key : String)
  deriving Repr, Inhabited

inductive Outcome where
  | ok
  | noPostings
  | insufficientFunds
  | referenceConflict
  | notFound
  | alreadyReverted
  | internal (e : String)
  deriving DecidableEq, Repr, Inhabited

def Outcome.toString : Outcome → String
  | .ok => "ok"
  | .noPostings => "no-postings"
  | .insufficientFunds => "insufficient-funds"
  | .referenceConflict => "reference-conflict"
  | .notFound => "not-found"
  | .alreadyReverted => "already-reverted"
  | .internal e => "internal: " ++ e

/-- Spec journal + abstract store, advanced together. -/
structure World where
  ledger : Ledger := {}
  store : Store := {}
  deriving Repr, Inhabited

/-- Funds rule for a transaction given by postings (DESIGN §3.0, C25): walking the postings in
    order over the current balances, a posting fails iff its amount is positive and exceeds the
    running balance of a non-`world` source. -/
def fundsOk (bal : Key → Int) : List Posting → Map Key Int → Bool
  | [], _ => true
  | p :: ps, delta =>
    let cur := fun k => bal k + (match delta.get? k with | some d => d | none => 0)
    if p.source != "world" && decide (p.amount > 0) && decide (cur p.srcKey < p.amount) then false
    else
      let d1 := delta.insertWith (· + ·) p.srcKey (-p.amount)
      fundsOk bal ps (d1.insertWith (· + ·) p.dstKey p.amount)

def commit (w : World) (at_ : Int) (ts : Int) (ps : List Posting) (reference : String) (md : Metadata)
    (am : Map String Metadata) (upsertAccounts : Bool) : World × Outcome :=
  let tin : TxIn := { postings := ps, timestamp := ts, insertedAt := at_, reference, metadata := md,
                      accountMetadata := am, upsertAccounts }
  match applyTx w.store tin with
  | .error e => (w, .internal e.toString)
  | .ok st =>
    let rec_ : TxRec := { id := w.store.nextTxId, postings := ps, timestamp := ts, insertedAt := at_,
                          reference, metadata := md }
    ({ ledger := { events := w.ledger.events ++ [.committed rec_ am upsertAccounts] }, store := st }, .ok)

def findTx (txs : List TxRec) (id : Nat) : Option TxRec := txs.find? (·.id = id)

def World.step (w : World) : Op → World × Outcome
  | .tx at_ ts ps reference md am force =>
    let txs := w.ledger.txs
    if ps.isEmpty then (w, .noPostings)
    else if reference != "" && txs.any (·.reference == reference) then
      -- the unique index rejects the INSERT after `nextval` was evaluated: the SQL transaction
      -- rolls back but the (non-transactional) id sequence keeps the hole
      ({ w with store := { w.store with nextTxId := w.store.nextTxId + 1 } }, .referenceConflict)
    else if !force && !fundsOk (balanceOf txs) ps [] then (w, .insufficientFunds)
    else commit w at_ (ts.getD at_) ps reference md am true
  | .revert at_ id force atEff md =>
    let txs := w.ledger.txs
    match findTx txs id with
    | none => (w, .notFound)
    | some t =>
      if t.revertedAt.isSome then (w, .alreadyReverted) else
      let orig : Tx := { id := some t.id, postings := t.postings, timestamp := some t.timestamp,
                         revertedAt := some at_ }
      let balances : Balances := (involvedDestinations t.postings).map fun k => (k, balanceOf txs k)
      match buildRevertTx orig { force, atEffectiveDate := atEff, metadata := md } balances with
      | .error .insufficientFunds => (w, .insufficientFunds)
      | .error e => (w, .internal e.toString)
      | .ok rtx =>
        let w1 : World := { ledger := { events := w.ledger.events ++ [.reverted id at_] },
                            store := markReverted w.store id at_ }
        commit w1 at_ (rtx.timestamp.getD at_) rtx.postings "" rtx.metadata [] false
  | .saveMeta at_ target md =>
    match target with
    | .tx id =>
      if (findTx w.ledger.txs id).isNone then (w, .notFound)
      else ({ w with ledger := { events := w.ledger.events ++ [.metaWrite ⟨target, at_, .save md⟩] } }, .ok)
    | .account a =>
      ({ ledger := { events := w.ledger.events ++ [.metaWrite ⟨target, at_, .save md⟩] },
         store := { w.store with accounts := upsertAccount w.store.accounts a none at_ md } }, .ok)
  | .deleteMeta at_ target key =>
    match target with
    | .tx id =>
      if (findTx w.ledger.txs id).isNone then (w, .notFound)
      else ({ w with ledger := { events := w.ledger.events ++ [.metaWrite ⟨target, at_, .delete key⟩] } }, .ok)
    | .account a =>
      ({ ledger := { events := w.ledger.events ++ [.metaWrite ⟨target, at_, .delete key⟩] },
         store := { w.store with accounts := match w.store.accounts.get? a with
                      | some r => w.store.accounts.insert a { r with metadata := r.metadata.erase key }
                      | none => w.store.accounts } }, .ok)

def World.run (w : World) : List Op → World × List Outcome
  | [] => (w, [])
  | o :: os =>
    let (w1, r) := w.step o
    let (w2, rs) := w1.run os
    (w2, r :: rs)

/-- All accounts the journal mentions (sorted, deduplicated). -/
def Ledger.accounts (l : Ledger) : List String :=
  (l.events.foldl (fun (m : Map String Unit) e =>
    match e with
    | .committed t am true =>
      let m1 := t.postings.foldl (fun m p => (m.insert p.source ()).insert p.destination ()) m
      am.foldl (fun m e => m.insert e.1 ()) m1
    | .metaWrite { target := .account a, change := .save _, .. } => m.insert a ()
    | _ => m) []).keys

/-- C04's invariant as a decidable check on a moves table (`Spec/Pcev.lean`). -/
def pcevInvB (moves : List MoveRow) : Bool := pcevInvCheck moves

end Ledger.Spec
