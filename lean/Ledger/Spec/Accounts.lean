import Ledger.Spec.Store

/-!
Account existence / first usage / insertion date as folds over the committed transactions
(C18, algebra part), to be related to the `accounts` table of the abstract store.
-/
namespace Ledger.Spec
open Ledger.Base Ledger.Core

/-- The transaction touches the account's row: it upserts its accounts (creation / import,
    not the revert path) and has the account as source or destination of a posting, or
    carries metadata for it. -/
def TxIn.involves (t : TxIn) (a : String) : Bool :=
  t.upsertAccounts &&
    (t.postings.any (fun p => p.source == a || p.destination == a) || t.accountMetadata.contains a)

/-- `(first_usage, insertion_date)` after one more committed transaction. -/
def datesStep (a : String) (cur : Option (Int × Int)) (t : TxIn) : Option (Int × Int) :=
  if t.involves a then
    match cur with
    | none => some (t.timestamp, t.insertedAt)
    | some (fu, ins) => some (if t.timestamp < fu then t.timestamp else fu, ins)
  else cur

/-- `none` = the account does not exist; otherwise (earliest effective timestamp among the
    transactions involving it, insertion date of the first such transaction). -/
def datesOf (h : List TxIn) (a : String) : Option (Int × Int) := h.foldl (datesStep a) none

/-- The store operation touches the account's row. -/
def StoreOp.touches (o : StoreOp) (a : String) : Bool :=
  match o with
  | .commit t => t.involves a
  | .saveAccountMeta a' _ _ => a' == a
  | _ => false

/-- `(first_usage, insertion_date)` after one more store operation: a commit involving the
    account lowers / creates (`datesStep`); metadata saved on it creates it when absent, with
    both dates = the write's date, and leaves the dates of an existing account alone. -/
def accountEventStep (a : String) (cur : Option (Int × Int)) : StoreOp → Option (Int × Int)
  | .commit t => datesStep a cur t
  | .saveAccountMeta a' at_ _ =>
    if a' = a then (match cur with | none => some (at_, at_) | some c => some c) else cur
  | _ => cur

def datesOfOps (ops : List StoreOp) (a : String) : Option (Int × Int) := ops.foldl (accountEventStep a) none

def AccountRow.dates (r : AccountRow) : Int × Int := (r.firstUsage, r.insertionDate)

end Ledger.Spec
