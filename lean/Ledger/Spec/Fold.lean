import Ledger.Core.Revert

/-!
The abstract reference ledger ("Spec"), part 1: the committed history and every
read as a *fold over the committed history*.

State = the list of committed transactions in commit order + the list of metadata
events.  Nothing here mentions tables, upserts or triggers.
-/
namespace Ledger.Spec
open Ledger.Base Ledger.Core

/-- A committed transaction (times in microseconds). -/
structure TxRec where
  id : Nat
  postings : List Posting
  /-- effective date -/
  timestamp : Int
  /-- insertion date -/
  insertedAt : Int
  reference : String := ""
  metadata : Metadata := []
  revertedAt : Option Int := none
  deriving DecidableEq, Repr, Inhabited

inductive Target where
  | account (address : String)
  | tx (id : Nat)
  deriving DecidableEq, Repr, Inhabited

inductive MetaChange where
  /-- `metadata || m` -/
  | save (m : Metadata)
  /-- `metadata - key` -/
  | delete (key : String)
  deriving DecidableEq, Repr, Inhabited

structure MetaEvent where
  target : Target
  date : Int
  change : MetaChange
  deriving DecidableEq, Repr, Inhabited

/-- One committed write, in commit order.  The Spec state is just the list of these. -/
inductive Event where
  /-- a transaction was committed (`revertedAt = none`), with the account metadata it carried;
      `upsertsAccounts = false` for the transaction a revert commits (that path does not run
      `upsertTransactionAccounts`, so it never creates accounts nor lowers a first usage) -/
  | committed (t : TxRec) (accountMeta : Map String Metadata) (upsertsAccounts : Bool)
  /-- transaction `id` was marked reverted at `at_` (its revert transaction is a separate `committed`) -/
  | reverted (id : Nat) (at_ : Int)
  /-- metadata saved / deleted on an account or a transaction -/
  | metaWrite (e : MetaEvent)
  deriving Repr, Inhabited

/-- The abstract reference ledger: the journal of committed writes. -/
structure Ledger where
  events : List Event := []
  deriving Repr, Inhabited

def markRevertedIn (txs : List TxRec) (id : Nat) (at_ : Int) : List TxRec :=
  txs.map fun t => if t.id = id ∧ t.revertedAt = none then { t with revertedAt := some at_ } else t

/-- The committed transactions in commit order, with their `revertedAt` marks. -/
def txsOf : List Event → List TxRec → List TxRec
  | [], acc => acc
  | .committed t _ _ :: es, acc => txsOf es (acc ++ [t])
  | .reverted id a :: es, acc => txsOf es (markRevertedIn acc id a)
  | .metaWrite _ :: es, acc => txsOf es acc

def Ledger.txs (l : Ledger) : List TxRec := txsOf l.events []

/-! ### sums over postings -/

/-- Σ amounts of the postings crediting `k = (account, asset)`. -/
def inSum (k : Key) : List Posting → Int
  | [] => 0
  | p :: ps => (if p.dstKey = k then p.amount else 0) + inSum k ps

/-- Σ amounts of the postings debiting `k`. -/
def outSum (k : Key) : List Posting → Int
  | [] => 0
  | p :: ps => (if p.srcKey = k then p.amount else 0) + outSum k ps

/-- Σ amounts of the postings in `asset`. -/
def assetTotal (asset : String) : List Posting → Int
  | [] => 0
  | p :: ps => (if p.asset = asset then p.amount else 0) + assetTotal asset ps

/-- Some posting has `k` as source or destination side. -/
def touches (k : Key) (ps : List Posting) : Bool := ps.any (fun p => p.srcKey = k || p.dstKey = k)

/-- The fold: (Σ crediting, Σ debiting). -/
def foldVolumes (k : Key) (ps : List Posting) : Volumes := ⟨inSum k ps, outSum k ps⟩

/-- All postings of a list of transactions, in commit then posting order. -/
def allPostings : List TxRec → List Posting
  | [] => []
  | t :: ts => t.postings ++ allPostings ts


/-! ### sums over a volumes table -/

/-- Σ of the inputs of the rows in asset `s`. -/
def inputsIn (s : String) (m : PCV) : Int := Map.sumBy (fun k v => if k.2 = s then v.input else 0) m
/-- Σ of the outputs of the rows in asset `s`. -/
def outputsIn (s : String) (m : PCV) : Int := Map.sumBy (fun k v => if k.2 = s then v.output else 0) m
/-- Σ over the rows in asset `s` of `input − output` (the sum of all balances in `s`). -/
def netIn (s : String) (m : PCV) : Int := Map.sumBy (fun k v => if k.2 = s then v.input - v.output else 0) m

/-- Σ over a list of accounts of an integer measure. -/
def sumOver (accts : List String) (f : String → Int) : Int := (accts.map f).sum

/-! ### running volumes (the reference for moves) -/

/-- The moves a reader expects: walk the postings in order from the volumes `m` the
    touched accounts had before the transaction; posting `j` first adds its amount to
    the source's output — the source move records the source's volumes at that point —
    then to the destination's input — the destination move records the destination's
    volumes at that point. -/
def runningMoves : PCV → List Posting → Except Err (List Move)
  | _, [] => .ok []
  | m, p :: ps =>
    match PCV.addOutput m p.source p.asset p.amount with
    | .error e => .error e
    | .ok m1 =>
      match m1.get? p.srcKey with
      | none => .error .nilDeref
      | some vs =>
        match PCV.addInput m1 p.destination p.asset p.amount with
        | .error e => .error e
        | .ok m2 =>
          match m2.get? p.dstKey with
          | none => .error .nilDeref
          | some vd =>
            match runningMoves m2 ps with
            | .error e => .error e
            | .ok rest =>
              .ok ({ account := p.source, asset := p.asset, amount := p.amount, isSource := true, pcv := vs } ::
                   { account := p.destination, asset := p.asset, amount := p.amount, isSource := false, pcv := vd } ::
                   rest)

/-- Volumes after applying the postings in order (touched entries must exist). -/
def applyPostings : PCV → List Posting → Except Err PCV
  | m, [] => .ok m
  | m, p :: ps =>
    match PCV.addOutput m p.source p.asset p.amount with
    | .error e => .error e
    | .ok m1 =>
      match PCV.addInput m1 p.destination p.asset p.amount with
      | .error e => .error e
      | .ok m2 => applyPostings m2 ps

/-! ### current reads -/

def volumesOf (txs : List TxRec) (k : Key) : Volumes := foldVolumes k (allPostings txs)
def balanceOf (txs : List TxRec) (k : Key) : Int := (volumesOf txs k).balance

/-! ### point-in-time / window reads -/

inductive DateMode where
  /-- `insertion_date` (UseInsertionDate) -/
  | insertion
  /-- `effective_date` (transaction timestamp) -/
  | effective
  deriving DecidableEq, Repr, Inhabited

/-- `oot ≤ d ≤ pit`, each bound optional, both inclusive. -/
structure Window where
  oot : Option Int := none
  pit : Option Int := none
  deriving DecidableEq, Repr, Inhabited

def Window.contains (w : Window) (d : Int) : Bool :=
  (match w.oot with | none => true | some o => decide (o ≤ d)) &&
  (match w.pit with | none => true | some p => decide (d ≤ p))

def TxRec.date (mode : DateMode) (t : TxRec) : Int :=
  match mode with
  | .insertion => t.insertedAt
  | .effective => t.timestamp

def txsIn (txs : List TxRec) (w : Window) (mode : DateMode) : List TxRec :=
  txs.filter (fun t => w.contains (t.date mode))

/-- Volumes restricted to the transactions whose date lies in the window. -/
def volumesAt (txs : List TxRec) (w : Window) (mode : DateMode) (k : Key) : Volumes :=
  volumesOf (txsIn txs w mode) k

def balanceAt (txs : List TxRec) (w : Window) (mode : DateMode) (k : Key) : Int :=
  (volumesAt txs w mode k).balance

/-! ### accounts -/

def TxRec.involves (t : TxRec) (a : String) : Bool :=
  t.postings.any (fun p => p.source == a || p.destination == a)

/-- `(first_usage, insertion_date)` of an account, `none` = the account does not exist.
    A transaction involving the account (or carrying metadata for it) lowers `first_usage` to
    its timestamp and creates the account at its insertion date; metadata saved directly on a
    not-yet-existing account creates it with both dates = the write's date, and leaves an
    existing account's dates alone. -/
def accountDatesStep (a : String) (cur : Option (Int × Int)) : Event → Option (Int × Int)
  | .committed t am up =>
    if up && (t.involves a || am.contains a) then
      match cur with
      | none => some (t.timestamp, t.insertedAt)
      | some (fu, ins) => some (if t.timestamp < fu then t.timestamp else fu, ins)
    else cur
  | .metaWrite { target := .account a', date := d, change := .save _ } =>
    if a' = a then (match cur with | none => some (d, d) | some c => some c) else cur
  | _ => cur

def accountDates (l : Ledger) (a : String) : Option (Int × Int) :=
  l.events.foldl (accountDatesStep a) none

def firstUsage (l : Ledger) (a : String) : Option Int := (accountDates l a).map (·.1)
def insertionDate (l : Ledger) (a : String) : Option Int := (accountDates l a).map (·.2)

/-- accounts existing at point in time `t`: `first_usage ≤ t` -/
def accountExistsAt (l : Ledger) (a : String) (t : Int) : Bool :=
  match firstUsage l a with
  | some fu => decide (fu ≤ t)
  | none => false

/-! ### metadata -/

def applyChange (m : Metadata) : MetaChange → Metadata
  | .save kv => kv.foldl (fun acc e => acc.insert e.1 e.2) m
  | .delete key => m.erase key

def metaStep (target : Target) (t : Option Int) (m : Metadata) : Event → Metadata
  | .committed tx am _ =>
    let inTime := match t with | none => true | some t => decide (tx.insertedAt ≤ t)
    if !inTime then m else
    match target with
    | .tx id => if tx.id = id then applyChange m (.save tx.metadata) else m
    | .account a => match am.get? a with
      | some kv => applyChange m (.save kv)
      | none => m
  | .metaWrite e =>
    let inTime := match t with | none => true | some t => decide (e.date ≤ t)
    if e.target = target && inTime then applyChange m e.change else m
  | .reverted _ _ => m

/-- `date ≤ t`, with `t = none` meaning "no point in time" -/
def inTime (t : Option Int) (date : Int) : Bool :=
  match t with
  | none => true
  | some t => decide (date ≤ t)

/-- The `transactions_metadata` history of transaction `id` (feature
    TRANSACTION_METADATA_HISTORY = SYNC), as the pair (current metadata, metadata of the
    highest revision dated `≤ t`).  Revisions are full snapshots:
    * revision 1 is written by `insert_transaction_metadata_history` and dated with the
      transaction's **timestamp** (effective date), not its insertion date;
    * every later `UPDATE` of the row that goes through — a metadata save that changes
      something, a delete of an existing key, and also a **revert** (the per-ledger trigger is
      `AFTER UPDATE`, not `AFTER UPDATE OF metadata`) — appends a revision dated `updated_at`
      (the write's date) holding the whole metadata;
    * a point-in-time read takes the highest revision with `date ≤ pit`
      (`DISTINCT ON (transactions_id) … ORDER BY revision DESC`), `{}` when there is none. -/
def txMetaStep (id : Nat) (t : Option Int) (st : Metadata × Option Metadata) : Event → Metadata × Option Metadata
  | .committed tx _ _ =>
    if tx.id = id then
      let m := applyChange [] (.save tx.metadata)
      (m, if inTime t tx.timestamp then some m else st.2)
    else st
  | .reverted id' a => if id' = id then (st.1, if inTime t a then some st.1 else st.2) else st
  | .metaWrite e =>
    if e.target = .tx id then
      let m := applyChange st.1 e.change
      if m = st.1 then st else (m, if inTime t e.date then some m else st.2)
    else st

/-- Metadata of `target` as of `t` (`none` = now).  Accounts: the fold of the writes dated
    `≤ t` (their revisions are dated with the write's date, which never decreases).
    Transactions: the highest `transactions_metadata` revision dated `≤ t` (see `txMetaStep`). -/
def metaAt (l : Ledger) (target : Target) (t : Option Int) : Metadata :=
  match target with
  | .account _ => l.events.foldl (metaStep target t) []
  | .tx id =>
    let r := l.events.foldl (txMetaStep id t) ([], none)
    match t with
    | none => r.1
    | some _ => r.2.getD []

/-- Transaction as seen at `t`: present iff `timestamp ≤ t`; reverted iff `revertedAt ≤ t`. -/
def txAt (t : Int) (tx : TxRec) : Option TxRec :=
  if tx.timestamp ≤ t then
    some { tx with revertedAt := match tx.revertedAt with
                                 | some r => if r ≤ t then some r else none
                                 | none => none }
  else none

end Ledger.Spec
