import Ledger.Spec.Store

/-!
C04's invariant on the `moves` table: every move's post-commit *effective* volumes are the
sum of the deltas of the moves of the same account/asset that are not after it in
`(effective_date, seq)` order.
-/
namespace Ledger.Spec
open Ledger.Base Ledger.Core

/-- `(effective_date, seq)` of `a` is ≤ that of `b`, lexicographically. -/
def MoveRow.notAfter (a b : MoveRow) : Bool :=
  decide (a.effectiveDate < b.effectiveDate) ||
  (decide (a.effectiveDate = b.effectiveDate) && decide (a.seq ≤ b.seq))

/-- `m'` counts for the effective volumes of `m`. -/
def MoveRow.countsFor (m m' : MoveRow) : Bool := m'.key == m.key && m'.notAfter m

def sumDeltas (l : List MoveRow) : Volumes := l.foldl (fun acc m => acc.add m.delta) Volumes.zero

def PCEV_Inv (table : List MoveRow) : Prop :=
  ∀ m ∈ table, m.pcev = sumDeltas (table.filter (MoveRow.countsFor m))

/-- Decidable form. -/
def pcevInvCheck (table : List MoveRow) : Bool :=
  table.all fun m => m.pcev == sumDeltas (table.filter (MoveRow.countsFor m))

/-- The rows of one `INSERT INTO moves` of a transaction: one effective date, sequence numbers
    increasing and above every existing one. -/
structure FreshBatch (table news : List MoveRow) (e : Int) : Prop where
  eff : ∀ r ∈ news, r.effectiveDate = e
  above : ∀ m ∈ table, ∀ r ∈ news, m.seq < r.seq
  increasing : news.Pairwise (fun a b => a.seq < b.seq)

/-- The transactions that are not after `T` in (effective timestamp, id) order: earlier
    timestamp, or the same timestamp and inserted before (or `T` itself). -/
def notAfterTx (T : TxRec) (t : TxRec) : Bool :=
  decide (t.timestamp < T.timestamp) || (decide (t.timestamp = T.timestamp) && decide (t.id ≤ T.id))

end Ledger.Spec
