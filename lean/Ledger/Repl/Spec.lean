import Ledger.Repl.Model

/-!
Specification vocabulary for C33 (core-only): what "in order, no gaps" means for
the list of received batches, the configurations in which the safety part holds,
and the invariants proved in `Ledger/Proofs/Repl*.lean`.
-/
namespace Ledger.Repl

/-- `Chain bs hw`: `bs` (newest first) is what an exporter may see between two
    resets: every batch `(lo, hi]` is non-empty and starts at most right after the
    highest id received before it (`lo ≤ hw`: a first delivery continues without a
    gap, a redelivery restarts at an id already received); `hw` is the highest id
    received. The very first batch therefore starts at id 1 (`lo = 0`). -/
inductive Chain : List (Nat × Nat) → Nat → Prop
  | nil : Chain [] 0
  | cons {bs : List (Nat × Nat)} {hw lo hi : Nat} :
      Chain bs hw → lo ≤ hw → lo < hi → Chain ((lo, hi) :: bs) (max hw hi)

/-- log `k` is in one of the received batches -/
def Delivered (s : State) (k : Nat) : Prop := ∃ b ∈ s.recv, b.1 < k ∧ k ≤ b.2

/-- log `k` was acknowledged by the exporter itself (item level) since the last reset -/
def Acked (s : State) (k : Nat) : Prop := k ∈ s.acked

/-- every log up to `n` was acknowledged item by item since the last reset -/
def AckedUpTo (s : State) (n : Nat) : Prop := ∀ k, 1 ≤ k → k ≤ n → k ∈ s.acked

/-- Every page goes to the exporter in ONE call (no `maxItems`, or `maxItems` at
    least the page size): the configurations where "in order, no gaps" holds. -/
def SingleChunk (c : Cfg) : Prop := c.maxItems = 0 ∨ c.ps ≤ c.maxItems

/-- Configurations where the safety theorems hold: the candidate fix, or no reset. -/
def Good (c : Cfg) : Prop := c.sync = true ∨ c.allowReset = false

/-- The batch a handler holds was fetched right after its cursor, from existing logs. -/
def PcOk (nLogs : Nat) (h : Handler) : Prop :=
  match h.pc with
  | .exporting lo hi _ pos _ _ => lo = h.last ∧ lo < hi ∧ hi ≤ nLogs ∧ lo ≤ pos ∧ pos < hi
  | .retry lo hi _ => lo = h.last ∧ lo < hi ∧ hi ≤ nLogs
  | _ => True

/-- Control-structure facts, true in every configuration. -/
structure WF (s : State) : Prop where
  pcOk : ∀ h, s.handler = some h → PcOk s.nLogs h
  /-- a handler blocked on the channel send has a busy persister -/
  sendingBusy : ∀ h m, s.handler = some h → h.pc = .sending m → s.cur ≠ none
  /-- a persister belongs to a running handler -/
  curNone : s.handler = none → s.cur = none
  /-- an operation waits iff the handler has an unnoticed stop signal -/
  pendingStop : s.pending ≠ none → ∃ h, s.handler = some h ∧ h.stopReq = true
  stopPending : ∀ h, s.handler = some h → h.stopReq = true →
    s.pending ≠ none ∧ (h.pc = .atFetch ∨ ∃ m, h.pc = .sending m)
  /-- handlers exist only for a created pipeline under a running manager -/
  handlerUp : s.handler ≠ none → s.mgrUp = true ∧ s.created = true

/-- The batcher's acknowledgement rule, as an invariant of every configuration:
    while a page is being exported and no item has failed so far (`bad = false`),
    everything that went through the exporter was acknowledged item by item. -/
def Clean (s : State) : Prop :=
  ∀ h lo hi m pos g, s.handler = some h → h.pc = .exporting lo hi m pos false g →
    ∀ k, lo < k → k ≤ pos → k ∈ s.acked

/-- A page is at most `ps` logs; with a single chunk per page nothing has been
    sent before the chunk. -/
def ExpOk (c : Cfg) (h : Handler) : Prop :=
  match h.pc with
  | .exporting lo hi _ pos _ _ => hi ≤ lo + c.ps ∧ (SingleChunk c → pos = lo)
  | .retry lo hi _ => hi ≤ lo + c.ps
  | _ => True

/-- Safety invariant (needs `Good c`). -/
structure Inv (c : Cfg) (s : State) : Prop where
  syncOrph : c.sync = true → s.orphans = []
  noResetPending : c.allowReset = false → s.pending ≠ some .reset
  persisted_le : s.persisted ≤ s.ackHW
  cur_le : ∀ v, s.cur = some v → v ≤ s.ackHW
  orph_le : ∀ v ∈ s.orphans, v ≤ s.ackHW
  last_le : ∀ h, s.handler = some h → h.last ≤ s.ackHW
  ack_le : s.ackHW ≤ s.delivHW
  deliv_le : s.delivHW ≤ s.nLogs
  /-- the pages `Accept` reported as acknowledged were acknowledged item by item -/
  ackedPre : AckedUpTo s s.ackHW
  expOk : ∀ h, s.handler = some h → ExpOk c h
  chain : SingleChunk c → Chain s.recv s.delivHW

/-- The state right after `UpdatePipeline(last_log_id = NULL)` took effect: cursor
    cleared, nothing received or acknowledged in the new epoch, a (re)started
    handler begins before the first log. -/
def Fresh (s : State) : Prop :=
  s.persisted = 0 ∧ s.recv = [] ∧ s.delivHW = 0 ∧ s.ackHW = 0 ∧ s.acked = [] ∧ s.cur = none ∧
    ∀ h, s.handler = some h → h.last = 0 ∧ h.pc = .atFetch ∧ h.stopReq = false

/-- Labels of the failure-free internal activity of a running pipeline. -/
def Label.progress : Label → Bool
  | .fetch true => true
  | .accept .ok => true
  | .persist _ true _ => true
  | .tick => true
  | _ => false

/-- …plus the operations that bring a stopped pipeline / manager back. -/
def Label.recovery : Label → Bool
  | .sync => true
  | .mgrStart => true
  | l => l.progress

/-! ### the reset race: witness schedules (used by `Ledger.Props.C33`) -/

/-- Minimal schedule (any page size ≥ 2 behaves the same; 100 is the default; no
    `maxItems`: the batcher flushes the page on its timer = `tick`). -/
def raceTrace : List Label :=
  [.append 2, .create, .fetch true, .tick, .accept .ok, .reset, .persist 0 true false]

def raceTrace2 : List Label :=
  raceTrace ++ [.stop, .fetch true, .start, .append 1, .fetch true, .tick, .accept .ok]

/-- the state `raceTrace2` leads to in `Cfg.real 100` -/
def raceState2 : State :=
  { nLogs := 3, created := true, persisted := 2, mgrUp := true,
    handler := some { pc := .idle, last := 3, stopReq := false, zero := false },
    cur := some 3, orphans := [], pending := none, recv := [(2, 3)], delivHW := 3, ackHW := 3,
    acked := [3], resets := 1, gen := 3 }

/-- the batcher goes on after a failed chunk (`maxItems = 2`, page of 4): the
    exporter receives 3,4 although it never saw 1,2 -/
def chunkGapTrace : List Label :=
  [.append 4, .create, .fetch true, .accept .fail, .accept .ok]


end Ledger.Repl
