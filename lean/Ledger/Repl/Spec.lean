import Ledger.Repl.Model

/-!
Specification vocabulary for C33 (core-only): what "in order, no gaps" means for
the list of received batches, the configurations in which the safety part holds,
and the invariants proved in `Ledger/Proofs/Repl*.lean`.
-/
namespace Ledger.Repl

/-- `Chain bs hw`: `bs` (newest first) is what an exporter may see between two
    resets: every batch `(lo, hi]` is non-empty and starts at most right after the
    highest id received before it (`lo ≤ hw`: a first delivery continues without a
    gap, a redelivery restarts at an id already received); `hw` is the highest id
    received. The very first batch therefore starts at id 1 (`lo = 0`). -/
inductive Chain : List (Nat × Nat) → Nat → Prop
  | nil : Chain [] 0
  | cons {bs : List (Nat × Nat)} {hw lo hi : Nat} :
      Chain bs hw → lo ≤ hw → lo < hi → Chain ((lo, hi) :: bs) (max hw hi)

/-- log `k` is in one of the received batches -/
def Delivered (s : State) (k : Nat) : Prop := ∃ b ∈ s.recv, b.1 < k ∧ k ≤ b.2

/-- Configurations where the safety theorems hold: the candidate fix, or no reset. -/
def Good (c : Cfg) : Prop := c.sync = true ∨ c.allowReset = false

/-- The batch a handler holds was fetched right after its cursor, from existing logs. -/
def PcOk (nLogs : Nat) (h : Handler) : Prop :=
  match h.pc with
  | .exporting lo hi _ => lo = h.last ∧ lo < hi ∧ hi ≤ nLogs
  | .retry lo hi _ => lo = h.last ∧ lo < hi ∧ hi ≤ nLogs
  | _ => True

/-- Control-structure facts, true in every configuration. -/
structure WF (s : State) : Prop where
  pcOk : ∀ h, s.handler = some h → PcOk s.nLogs h
  /-- a handler blocked on the channel send has a busy persister -/
  sendingBusy : ∀ h m, s.handler = some h → h.pc = .sending m → s.cur ≠ none
  /-- a persister belongs to a running handler -/
  curNone : s.handler = none → s.cur = none
  /-- an operation waits iff the handler has an unnoticed stop signal -/
  pendingStop : s.pending ≠ none → ∃ h, s.handler = some h ∧ h.stopReq = true
  stopPending : ∀ h, s.handler = some h → h.stopReq = true →
    s.pending ≠ none ∧ (h.pc = .atFetch ∨ ∃ m, h.pc = .sending m)
  /-- handlers exist only for a created pipeline under a running manager -/
  handlerUp : s.handler ≠ none → s.mgrUp = true ∧ s.created = true

/-- Safety invariant (needs `Good c`). -/
structure Inv (c : Cfg) (s : State) : Prop where
  syncOrph : c.sync = true → s.orphans = []
  noResetPending : c.allowReset = false → s.pending ≠ some .reset
  persisted_le : s.persisted ≤ s.ackHW
  cur_le : ∀ v, s.cur = some v → v ≤ s.ackHW
  orph_le : ∀ v ∈ s.orphans, v ≤ s.ackHW
  last_le : ∀ h, s.handler = some h → h.last ≤ s.ackHW
  ack_le : s.ackHW ≤ s.delivHW
  deliv_le : s.delivHW ≤ s.nLogs
  chain : Chain s.recv s.delivHW

/-- The state right after `UpdatePipeline(last_log_id = NULL)` took effect: cursor
    cleared, nothing received or acknowledged in the new epoch, a (re)started
    handler begins before the first log. -/
def Fresh (s : State) : Prop :=
  s.persisted = 0 ∧ s.recv = [] ∧ s.delivHW = 0 ∧ s.ackHW = 0 ∧ s.cur = none ∧
    ∀ h, s.handler = some h → h.last = 0 ∧ h.pc = .atFetch ∧ h.stopReq = false

/-- Labels of the failure-free internal activity of a running pipeline. -/
def Label.progress : Label → Bool
  | .fetch true => true
  | .accept .ok => true
  | .persist _ true _ => true
  | .tick => true
  | _ => false

/-- …plus the operations that bring a stopped pipeline / manager back. -/
def Label.recovery : Label → Bool
  | .sync => true
  | .mgrStart => true
  | l => l.progress

/-! ### the reset race: witness schedules (used by `Ledger.Props.C33`) -/

/-- Minimal schedule (any page size ≥ 2 behaves the same; 100 is the default). -/
def raceTrace : List Label :=
  [.append 2, .create, .fetch true, .accept .ok, .reset, .persist 0 true false]

def raceTrace2 : List Label :=
  raceTrace ++ [.stop, .fetch true, .start, .append 1, .fetch true, .accept .ok]

/-- the state `raceTrace2` leads to in `Cfg.real 100` -/
def raceState2 : State :=
  { nLogs := 3, created := true, persisted := 2, mgrUp := true,
    handler := some { pc := .idle, last := 3, stopReq := false, zero := false },
    cur := some 3, orphans := [], pending := none, recv := [(2, 3)], delivHW := 3, ackHW := 3,
    resets := 1, gen := 3 }

end Ledger.Repl
