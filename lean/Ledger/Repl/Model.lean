/-!
# Log replication as a transition system (property C33)

Model of `internal/replication`: `Manager` ∥ `PipelineHandler.Run` ∥ the state
persister goroutine of `Manager.startPipeline` ∥ the exporter (`drivers.Driver`),
for ONE pipeline on ONE ledger. Goroutines are interleaved steps; a step is what
the real code does between two calls to `Storage` / `LogFetcher` / `Driver`
(exactly the points where the harness' gates sit); timers are the `tick` step.

What the code does (manager.go / pipeline.go at the pinned commit):

* the handler loops: `select {stop, timer}` → `ListLogs(id > lastLogID, pageSize)` →
  (empty: wait pull interval) → `Driver.Accept(batch)` in a goroutine, `select
  {result, stop}`; error → `select {stop, retry timer}` and the SAME batch again;
  success → `lastLogID := last id of the batch` → `ingestedLogs <- lastLogID`
  (unbuffered, NOT interruptible by stop) → next round (`HasMore` → timer 0);
* the persister `for v := range subscription { StorePipelineState(id, v) }` is a
  separate goroutine: the write happens some time after the handler moved on, and
  **nobody waits for it**: `stopPipeline` returns as soon as the handler goroutine
  acknowledged the stop signal, `ResetPipeline` then issues
  `UpdatePipeline(last_log_id = NULL)` and starts a new handler from the returned
  row; `Manager.Stop` waits for handler goroutines only;
* `StartPipeline` / `synchronizePipelines` (manager start, periodic sync) read the
  row (`last_log_id`) and start a handler from it; in-memory state is lost on stop.

* between the handler and the exporter sits the real `drivers.Batcher` (production
  wiring `NewWithBatchingDriverFactory`): `Batcher.Accept` sends the logs of the
  page one by one to the batcher loop, which calls the exporter with chunks of
  `maxItems` logs (an incomplete last chunk when its flush timer fires; no
  `maxItems`: the whole page on the timer). It never stops after a failed chunk.
  `Batcher.commit`: a whole-call error fails every item of the chunk, otherwise an
  item fails iff its own entry in the exporter's error slice is non-nil;
  `Batcher.Accept` returns nil iff no item of the page failed. So an exporter
  call is the step `accept`, and the cursor moves only after a page without any
  failed item (`Pc.exporting … pos bad gate`).

Log ids of the ledger are `1..nLogs` (visible in id order — that is property C16's
business; the handler's `id > lastLogID` filter relies on it). A batch is the
half-open interval `(lo, hi]`, i.e. ids `lo+1 … hi`. `0` stands for SQL `NULL` /
Go `nil` in `last_log_id` (ids start at 1).

`Cfg.sync` and `Cfg.allowReset` do not exist in the code: the code is
`sync := false, allowReset := true`. `sync := true` is the candidate fix (stopping
a pipeline waits for its persister to drain); `allowReset := false` removes the
`ResetPipeline` operation. They delimit where the safety theorems hold.
-/
namespace Ledger.Repl

structure Cfg where
  /-- `LogsPageSize` -/
  ps : Nat
  /-- hypothetical: `stopPipeline` waits until the persister goroutine is drained -/
  sync : Bool
  /-- `ResetPipeline` is available -/
  allowReset : Bool
  /-- `batching.maxItems` of the exporter configuration (0 = unlimited: the
      batcher flushes on its interval only) -/
  maxItems : Nat := 0
  deriving Repr, DecidableEq

/-- the code as it is -/
def Cfg.real (ps : Nat) (maxItems : Nat := 0) : Cfg :=
  { ps := ps, sync := false, allowReset := true, maxItems := maxItems }

/-- Where the handler goroutine is blocked. -/
inductive Pc
  /-- top `select {stop, timer(pull interval)}` -/
  | idle
  /-- inside `ListLogs` -/
  | atFetch
  /-- `select {stop, timer}` after a `ListLogs` error; then the top `select`
      with the `nextInterval` left by the previous round -/
  | fetchErr
  /-- `Accept(lo+1..hi)` in flight, handler in `select {result, stop}`. The real
      `drivers.Batcher` cuts the page into exporter calls of `maxItems` logs:
      ids `≤ pos` went through the exporter already, `bad`: one of them came
      back with an error (whole call or its own item error), `gate`: the next
      chunk is inside the exporter call (`false`: it is incomplete and waits for
      the batcher's flush timer) -/
  | exporting (lo hi : Nat) (more : Bool) (pos : Nat) (bad gate : Bool)
  /-- `select {stop, retry timer}` after an `Accept` error; same batch next -/
  | retry (lo hi : Nat) (more : Bool)
  /-- blocked in `ingestedLogs <- lastLogID` (persister busy); no stop possible -/
  | sending (more : Bool)
  deriving Repr, DecidableEq

structure Handler where
  pc : Pc
  /-- `p.pipeline.LastLogID` (in memory) -/
  last : Nat
  /-- a `Shutdown` signal sits in `stopChannel`, not yet noticed -/
  stopReq : Bool
  /-- `nextInterval == 0`: the top `select` fires at once (start, or `HasMore`) -/
  zero : Bool
  deriving Repr, DecidableEq

/-- manager operations that have to wait for the handler to notice the stop -/
inductive Op
  | stop | reset | mgrStop
  deriving Repr, DecidableEq

structure State where
  /-- committed logs of the ledger: ids `1..nLogs` -/
  nLogs : Nat
  /-- the `_system.pipelines` row exists -/
  created : Bool
  /-- column `last_log_id` (0 = NULL) -/
  persisted : Nat
  /-- a manager process runs -/
  mgrUp : Bool
  /-- the running handler goroutine, if any (`m.pipelines[id]`) -/
  handler : Option Handler
  /-- value the running handler's persister is about to write (`StorePipelineState` in flight) -/
  cur : Option Nat
  /-- in-flight `StorePipelineState` values of persisters whose handler is gone, oldest first -/
  orphans : List Nat
  /-- operation waiting inside `handler.Shutdown` -/
  pending : Option Op
  /-- ghost: batches the exporter received since the last reset, newest first -/
  recv : List (Nat × Nat)
  /-- ghost: highest id the exporter received since the last reset -/
  delivHW : Nat
  /-- ghost: highest id of a page `Accept` reported as fully acknowledged since the last reset -/
  ackHW : Nat
  /-- ghost: ids the exporter acknowledged ITEM BY ITEM (its own error nil in a
      call without whole-call error) since the last reset -/
  acked : List Nat
  /-- ghost: number of `UpdatePipeline(last_log_id = NULL)` executed -/
  resets : Nat
  /-- ghost: number of handlers started -/
  gen : Nat
  deriving Repr, DecidableEq

def State.init : State :=
  { nLogs := 0, created := false, persisted := 0, mgrUp := true, handler := none, cur := none,
    orphans := [], pending := none, recv := [], delivHW := 0, ackHW := 0, acked := [], resets := 0,
    gen := 0 }

inductive AcceptRes
  /-- batch received and acknowledged -/
  | ok
  /-- nothing received, error returned -/
  | fail
  /-- batch received, acknowledgement lost (error returned) -/
  | lost
  /-- call succeeds, item number `off` (mod chunk length) comes back with an
      item-level error and is not stored; the other items are acknowledged -/
  | reject (off : Nat)
  deriving Repr, DecidableEq

def AcceptRes.isOk : AcceptRes → Bool
  | .ok => true
  | _ => false

inductive Label
  /-- `n` new logs committed -/
  | append (n : Nat)
  | create | start | stop | reset | sync | mgrStop | mgrStart
  /-- the pending `ListLogs` executes (`ok = false`: it fails) -/
  | fetch (ok : Bool)
  /-- the pending exporter call (one chunk) executes -/
  | accept (r : AcceptRes)
  /-- the `i`-th pending `StorePipelineState` (orphans first, then the running
      persister) executes; `ok = false`: it fails. `coin` resolves Go's random
      `select` when both the stop signal and a zero timer are ready. -/
  | persist (i : Nat) (ok : Bool) (coin : Bool)
  /-- the pending timer fires: the handler's, or the batcher's flush timer -/
  | tick
  deriving Repr, DecidableEq

/-- `NewPipelineHandler` + `go handler.Run` + `go persister`: first round has timer 0. -/
def startHandler (s : State) (last : Nat) : State :=
  { s with handler := some { pc := .atFetch, last := last, stopReq := false, zero := true }, gen := s.gen + 1 }

/-- `UpdatePipeline(enabled = true, last_log_id = NULL)`; a new export epoch begins. -/
def resetRow (s : State) : State :=
  { s with persisted := 0, recv := [], delivHW := 0, ackHW := 0, acked := [], resets := s.resets + 1 }

/-- What the waiting operation does once `Shutdown` returned. -/
def finishOp (s : State) : State :=
  match s.pending with
  | none => s
  | some .stop => { s with pending := none }
  | some .reset => startHandler (resetRow { s with pending := none }) 0
  | some .mgrStop => { s with pending := none, mgrUp := false }

/-- The handler goroutine returns. Its persister keeps going with what it holds
    (code as is), or is waited for (`sync`). -/
def exitHandler (c : Cfg) (s : State) : State :=
  match s.cur with
  | none => finishOp { s with handler := none }
  | some v =>
    if c.sync then
      finishOp { s with handler := none, cur := none, persisted := if s.created then v else s.persisted }
    else
      finishOp { s with handler := none, cur := none, orphans := s.orphans ++ [v] }

/-- The handler reaches a `select` that listens on `stopChannel`. -/
def atSelect (c : Cfg) (s : State) (h : Handler) (next : Pc) : State :=
  if h.stopReq then exitHandler c s else { s with handler := some { h with pc := next } }

/-- After `ingestedLogs <- lastLogID` went through: `HasMore` → timer 0 (a race
    with a waiting stop signal, resolved by `coin`), otherwise pull interval. -/
def afterSend (c : Cfg) (s : State) (h : Handler) (more coin : Bool) : State :=
  if more then
    if h.stopReq && coin then exitHandler c s
    else { s with handler := some { h with pc := .atFetch, zero := true } }
  else atSelect c s { h with zero := false } .idle

/-- `handler.Shutdown`: the signal is noticed at once in a `select`, later otherwise. -/
def requestStop (c : Cfg) (s : State) (h : Handler) : State :=
  match h.pc with
  | .atFetch => { s with handler := some { h with stopReq := true } }
  | .sending _ => { s with handler := some { h with stopReq := true } }
  | _ => exitHandler c s

def deliver (s : State) (lo hi : Nat) : State :=
  { s with recv := (lo, hi) :: s.recv, delivHW := max s.delivHW hi }

def ack (s : State) (hi : Nat) : State := { s with ackHW := max s.ackHW hi }

/-- ids `lo+1 … hi` -/
def idsOf (lo hi : Nat) : List Nat := List.range' (lo + 1) (hi - lo)

def ackItems (s : State) (ids : List Nat) : State := { s with acked := ids ++ s.acked }

/-- end of the chunk the batcher cuts off at `pos` -/
def chunkEnd (c : Cfg) (pos hi : Nat) : Nat :=
  if c.maxItems = 0 then hi else min (pos + c.maxItems) hi

/-- the chunk reaches `maxItems`: committed at once; otherwise on the flush timer -/
def chunkFull (c : Cfg) (pos hi : Nat) : Bool :=
  c.maxItems != 0 && decide (pos + c.maxItems ≤ hi)

/-- `Batcher.Accept(lo+1..hi)` starts: every log is sent to the batcher loop -/
def enterExport (c : Cfg) (lo hi : Nat) (more : Bool) : Pc :=
  .exporting lo hi more lo false (chunkFull c lo hi)

/-- one call of the exporter driver with the chunk `(a, b]` -/
def exporterCall (s : State) (a b : Nat) : AcceptRes → State
  | .ok => ackItems (deliver s a b) (idsOf a b)
  | .fail => s
  | .lost => deliver s a b
  | .reject off => ackItems (deliver s a b) ((idsOf a b).eraseIdx (off % (b - a)))

/-- `UPDATE … SET last_log_id = v WHERE id = …` -/
def write (ok : Bool) (v : Nat) (s : State) : State :=
  if ok && s.created then { s with persisted := v } else s

/-- `Accept` returned nil: the cursor moves to the end of the page and is handed
    to the persister (which may be busy). -/
def exportDone (c : Cfg) (s : State) (h : Handler) (hi : Nat) (more : Bool) : State :=
  match s.cur with
  | none => afterSend c { ack s hi with cur := some hi } { h with last := hi } more true
  | some _ => { ack s hi with handler := some { h with last := hi, pc := .sending more } }

def opsOpen (s : State) : Bool := s.mgrUp && s.pending.isNone

/-- One step. `none`: the label is not enabled in `s`. -/
def step (c : Cfg) (s : State) : Label → Option State
  | .append n => some { s with nLogs := s.nLogs + n }
  | .create =>
    if opsOpen s && !s.created then some (startHandler { s with created := true, persisted := 0 } 0)
    else none
  | .start =>
    if opsOpen s then
      if !s.created then some s
      else match s.handler with
        | some _ => some s
        | none => some (startHandler s s.persisted)
    else none
  | .stop =>
    if opsOpen s then
      match s.handler with
      | none => some s
      | some h => some (requestStop c { s with pending := some .stop } h)
    else none
  | .reset =>
    if opsOpen s && c.allowReset then
      if !s.created then some s
      else match s.handler with
        | none => some (resetRow s)
        | some h => some (requestStop c { s with pending := some .reset } h)
    else none
  | .sync =>
    if opsOpen s then
      if s.created && s.handler.isNone then some (startHandler s s.persisted) else some s
    else none
  | .mgrStop =>
    if opsOpen s then
      match s.handler with
      | none => some { s with mgrUp := false }
      | some h => some (requestStop c { s with pending := some .mgrStop } h)
    else none
  | .mgrStart =>
    if !s.mgrUp && s.pending.isNone then
      if s.created then some (startHandler { s with mgrUp := true } s.persisted)
      else some { s with mgrUp := true }
    else none
  | .fetch ok =>
    match s.handler with
    | none => none
    | some h =>
      match h.pc with
      | .atFetch =>
        if ok then
          if h.last < min (h.last + c.ps) s.nLogs then
            some (atSelect c s h (enterExport c h.last (min (h.last + c.ps) s.nLogs)
              (decide (h.last + c.ps < s.nLogs))))
          else some (atSelect c s { h with zero := false } .idle)
        else some (atSelect c s h .fetchErr)
      | _ => none
  | .accept r =>
    match s.handler with
    | none => none
    | some h =>
      match h.pc with
      | .exporting lo hi more pos bad true =>
        -- `Batcher.commit`: whole-call error → every item fails; otherwise an item
        -- fails iff its own error is non-nil. `Batcher.Accept` reports success iff
        -- no item of the page failed, and never stops sending after a failure.
        if chunkEnd c pos hi < hi then
          some { exporterCall s pos (chunkEnd c pos hi) r with
                 handler := some { h with pc := .exporting lo hi more (chunkEnd c pos hi) (bad || !r.isOk)
                                            (chunkFull c (chunkEnd c pos hi) hi) } }
        else if bad || !r.isOk then
          some (atSelect c (exporterCall s pos (chunkEnd c pos hi) r) h (.retry lo hi more))
        else some (exportDone c (exporterCall s pos (chunkEnd c pos hi) r) h hi more)
      | _ => none
  | .persist i ok coin =>
    if hi : i < s.orphans.length then
      some (write ok s.orphans[i] { s with orphans := s.orphans.eraseIdx i })
    else if i = s.orphans.length then
      match s.cur with
      | none => none
      | some v =>
        match s.handler with
        | none => some (write ok v { s with cur := none })
        | some h =>
          match h.pc with
          | .sending more =>
            some (afterSend c { write ok v { s with cur := none } with cur := some h.last } h more coin)
          | _ => some (write ok v { s with cur := none })
    else none
  | .tick =>
    match s.handler with
    | none => some s
    | some h =>
      match h.pc with
      | .idle => some { s with handler := some { h with pc := .atFetch } }
      | .fetchErr => some { s with handler := some { h with pc := if h.zero then .atFetch else .idle } }
      | .retry lo hi more => some { s with handler := some { h with pc := enterExport c lo hi more } }
      | .exporting lo hi more pos bad false =>
        some { s with handler := some { h with pc := .exporting lo hi more pos bad true } }
      | _ => some s

/-- Run a list of labels; `none` as soon as one is not enabled. -/
def run (c : Cfg) (s : State) : List Label → Option State
  | [] => some s
  | l :: ls => match step c s l with
    | none => none
    | some s' => run c s' ls

/-- States reachable from `State.init`. -/
inductive Reach (c : Cfg) : State → Prop
  | init : Reach c State.init
  | step {s s' : State} (l : Label) : Reach c s → step c s l = some s' → Reach c s'

end Ledger.Repl
