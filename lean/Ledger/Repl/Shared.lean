/-!
# Exporter drivers shared between pipelines (property C33)

Manager-level model of `internal/replication/manager.go` for SEVERAL pipelines:
which pipelines run (`m.pipelines`) and which exporters have a started driver
(`m.drivers`). `startPipeline` calls `initExporter` (one `DriverFacade` per
exporter id, created on first use); `stopPipeline` calls `stopExporterIfNeeded`:
the driver of the stopped pipeline's exporter is stopped and unregistered only
when no OTHER running pipeline uses the same exporter (the refcount rule). The
per-pipeline behaviour (fetch / export / persist) is `Ledger.Repl.Model`.
-/
namespace Ledger.Repl.Shared

/-- a pipeline = (ledger, exporter); the storage enforces uniqueness of the pair -/
structure Pipe where
  ledger : Nat
  exporter : Nat
  deriving Repr, DecidableEq

structure MState where
  mgrUp : Bool
  /-- rows of `_system.pipelines` (all enabled: nothing in scope clears `enabled`) -/
  created : List Pipe
  /-- `m.pipelines` -/
  running : List Pipe
  /-- exporter ids in `m.drivers` (driver created and started) -/
  live : List Nat
  deriving Repr, DecidableEq

def MState.init : MState := { mgrUp := true, created := [], running := [], live := [] }

inductive MOp
  | create (p : Pipe) | start (p : Pipe) | stop (p : Pipe) | reset (p : Pipe) | delete (p : Pipe)
  | sync | mgrStop | mgrStart
  deriving Repr, DecidableEq

/-- `startPipeline`: already started → `ErrAlreadyStarted`, nothing changes -/
def startP (s : MState) (p : Pipe) : MState :=
  if p ∈ s.running then s
  else { s with running := p :: s.running,
                live := if p.exporter ∈ s.live then s.live else p.exporter :: s.live }

/-- `stopPipeline` + `stopExporterIfNeeded`: not running → `ErrPipelineNotFound` -/
def stopP (s : MState) (p : Pipe) : MState :=
  if p ∈ s.running then
    { s with running := s.running.erase p,
             live := if (s.running.erase p).any (fun q => q.exporter == p.exporter) then s.live
                     else s.live.erase p.exporter }
  else s

/-- `synchronizePipelines`: start every enabled pipeline that is not running -/
def startAll (s : MState) : List Pipe → MState
  | [] => s
  | p :: ps => startAll (startP s p) ps

def mstep (s : MState) : MOp → MState
  | .create p => if s.mgrUp && !(s.created.contains p) then startP { s with created := p :: s.created } p else s
  | .start p => if s.mgrUp && s.created.contains p then startP s p else s
  | .stop p => if s.mgrUp then stopP s p else s
  | .reset p =>
    if s.mgrUp && s.created.contains p then (if p ∈ s.running then startP (stopP s p) p else s) else s
  | .delete p =>
    -- `DeletePipeline` gives up with `ErrPipelineNotFound` when the pipeline is not running
    if s.mgrUp && decide (p ∈ s.running) then { stopP s p with created := s.created.erase p } else s
  | .sync => if s.mgrUp then startAll s s.created else s
  | .mgrStop => if s.mgrUp then { s with mgrUp := false, running := [], live := [] } else s
  | .mgrStart => if s.mgrUp then s else startAll { s with mgrUp := true } s.created

inductive MReach : MState → Prop
  | init : MReach MState.init
  | step {s : MState} (o : MOp) : MReach s → MReach (mstep s o)

/-- the refcount invariant -/
structure Live (s : MState) : Prop where
  /-- a running pipeline's exporter has a started driver -/
  driver : ∀ p ∈ s.running, p.exporter ∈ s.live
  /-- no driver without a user -/
  user : ∀ e ∈ s.live, ∃ p ∈ s.running, p.exporter = e
  nodupR : s.running.Nodup
  nodupL : s.live.Nodup

end Ledger.Repl.Shared
