import Ledger.Core.Volumes

/-!
Model of the move-unwinding loop of `Store.CommitTransaction`
(/repo/internal/storage/ledger/transactions.go) and of
`Moves.ComputePostCommitEffectiveVolumes` (/repo/internal/moves.go).
-/
namespace Ledger.Core
open Ledger.Base

/-- The columns of a `Move` the loop computes (transaction id, insertion and
    effective date are copied from the transaction unchanged). -/
structure Move where
  account : String
  asset : String
  amount : Int
  isSource : Bool
  pcv : Volumes
  /-- `PostCommitEffectiveVolumes` (scan-only: filled by `RETURNING`) -/
  pcev : Option Volumes := none
  deriving DecidableEq, Repr, Inhabited

/-- Body of `for _, posting := range postings` over the *reversed* postings:
    destination move with the current volumes, `AddInput(dest, −amount)`, source
    move with the current volumes, `AddOutput(source, −amount)`. -/
def unwind : PCV → List Posting → Except Err (List Move)
  | _, [] => .ok []
  | pcv, p :: ps =>
    match pcv.get? p.dstKey with
    | none => .error .nilDeref
    | some vd =>
      match PCV.addInput pcv p.destination p.asset (-p.amount) with
      | .error e => .error e
      | .ok pcv1 =>
        match pcv1.get? p.srcKey with
        | none => .error .nilDeref
        | some vs =>
          match PCV.addOutput pcv1 p.source p.asset (-p.amount) with
          | .error e => .error e
          | .ok pcv2 =>
            match unwind pcv2 ps with
            | .error e => .error e
            | .ok rest =>
              .ok ({ account := p.destination, asset := p.asset, amount := p.amount,
                     isSource := false, pcv := vd } ::
                   { account := p.source, asset := p.asset, amount := p.amount,
                     isSource := true, pcv := vs } :: rest)

/-- The moves `CommitTransaction` inserts, given the `postCommitVolumes` returned by
    `UpdateVolumes`: `slices.Reverse(postings)`, the loop, `slices.Reverse(moves)`. -/
def movesOf (pcv : PCV) (postings : List Posting) : Except Err (List Move) :=
  match unwind pcv postings.reverse with
  | .error e => .error e
  | .ok ms => .ok ms.reverse

/-- Loop of `ComputePostCommitEffectiveVolumes` over the reversed moves. -/
def pcevLoop : List Move → List Key → PCV → Except Err PCV
  | [], _, ret => .ok ret
  | m :: ms, visited, ret =>
    if visited.contains (m.account, m.asset) then pcevLoop ms visited ret
    else match m.pcev with
      | none => .error .nilDeref
      | some v => pcevLoop ms ((m.account, m.asset) :: visited)
                    (PCV.merge ret [((m.account, m.asset), v)])

/-- `moves.ComputePostCommitEffectiveVolumes()`: for every (account, asset) the
    effective volumes of its most recent (last) move. -/
def computePCEV (moves : List Move) : Except Err PCV := pcevLoop moves.reverse [] []

end Ledger.Core
