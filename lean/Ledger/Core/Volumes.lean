import Ledger.Core.Types

/-!
Model of `Transaction.VolumeUpdates` (/repo/internal/transaction.go) and of the
`PostCommitVolumes` operations of /repo/internal/volumes.go.
-/
namespace Ledger.Core
open Ledger.Base

/-! ### `Transaction.VolumeUpdates`

First loop: every posting is appended to the bucket of `(source, asset)` and —
unless `source == destination` (the `continue`) — to the bucket of
`(destination, asset)`.  Second loop: per bucket, `Output += amount` when the
bucket's account is the posting's source and `Input += amount` when it is its
destination (both for a self-posting).  Final `SortStableFunc` by
(account, asset): the sorted map has that order by construction (bucket keys
are unique, so stability is irrelevant). -/

abbrev Groups := Map Key (List Posting)

def groupStep (m : Groups) (p : Posting) : Groups :=
  let m1 := m.insertWith (· ++ ·) p.srcKey [p]
  if p.source = p.destination then m1 else m1.insertWith (· ++ ·) p.dstKey [p]

def groupPostings (ps : List Posting) : Groups := ps.foldl groupStep []

def volStep (account : String) (v : Volumes) (p : Posting) : Volumes :=
  let v1 := if account = p.source then v.addOut p.amount else v
  if account = p.destination then v1.addIn p.amount else v1

def groupVolumes (account : String) (g : List Posting) : Volumes :=
  g.foldl (volStep account) Volumes.zero

/-- `tx.VolumeUpdates()`: one `AccountsVolumes{Account, Asset, Input, Output}` per
    touched (account, asset), sorted. -/
def volumeUpdates (ps : List Posting) : PCV :=
  (groupPostings ps).mapVal (fun k g => groupVolumes k.1 g)

/-! ### `PostCommitVolumes` -/
namespace PCV

/-- `a.AddInput(account, asset, x)`: `a[account][asset].Copy()` dereferences the
    `*big.Int`s of the stored `Volumes`; a missing entry is the zero `Volumes{nil,nil}`
    and `Copy` panics. -/
def addInput (a : PCV) (account asset : String) (x : Int) : Except Err PCV :=
  if a.contains (account, asset) then .ok (a.adjust (account, asset) (Volumes.addIn x))
  else .error .nilDeref

def addOutput (a : PCV) (account asset : String) (x : Int) : Except Err PCV :=
  if a.contains (account, asset) then .ok (a.adjust (account, asset) (Volumes.addOut x))
  else .error .nilDeref

def subtractLoop : PCV → List Posting → Except Err PCV
  | r, [] => .ok r
  | r, p :: ps => do
    let r1 ← addOutput r p.source p.asset (-p.amount)
    let r2 ← addInput r1 p.destination p.asset (-p.amount)
    subtractLoop r2 ps

/-- `a.SubtractPostings(postings)`; `len(a) == 0` short-cuts to the empty map. -/
def subtractPostings (a : PCV) (ps : List Posting) : Except Err PCV :=
  if a.isEmpty then .ok [] else subtractLoop a ps

/-- `a.Merge(b)`: missing entries are created as zero volumes, then both sides added. -/
def merge (a b : PCV) : PCV :=
  b.foldl (fun acc e => acc.insertWith Volumes.add e.1 e.2) a

/-- `VolumesByAssets.Balances` on every account (flat). -/
def balances (a : PCV) : Balances := a.mapVal (fun _ v => v.balance)

end PCV
end Ledger.Core
