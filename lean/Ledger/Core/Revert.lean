import Ledger.Core.Moves

/-!
Model of `Postings.Reverse` (/repo/internal/posting.go), `Transaction.Reverse`
(/repo/internal/transaction.go), `MarkReverts` (/repo/internal/metadata.go) and of
the construction of the revert transaction in `DefaultController.revertTransaction`
(/repo/internal/controller/ledger/controller_default.go).
-/
namespace Ledger.Core
open Ledger.Base

def Posting.swap (p : Posting) : Posting :=
  { p with source := p.destination, destination := p.source }

/-- `Postings.Reverse`: copy, swap source/destination of every posting, reverse the
    slice in place. -/
def reversePostings (ps : List Posting) : List Posting := (ps.map Posting.swap).reverse

abbrev Metadata := Map String String

/-- The fields of `Transaction` that matter here.  Times are microseconds; a Go zero
    `time.Time` / nil pointer is `none`. -/
structure Tx where
  id : Option Nat := none
  postings : List Posting := []
  metadata : Metadata := []
  timestamp : Option Int := none
  reference : String := ""
  insertedAt : Option Int := none
  revertedAt : Option Int := none
  deriving DecidableEq, Repr, Inhabited

/-- `tx.Reverse()` = `NewTransaction().WithPostings(tx.Postings.Reverse()...)`. -/
def Tx.reverse (tx : Tx) : Tx := { postings := reversePostings tx.postings }

def revertMetaKey : String := "com.formance.spec/state/reverts"

/-- `MarkReverts(m, id)` = `m.Merge({"com.formance.spec/state/reverts": fmt.Sprint(id)})`. -/
def markReverts (m : Metadata) (txId : Nat) : Metadata := m.insert revertMetaKey (toString txId)

structure RevertInput where
  force : Bool
  atEffectiveDate : Bool
  metadata : Metadata
  deriving Repr

/-- `balances[account]` exists (account-level presence of the nested Go map). -/
def hasAccount (b : Balances) (account : String) : Bool := b.any (fun e => e.1.1 == account)

/-- Which version of the non-forced balance check of `revertTransaction`:
    `current` — the code in the tree: the destination of a reversed posting is credited when
    `balances[destination][asset]` exists;
    `preFix` — the code before commit fe6217d: it was credited when `balances[destination]`
    (the account) existed, dereferencing a nil `*big.Int` when that account was only tracked
    in other assets. -/
inductive RevertCheck where
  | preFix
  | current
  deriving DecidableEq, Repr, Inhabited

/-- First loop of the non-forced check: debit the source of every reversed posting, credit
    its destination when it is tracked in `balances`.  `x.Add(…)` on a missing (`nil`)
    `*big.Int` panics. -/
def revertApply (v : RevertCheck) : Balances → List Posting → Except Err Balances
  | b, [] => .ok b
  | b, p :: ps =>
    match b.get? p.srcKey with
    | none => .error .nilDeref
    | some _ =>
      let b1 := b.adjust p.srcKey (· - p.amount)
      match v with
      | .preFix =>
        if hasAccount b1 p.destination then
          match b1.get? p.dstKey with
          | none => .error .nilDeref
          | some _ => revertApply v (b1.adjust p.dstKey (· + p.amount)) ps
        else revertApply v b1 ps
      | .current =>
        if b1.contains p.dstKey then revertApply v (b1.adjust p.dstKey (· + p.amount)) ps
        else revertApply v b1 ps

/-- Second loop: some non-`world` account ends below zero. -/
def anyOverdrawn (b : Balances) : Bool := b.any (fun e => decide (e.2 < 0) && e.1.1 != "world")

/-- Timestamp of the revert transaction: `originalTransaction.Timestamp` when reverting
    at the effective date, `*originalTransaction.RevertedAt` otherwise. -/
def revertTimestamp (orig : Tx) (atEffectiveDate : Bool) : Except Err (Option Int) :=
  if atEffectiveDate then .ok orig.timestamp
  else match orig.revertedAt with
    | none => .error .nilDeref
    | some t => .ok (some t)

/-- `originalTransaction.Reverse().WithTimestamp(ts)` with `Metadata = MarkReverts(input, id)`. -/
def revertTxOf (orig : Tx) (inp : RevertInput) (ts : Option Int) (id : Nat) : Tx :=
  { postings := reversePostings orig.postings, timestamp := ts, metadata := markReverts inp.metadata id }

/-- `revertTransaction` between `store.RevertTransaction` and `store.CommitTransaction`:
    `orig` is the row the store returned (id and `reverted_at` set by the store),
    `balances` what `GetBalances(orig.InvolvedDestinations())` returned. -/
def buildRevertTxV (v : RevertCheck) (orig : Tx) (inp : RevertInput) (balances : Balances) : Except Err Tx :=
  match revertTimestamp orig inp.atEffectiveDate with
  | .error e => .error e
  | .ok ts =>
    match orig.id with
    | none => .error .nilDeref
    | some id =>
      if inp.force then .ok (revertTxOf orig inp ts id)
      else match revertApply v balances (reversePostings orig.postings) with
        | .error e => .error e
        | .ok b => if anyOverdrawn b then .error .insufficientFunds else .ok (revertTxOf orig inp ts id)

/-- The code in the tree. -/
def buildRevertTx (orig : Tx) (inp : RevertInput) (balances : Balances) : Except Err Tx :=
  buildRevertTxV .current orig inp balances

/-- `tx.InvolvedDestinations()` as a flat sorted key list (destination, asset), deduplicated. -/
def involvedDestinations (ps : List Posting) : List Key :=
  (ps.foldl (fun (m : Map Key Unit) p => m.insert p.dstKey ()) []).keys

end Ledger.Core
