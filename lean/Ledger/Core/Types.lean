import Ledger.Base.Map

/-!
Core value types of the ledger (model of /repo/internal/posting.go, volumes.go).

* amounts are unbounded `Int` (Go `*big.Int`; `Postings.Validate` rejects
  negative amounts but the arithmetic below never looks at the sign);
* `PostCommitVolumes` (Go: `map[account]map[asset]Volumes`) is the *flat* sorted
  map `(account, asset) ↦ Volumes`.  The flat form cannot represent an account
  with an empty asset map; no code path of the ledger creates one.
* a Go nil-pointer / nil-map panic is the explicit error `Err.nilDeref`.
-/
namespace Ledger.Core
open Ledger.Base

structure Posting where
  source : String
  destination : String
  amount : Int
  asset : String
  deriving DecidableEq, Repr, Inhabited

/-- `Volumes{Input, Output}`. -/
structure Volumes where
  input : Int
  output : Int
  deriving DecidableEq, Repr, Inhabited

namespace Volumes
def zero : Volumes := ⟨0, 0⟩
/-- `Volumes.Balance` -/
def balance (v : Volumes) : Int := v.input - v.output
def addIn (x : Int) (v : Volumes) : Volumes := { v with input := v.input + x }
def addOut (x : Int) (v : Volumes) : Volumes := { v with output := v.output + x }
def add (a b : Volumes) : Volumes := ⟨a.input + b.input, a.output + b.output⟩
end Volumes

/-- `(account, asset)` -/
abbrev Key := String × String

/-- `PostCommitVolumes`, flat. -/
abbrev PCV := Map Key Volumes

/-- `Balances = map[account]map[asset]*big.Int`, flat. -/
abbrev Balances := Map Key Int

inductive Err where
  /-- nil pointer dereference / nil map write: the Go code panics -/
  | nilDeref
  /-- `machine.NewErrInsufficientFund` of the non-forced revert -/
  | insufficientFunds
  deriving DecidableEq, Repr, Inhabited

def Err.toString : Err → String
  | .nilDeref => "panic"
  | .insufficientFunds => "insufficient-funds"

instance instDecEqExcept {ε α : Type} [DecidableEq ε] [DecidableEq α] : DecidableEq (Except ε α)
  | .ok a, .ok b => if h : a = b then isTrue (by rw [h]) else isFalse (by intro e; cases e; exact h rfl)
  | .error a, .error b => if h : a = b then isTrue (by rw [h]) else isFalse (by intro e; cases e; exact h rfl)
  | .ok _, .error _ => isFalse (by intro e; cases e)
  | .error _, .ok _ => isFalse (by intro e; cases e)

/-- Posting side keys. -/
def Posting.srcKey (p : Posting) : Key := (p.source, p.asset)
def Posting.dstKey (p : Posting) : Key := (p.destination, p.asset)

end Ledger.Core
