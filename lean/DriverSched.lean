import Ledger.Driver.Core
import Ledger.Driver.Sched

/-! `ldriver_sched`: correspondence driver for the Sched area (core-only). -/
def main : IO Unit := Ledger.Driver.runDriver Ledger.Driver.Sched.handlers
