import Ledger.Driver.Core

/-! `ldriver_sched`: correspondence driver for the Sched area (core-only). -/
def main : IO Unit := Ledger.Driver.runDriver []
