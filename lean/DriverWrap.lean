import Ledger.Driver.Wrap

/-! `ldriver_wrap`: correspondence driver for the Wrap area (core-only). -/
def main : IO Unit := Ledger.Driver.runDriver Ledger.Driver.wrapHandlers
