import Ledger.Driver.CoreH
import Ledger.Driver.HistH

/-! `ldriver_core`: correspondence driver for the Core area (core-only). -/
def main : IO Unit := Ledger.Driver.runDriver (Ledger.Driver.coreHandlers ++ Ledger.Driver.histHandlers)
