import Ledger.Machine.Allotment
