"""Shared machinery of /verif/bin/check: build, audit, correspondence, evidence.

Everything is rebuilt from /repo's current working tree on every run:
  * the Go harness (harness/go, //go:build verif) is compiled *into* /repo with
    `go build -overlay`, so it always links against the tree as it is now;
  * translators regenerate lean/Ledger/Generated/*.lean from the source;
  * `lake build` re-checks every theorem of the property (incl. the bridge lemmas
    over regenerated definitions);
  * the correspondence workloads run the real code and the Lean model on the
    same inputs.
"""
import collections
import fcntl
import hashlib
import json
import os
import re
import subprocess
import sys
import time

VERIF = os.path.dirname(os.path.dirname(os.path.abspath(__file__)))
REPO = os.environ.get("VERIF_REPO", "/repo")
WORK = os.path.join(VERIF, ".work")
LEAN = os.path.join(VERIF, "lean")
# harness binaries are per checked tree, so a run against a scratch copy cannot hand its binary to a run against /repo
BIN = os.path.join(WORK, "bin" if REPO == "/repo" else "bin-" + REPO.strip("/").replace("/", "_"))
HARNESS = os.path.join(VERIF, "harness", "go")
# Runs against a scratch copy (VERIF_REPO=/tmp/...) must not overwrite the evidence of /repo.
EVID = os.path.join(VERIF, "evidence") if REPO == "/repo" else os.path.join(WORK, "evidence-alt", REPO.strip("/").replace("/", "_"))
REPLAY = os.path.join(EVID, "replay")
ALLOWED_AXIOMS = {"propext", "Classical.choice", "Quot.sound"}
FORBIDDEN = re.compile(
    r"\bsorry\b|\badmit\b|^\s*axiom\s|native_decide|bv_decide|implemented_by|\bunsafe\s|maxHeartbeats\s+0\b"
)

GOENV = dict(os.environ)
GOENV.update({"GOFLAGS": "-mod=mod", "GOPROXY": "off"})
GOENV.pop("GOSUMDB", None)
GOENV.pop("GOTOOLCHAIN", None)


def load_config(pid):
    """checks/<ID>.json merged with every fragment checks/<ID>.<layer>.json (other
    layers of the same property: bridge lemmas, schedules, reads, …)."""
    import glob
    cfg = json.load(open(os.path.join(VERIF, "checks", pid + ".json")))
    try:
        enabled = set(open(os.path.join(VERIF, "fragments.txt")).read().split())
    except FileNotFoundError:
        enabled = set()
    extra = set(os.environ.get("VERIF_FRAGMENTS", "").split())  # e.g. VERIF_FRAGMENTS="C02.reads" to try one
    for f in sorted(glob.glob(os.path.join(VERIF, "checks", pid + ".*.json"))):
        if os.path.basename(f)[:-5] not in (enabled | extra):
            continue  # a layer is merged only once it has been verified OK on the unchanged tree
        frag = json.load(open(f))
        for k in ("props_modules", "translators", "workloads", "trusted_base", "assumptions"):
            for x in frag.get(k, []):
                if x not in cfg.setdefault(k, []):
                    cfg[k].append(x)
        layer = os.path.basename(f).split(".")[1]
        for k in ("level_text", "level_note", "technique", "rule", "model_scope", "partial"):
            if frag.get(k):
                cfg[k] = (cfg.get(k, "") + " || [" + layer + "] " + frag[k]).strip(" |")
    return cfg


def log(*a):
    print(*a, file=sys.stderr, flush=True)


def run(cmd, cwd=None, env=None, timeout=None, stdin=None):
    p = subprocess.run(cmd, cwd=cwd, env=env, timeout=timeout, input=stdin,
                       stdout=subprocess.PIPE, stderr=subprocess.PIPE, text=True)
    return p.returncode, p.stdout, p.stderr


class Lock:
    """Serialises the build steps of concurrently running checks."""

    def __init__(self, name="build"):
        os.makedirs(WORK, exist_ok=True)
        self.path = os.path.join(WORK, name + ".lock")

    def __enter__(self):
        self.fh = open(self.path, "w")
        fcntl.flock(self.fh, fcntl.LOCK_EX)
        return self

    def __exit__(self, *a):
        fcntl.flock(self.fh, fcntl.LOCK_UN)
        self.fh.close()


def write_if_changed(path, content):
    os.makedirs(os.path.dirname(path), exist_ok=True)
    try:
        if open(path).read() == content:
            return False
    except FileNotFoundError:
        pass
    tmp = path + ".tmp"
    open(tmp, "w").write(content)
    os.replace(tmp, path)
    return True


# ---------------------------------------------------------------------------
# Go harness
# ---------------------------------------------------------------------------

def build_overlay():
    rep = {}
    for d, _, fs in os.walk(HARNESS):
        for f in fs:
            p = os.path.join(d, f)
            rep[os.path.join(REPO, os.path.relpath(p, HARNESS))] = p
    path = os.path.join(WORK, "overlay.json")
    write_if_changed(path, json.dumps({"Replace": rep}, indent=1, sort_keys=True))
    return path


def build_harness(bins=("verifrun",)):
    """go build of cmd/<bin> inside /repo (overlay). Returns (ok, output)."""
    ov = build_overlay()
    os.makedirs(BIN, exist_ok=True)
    ok, txt = True, ""
    for b in bins:
        out = os.path.join(BIN, b)
        tmp = out + ".new.%d" % os.getpid()
        rc, so, se = run(["go", "build", "-tags", "verif", "-overlay", ov, "-o", tmp, "./cmd/" + b],
                         cwd=REPO, env=GOENV, timeout=1500)
        if rc == 0:
            os.replace(tmp, out)  # atomic: a concurrently running workload keeps its inode
        else:
            for f in (tmp, out):  # never run a stale binary
                try:
                    os.remove(f)
                except OSError:
                    pass
        ok = ok and rc == 0
        txt += so + se
    return ok, txt


# ---------------------------------------------------------------------------
# Translators (regenerate lean/Ledger/Generated from /repo)
# ---------------------------------------------------------------------------

def run_translators(names):
    """Each translator is tools/<name> (executable); it prints a Lean file on
    stdout or fails with a message naming the untranslatable construct."""
    results = {}
    for n in names:
        exe = os.path.join(VERIF, "tools", n)
        rc, so, se = run([exe], cwd=VERIF, env=GOENV, timeout=900)
        if rc != 0:
            results[n] = (False, se[-4000:])
            continue
        m = re.search(r"^-- GENERATED-MODULE: (\S+)$", so, re.M)
        if not m:
            results[n] = (False, "translator printed no GENERATED-MODULE header")
            continue
        rel = m.group(1).replace(".", "/") + ".lean"
        write_if_changed(os.path.join(LEAN, rel), so)
        results[n] = (True, "")
    return results


# ---------------------------------------------------------------------------
# Lean
# ---------------------------------------------------------------------------

def lake_build(targets, timeout=3000):
    rc, so, se = run(["lake", "build"] + targets, cwd=LEAN, timeout=timeout)
    txt = so + se
    errs = [l for l in txt.splitlines() if l.startswith("error:") and "build failed" not in l
            and "Lean exited" not in l]
    return rc == 0, txt, errs


def strip_comments(src):
    # remove /- ... -/ (nested) and -- ... comments
    out = []
    i, depth, n = 0, 0, len(src)
    while i < n:
        if src.startswith("/-", i):
            depth += 1
            i += 2
        elif depth and src.startswith("-/", i):
            depth -= 1
            i += 2
        elif depth:
            if src[i] == "\n":
                out.append("\n")
            i += 1
        elif src.startswith("--", i):
            while i < n and src[i] != "\n":
                i += 1
        else:
            out.append(src[i])
            i += 1
    return "".join(out)


def theorems_of(module):
    """Names of the theorems declared in a module file (fully qualified)."""
    path = os.path.join(LEAN, module.replace(".", "/") + ".lean")
    src = strip_comments(open(path).read())
    ns = []
    names = []
    for line in src.splitlines():
        m = re.match(r"\s*namespace\s+(\S+)", line)
        if m:
            ns.append(m.group(1))
            continue
        m = re.match(r"\s*end\s+(\S+)", line)
        if m and ns and ns[-1] == m.group(1):
            ns.pop()
            continue
        m = re.match(r"\s*(?:@\[[^\]]*\]\s*)?(?:private\s+|protected\s+)?theorem\s+(\S+)", line)
        if m:
            names.append(".".join(ns + [m.group(1)]))
    return names


def forbidden_tokens(modules_dirs=("Ledger", "Driver.lean")):
    hits = []
    for root in modules_dirs:
        p = os.path.join(LEAN, root)
        files = []
        if os.path.isdir(p):
            for d, _, fs in os.walk(p):
                files += [os.path.join(d, f) for f in fs if f.endswith(".lean")]
        elif os.path.exists(p):
            files.append(p)
        for f in files:
            src = strip_comments(open(f).read())
            # string literals may legitimately contain words like "unsafe "
            src = re.sub(r'"(?:\\.|[^"\\])*"', '""', src)
            for k, line in enumerate(src.splitlines(), 1):
                if FORBIDDEN.search(line):
                    hits.append("%s:%d: %s" % (os.path.relpath(f, LEAN), k, line.strip()[:120]))
    return hits


def audit_axioms(pid, modules):
    """#print axioms on every theorem of the given modules."""
    thms = []
    for m in modules:
        thms += theorems_of(m)
    src = "".join("import %s\n" % m for m in modules)
    src += "".join("#print axioms %s\n" % t for t in thms)
    os.makedirs(os.path.join(WORK, "audit"), exist_ok=True)
    path = os.path.join(WORK, "audit", pid + ".lean")
    open(path, "w").write(src)
    rc, so, se = run(["lake", "env", "lean", path], cwd=LEAN, timeout=1800)
    txt = so + se
    res = {}
    # "'X' depends on axioms: [a, b]" (may wrap over lines) / "'X' does not depend on any axioms"
    flat = re.sub(r"\s+", " ", txt)
    for m in re.finditer(r"'([^']+)' depends on axioms: \[([^\]]*)\]", flat):
        res[m.group(1)] = [a.strip() for a in m.group(2).split(",") if a.strip()]
    for m in re.finditer(r"'([^']+)' does not depend on any axioms", flat):
        res[m.group(1)] = []
    out = []
    for t in thms:
        ax = res.get(t)
        ok = ax is not None and set(ax) <= ALLOWED_AXIOMS
        out.append({"theorem": t, "axioms": ax, "ok": ok})
    return out, txt if rc != 0 else ""


def leanchecker(modules):
    rc, so, se = run(["lake", "env", "leanchecker"] + modules, cwd=LEAN, timeout=3000)
    return rc == 0, (so + se)[-2000:]


# ---------------------------------------------------------------------------
# Correspondence
# ---------------------------------------------------------------------------

_DRV_DIR = None


def snapshot_drivers(drivers):
    """Call while holding Lock(), after lake_build: copies the freshly built driver executables to a
    per-process directory, so a concurrent check relinking the same driver cannot disturb this run."""
    global _DRV_DIR
    import atexit
    import shutil
    d = os.path.join(WORK, "drv-%d" % os.getpid())
    os.makedirs(d, exist_ok=True)
    for drv in drivers:
        src = os.path.join(LEAN, ".lake", "build", "bin", drv)
        if os.path.exists(src):
            shutil.copy2(src, os.path.join(d, drv))
    _DRV_DIR = d
    atexit.register(lambda: shutil.rmtree(d, ignore_errors=True))


def driver_path(driver):
    if _DRV_DIR and os.path.exists(os.path.join(_DRV_DIR, driver)):
        return os.path.join(_DRV_DIR, driver)
    return os.path.join(LEAN, ".lake", "build", "bin", driver)


def run_workload(name, seed, n, wide=False, replay=None, extra_args=(), timeout=3000, tag="",
                 hbin="verifrun", driver="ldriver"):
    """verifrun <name> → cases file → ldriver → verdicts. Returns a stats dict."""
    os.makedirs(os.path.join(WORK, "runs"), exist_ok=True)
    base = os.path.join(WORK, "runs", "%s%s-%d-%d" % (name, tag, seed, os.getpid()))
    cases_path, verd_path = base + ".cases.jsonl", base + ".verdicts.jsonl"
    cmd = [os.path.join(BIN, hbin), name, "-seed", str(seed), "-n", str(n)]
    if wide:
        cmd.append("-wide")
    if replay:
        cmd += ["-replay", replay]
    cmd += list(extra_args)
    env = dict(GOENV)
    env.setdefault("GOMEMLIMIT", "8GiB")
    env["VERIF_LDRIVER"] = os.path.join(LEAN, ".lake", "build", "bin", driver)  # only used to locate the lean tree
    t0 = time.time()
    with open(cases_path, "w") as cf:
        try:
            p = subprocess.run(cmd, cwd=REPO, env=env, stdout=cf, stderr=subprocess.PIPE,
                               text=True, timeout=timeout)
            rc, se = p.returncode, p.stderr
        except subprocess.TimeoutExpired as e:
            rc, se = 124, "timeout: " + str(e)
    with open(cases_path) as cf, open(verd_path, "w") as vf:
        p = subprocess.run([driver_path(driver)],
                           stdin=cf, stdout=vf, stderr=subprocess.PIPE, text=True, timeout=timeout)
        drc, dse = p.returncode, p.stderr
    st = {"workload": name, "seed": seed, "requested": n, "harness_rc": rc,
          "harness_stderr": se[-2000:], "driver_rc": drc, "driver_stderr": dse[-2000:],
          "evaluations": 0, "agree": 0, "disagree": 0, "prop_fail": 0, "model_prop_fail": 0,
          "driver_errors": 0, "nontrivial": 0, "tags": collections.Counter(),
          "distinct_nontrivial": 0, "samples": [], "failures": [], "wall_s": 0.0}
    seen = set()
    with open(cases_path) as cf, open(verd_path) as vf:
        for cline, vline in zip(cf, vf):
            st["evaluations"] += 1
            try:
                v = json.loads(vline)
            except Exception:
                v = {"error": "unparsable verdict: " + vline[:200]}
            if "error" in v:
                st["driver_errors"] += 1
                st["failures"].append({"kind": "driver-error", "case": cline.strip(), "verdict": v})
                continue
            if v["agree"]:
                st["agree"] += 1
            else:
                st["disagree"] += 1
            if not v["prop"]:
                st["prop_fail"] += 1
            if not v.get("propModel", True):
                st["model_prop_fail"] += 1
            for t in v.get("tags", []):
                st["tags"][t] += 1
            if v.get("nt"):
                st["nontrivial"] += 1
                try:
                    key = json.dumps(json.loads(cline)["in"], sort_keys=True)
                except Exception:
                    key = cline
                h = hashlib.sha1(key.encode()).digest()
                if h not in seen:
                    seen.add(h)
                    if len(st["samples"]) < 3:
                        # keep evidence files small: a sample is an actual case, cut when it is a long history / dump
                        st["samples"].append(json.loads(cline) if len(cline) <= 6000
                                             else {"truncated_case": cline[:4000], "length": len(cline)})
            if not (v["agree"] and v["prop"]):
                kind = "property" if not v["prop"] else "disagreement"
                # separate caps, so a flood of disagreements cannot hide the failing inputs (and vice versa);
                # within property failures keep at most 5 per signature so every distinct sig is seen
                sig = v.get("sig", "")
                nkind = sum(1 for f in st["failures"] if f["kind"] == kind)
                nsig = sum(1 for f in st["failures"] if f["kind"] == kind and f["verdict"].get("sig", "") == sig)
                if nkind < 200 and nsig < 5:
                    st["failures"].append({"kind": kind, "case": cline.strip(), "verdict": v})
    st["distinct_nontrivial"] = len(seen)
    st["tags"] = dict(sorted(st["tags"].items()))
    st["wall_s"] = round(time.time() - t0, 2)
    if not os.environ.get("VERIF_KEEP_RUNS"):
        for p in (cases_path, verd_path):
            try:
                os.remove(p)
            except OSError:
                pass
    return st


# ---------------------------------------------------------------------------
# Known findings
# ---------------------------------------------------------------------------

def load_known():
    try:
        return json.load(open(os.path.join(VERIF, "known_findings.json")))
    except FileNotFoundError:
        return {"known": [], "fixed": []}


def finding_matches(entry, failure):
    """An entry suppresses a failure only when the failure's signature (emitted by
    the handler in the verdict's note/tags, or fields of the input) equals the
    listed one exactly."""
    sig = failure.get("verdict", {}).get("sig") or ""
    return bool(sig) and sig == entry.get("sig")


# ---------------------------------------------------------------------------
# Evidence
# ---------------------------------------------------------------------------

def write_evidence(pid, ev):
    os.makedirs(EVID, exist_ok=True)
    path = os.path.join(EVID, pid + ".json")
    tmp = path + ".tmp"
    json.dump(ev, open(tmp, "w"), indent=1, sort_keys=True)
    os.replace(tmp, path)
    return path


def write_replay(pid, payload):
    os.makedirs(REPLAY, exist_ok=True)
    blob = json.dumps(payload, indent=1, sort_keys=True)
    h = hashlib.sha1(blob.encode()).hexdigest()[:12]
    path = os.path.join(REPLAY, "%s-%s.json" % (pid, h))
    open(path, "w").write(blob)
    return path
